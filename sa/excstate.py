"""Exception-flow typestate for a cursor object (used for the encoding pre-scan's `EncodingBytes`).

The pre-scan signals "ran off the end of the buffer" by raising StopIteration from the cursor's accessors, and relies on
`try: ... except StopIteration` brackets in its callers.  Whether such an exception can *escape* is not visible in one
function: the accessors raise only when the cursor's position is at or past the end, and whether it is depends on what the
previous calls did.  This module decides it by abstract interpretation of the source (nothing is imported or run):

* one *tracked object* per analysis (the cursor): inside the cursor class it is `self`, inside a client class it is the
  attribute the client keeps it in (`self.data`) and local aliases of that;
* the abstract state is a partition of names ('@pos' = the cursor's position field, plus locals) into groups of names known
  to hold the same value, each group with two three-valued facts: `lt` (value < len(cursor): yes / no / unknown) and `truth`;
* statements are executed over sets of such states (If / While / For / Try / Return / Break / Continue / Raise / Assign /
  AugAssign / Assert), loops to a fixpoint (the domain is finite); tests of the form `x < len(cursor)`, `x >= len(cursor)`
  (either orientation, under `not`) refine `lt`; a test that mentions len(cursor) in any other form is *not understood*
  (AnalysisError -> the rule is undecided, never a guess);
* calls on the tracked object, its properties (getter on load, setter on store), `next(cursor)` / `for .. in cursor`
  (__next__, StopIteration ends the loop) and calls of the client's own methods are resolved and summarised per
  (function, entry state); a bound-method table iterated by a `for key, method in table` loop is resolved to its entries;
* exceptions modelled: explicit `raise X` statements, and ValueError from `cursor.index(..)` (bytes.index).  Calls into
  the standard library other than that are assumed not to raise the tracked classes.
* one arithmetic axiom: `cursor.index(b, ..) + len(b) - 1 < len(cursor)` when index returns (bytes.index returns i with
  i + len(b) <= len(cursor)).

An outcome `raise C` of the entry function's summary is an escape; it carries the chain of call sites down to the raise
statement.
"""
from __future__ import annotations

import ast
from typing import Dict, List, Optional, Tuple

from .repo import AnalysisError, norm, walk_no_nested

POS = "@pos"
POS0 = "@pos0"
TRACKED_EXC = ("StopIteration", "ValueError")
CATCH_ALL = ("Exception", "BaseException")
PURE_BUILTINS = {"len", "isinstance", "frozenset", "set", "tuple", "list", "dict", "bytes", "str", "int", "bool", "type", "repr",
                 "min", "max", "range", "enumerate", "zip", "sorted", "reversed", "id", "ord", "chr", "print", "getattr",
                 "hasattr", "object", "super"}


# ------------------------------------------------------------------------------------------------ states
class St:
    """immutable: frozenset of groups (frozenset(names), lt, truth)"""
    __slots__ = ("groups",)

    def __init__(self, groups=frozenset()):
        self.groups = frozenset(g for g in groups if g[0])

    def __hash__(self):
        return hash(self.groups)

    def __eq__(self, other):
        return isinstance(other, St) and self.groups == other.groups

    def __repr__(self):
        return "{" + "; ".join("%s lt=%s t=%s" % ("=".join(sorted(g[0])), g[1], g[2]) for g in sorted(self.groups, key=lambda g: sorted(g[0]))) + "}"

    def group(self, name):
        for g in self.groups:
            if name in g[0]:
                return g
        return None

    def facts(self, name):
        g = self.group(name)
        return (g[1], g[2]) if g else (None, None)

    def drop(self, name):
        g = self.group(name)
        if not g:
            return self
        return St((self.groups - {g}) | {(g[0] - {name}, g[1], g[2])})

    def alias(self, name, other):
        if name == other:
            return self
        s = self.drop(name)
        g = s.group(other)
        if g is None:
            return St(s.groups | {(frozenset([name, other]), None, None)})
        return St((s.groups - {g}) | {(g[0] | {name}, g[1], g[2])})

    def fresh(self, name, lt=None, truth=None):
        s = self.drop(name)
        return St(s.groups | {(frozenset([name]), lt, truth)})

    def refine(self, name, lt=None, truth=None):
        g = self.group(name)
        if g is None:
            return St(self.groups | {(frozenset([name]), lt, truth)})
        return St((self.groups - {g}) | {(g[0], g[1] if lt is None else lt, g[2] if truth is None else truth)})

    def only(self, names):
        return St(frozenset((g[0] & frozenset(names), g[1], g[2]) for g in self.groups))

    def without_temps(self):
        return St(frozenset((frozenset(n for n in g[0] if not n.startswith("@t")), g[1], g[2]) for g in self.groups))


class Out:
    __slots__ = ("kind", "st", "val", "trace")

    def __init__(self, kind, st, val=None, trace=()):
        self.kind, self.st, self.val, self.trace = kind, st, val, tuple(trace)

    def key(self):
        return (self.kind, self.st, self.val if not isinstance(self.val, list) else tuple(self.val))


UNKNOWN = ("fresh", None, None)


def _dedupe(outs):
    seen, res = set(), []
    for o in outs:
        k = o.key()
        if k not in seen:
            seen.add(k)
            res.append(o)
    return res


class Frame:
    def __init__(self, func, cls, tracked):
        self.func = func
        self.cls = cls
        self.tracked = set(tracked)
        self.log = None
        self.handler_exc = []


class Interp:
    def __init__(self, mod, cursor_cls, holder_attr="data"):
        self.mod = mod
        self.cursor = cursor_cls
        self.holder_attr = holder_attr
        self.memo: Dict[tuple, List[Out]] = {}
        self.active = set()
        self.props: Dict[str, Tuple[Optional[str], Optional[str]]] = {}
        for name, val in cursor_cls.assigns.items():
            if isinstance(val, ast.Call) and norm(val.func) == "property":
                g = val.args[0].id if val.args and isinstance(val.args[0], ast.Name) else None
                s = val.args[1].id if len(val.args) > 1 and isinstance(val.args[1], ast.Name) else None
                self.props[name] = (g, s)
        for m in cursor_cls.methods.values():
            for d in m.node.decorator_list:
                if norm(d) == "property":
                    self.props[m.name] = (m.name, self.props.get(m.name, (None, None))[1])
                elif isinstance(d, ast.Attribute) and d.attr == "setter":
                    raise AnalysisError("decorator-form property setters on %s are not modelled" % cursor_cls.name)
        # the position field: the one attribute of self that the cursor class compares with len(self)
        fields = set()
        def self_attr(x):
            return x.attr if isinstance(x, ast.Attribute) and norm(x.value) == "self" else None
        for m in cursor_cls.methods.values():
            via = {}
            for a in ast.walk(m.node):
                if isinstance(a, ast.Assign):
                    attrs = [self_attr(x) for x in list(a.targets) + [a.value] if self_attr(x)]
                    for t in a.targets:
                        if isinstance(t, ast.Name) and len(attrs) == 1:
                            via.setdefault(t.id, set()).add(attrs[0])
            for c in ast.walk(m.node):
                if isinstance(c, ast.Compare) and len(c.ops) == 1:
                    for a, b in ((c.left, c.comparators[0]), (c.comparators[0], c.left)):
                        if isinstance(b, ast.Call) and norm(b) == "len(self)":
                            if self_attr(a):
                                fields.add(a.attr)
                            elif isinstance(a, ast.Name) and len(via.get(a.id, ())) == 1:
                                fields |= via[a.id]
        fields -= set(self.props)
        if len(fields) != 1:
            raise AnalysisError("the position field of %s was not identified (candidates %s)" % (cursor_cls.name, sorted(fields)))
        self.pos_attr = fields.pop()
        self.stats = {"summaries": 0, "raise_sites": 0, "handlers": 0, "calls_on_cursor": 0, "property_reads": 0,
                      "property_writes": 0}
        self._tmp = 0

    # -------------------------------------------------------------------------------------------- helpers
    def tmp(self):
        self._tmp += 1
        return "@t%d" % self._tmp

    def is_tracked(self, e, fr) -> bool:
        return norm(e) in fr.tracked

    def mentions_tracked(self, e, fr) -> bool:
        return any(isinstance(x, (ast.Name, ast.Attribute)) and norm(x) in fr.tracked for x in ast.walk(e))

    def frame_for(self, func, cls):
        if cls is self.cursor or (cls is not None and cls.is_subclass_of(self.cursor)):
            tracked = {"self"}
        else:
            tracked = {"self." + self.holder_attr}
            for n in walk_no_nested(func.node):
                if isinstance(n, ast.Assign) and len(n.targets) == 1 and isinstance(n.targets[0], ast.Name) and \
                        norm(n.value) == "self." + self.holder_attr:
                    name = n.targets[0].id
                    stores = [x for x in walk_no_nested(func.node) if isinstance(x, ast.Name) and x.id == name and isinstance(x.ctx, ast.Store)]
                    if len(stores) != 1:
                        raise AnalysisError("%s: alias %s of the cursor is assigned more than once" % (func.qual, name))
                    tracked.add(name)
        return Frame(func, cls, tracked)

    # -------------------------------------------------------------------------------------------- values
    def bind(self, st, name, val):
        if val[0] == "name":
            if val[1] == name:
                return st
            return st.alias(name, val[1])
        return st.fresh(name, val[1], val[2])

    def vfacts(self, st, val):
        if val[0] == "name":
            return st.facts(val[1])
        return (val[1], val[2])

    # -------------------------------------------------------------------------------------------- summaries
    def summary(self, func, cls, st_in: St, argvals: Dict[str, tuple], caller_st: Optional[St] = None) -> List[Out]:
        """outcomes ('return' | 'raise') of calling func with the cursor in state st_in (only @pos facts are read) and the given
        abstract values for parameters (values are ('fresh', lt, truth) or ('pos',) = the cursor position)"""
        pos_lt = st_in.facts(POS)[0]
        init = St().fresh(POS, pos_lt, None).alias(POS0, POS)
        for p, v in sorted(argvals.items()):
            if v == ("pos",):
                init = init.alias(p, POS)
            else:
                init = init.fresh(p, v[1], v[2])
        key = (func.fq, init)
        if key in self.memo:
            return self.memo[key]
        if key in self.active:
            raise AnalysisError("recursive call of %s is not modelled" % func.qual)
        self.active.add(key)
        try:
            fr = self.frame_for(func, cls)
            outs = self.ex(func.node.body, init, fr)
            res = []
            for o in outs:
                if o.kind == "fall":
                    res.append(Out("return", o.st, ("fresh", None, False)))
                elif o.kind in ("return", "raise"):
                    res.append(o)
                else:
                    raise AnalysisError("%s: `%s` outside a loop" % (func.qual, o.kind))
            # project onto @pos / @pos0 and the returned value
            proj = []
            for o in res:
                if o.kind == "return":
                    v = o.val
                    if v[0] == "name":
                        g = o.st.group(v[1])
                        if g and POS in g[0]:
                            v = ("pos",)
                        elif g and POS0 in g[0]:
                            v = ("pos0",)
                        else:
                            lt, tr = o.st.facts(v[1])
                            v = ("fresh", lt, tr)
                    proj.append(Out("return", o.st.only([POS, POS0]), v))
                else:
                    proj.append(Out("raise", o.st.only([POS, POS0]), o.val, o.trace))
            proj = _dedupe(proj)
            self.memo[key] = proj
            self.stats["summaries"] += 1
            return proj
        finally:
            self.active.discard(key)

    def apply(self, func, cls, st: St, fr: Frame, args: List[tuple], node, same_object=True) -> List[Out]:
        """call func from caller state st; returns 'val' / 'raise' outcomes in caller terms"""
        params = func.params()
        if params and params[0] in ("self", "cls"):
            params = params[1:]
        argvals = {}
        for p, v in zip(params, args):
            if v[0] == "name":
                g = st.group(v[1])
                if same_object and g and POS in g[0]:
                    argvals[p] = ("pos",)
                else:
                    lt, tr = st.facts(v[1])
                    argvals[p] = ("fresh", lt, tr)
            else:
                argvals[p] = v
        for p in params[len(args):]:
            argvals[p] = UNKNOWN
        st_in = st if same_object else self.fresh_cursor_state()
        outs = []
        here = "%s:%d" % (fr.func.qual, getattr(node, "lineno", 0))
        for o in self.summary(func, cls, st_in, argvals):
            if o.kind == "raise":
                outs.append(Out("raise", st if not same_object else self._merge_back(st, o.st)[0], o.val, (here,) + o.trace))
                continue
            if not same_object:
                v = o.val if o.val[0] == "fresh" else UNKNOWN
                outs.append(Out("val", st, v))
                continue
            st2, old_names = self._merge_back(st, o.st)
            v = o.val
            if v == ("pos",):
                v = ("name", POS)
            elif v == ("pos0",):
                if old_names:
                    v = ("name", sorted(old_names)[0])
                else:
                    lt, tr = o.st.facts(POS0)
                    v = ("fresh", lt, tr)
            outs.append(Out("val", st2, v))
        return outs

    def _merge_back(self, st: St, callee: St):
        """caller state after a call on the same cursor: callee holds facts for @pos (new) and @pos0 (value at entry)"""
        g_new = callee.group(POS)
        unchanged = g_new is not None and POS0 in g_new[0]
        g_old = st.group(POS)
        old_names = (g_old[0] - {POS}) if g_old else frozenset()
        if unchanged:
            lt = g_new[1]
            return st.refine(POS, lt=lt), old_names
        s = st.drop(POS)
        # what the callee learnt about the entry value still holds for the caller's names that held it
        g0 = callee.group(POS0)
        if g0 is not None and old_names and g0[1] is not None:
            s = s.refine(sorted(old_names)[0], lt=g0[1])
        s = s.fresh(POS, g_new[1] if g_new else None, None)
        return s, old_names

    _fresh_state = None

    def fresh_cursor_state(self) -> St:
        """the state of a newly constructed cursor: whatever its __init__ leaves"""
        if self._fresh_state is None:
            init = self.cursor.find_method("__init__")
            st = St()
            if init is not None and init.cls is not None and init.cls.module is self.mod:
                outs = self.summary(init, self.cursor, St(), {p: UNKNOWN for p in init.params()[1:]})
                rets = [o for o in outs if o.kind == "return"]
                lts = {o.st.facts(POS)[0] for o in rets}
                st = St().fresh(POS, lts.pop() if len(lts) == 1 else None, None)
            self._fresh_state = st
        return self._fresh_state

    # -------------------------------------------------------------------------------------------- expressions
    def seq(self, outs: List[Out], fn) -> List[Out]:
        res = []
        for o in outs:
            if o.kind == "val":
                res.extend(fn(o.st, o.val))
            else:
                res.append(o)
        return res

    def ev_list(self, exprs, st, fr) -> List[Out]:
        """evaluate expressions left to right; value of the outcome is the list of values"""
        outs = [Out("val", st, [])]
        for e in exprs:
            def step(s, vals, e=e):
                return self.seq(self.ev(e, s, fr), lambda s2, v: [Out("val", s2, vals + [v])])
            outs = self.seq(outs, step)
        return outs

    def ev(self, e, st: St, fr: Frame) -> List[Out]:
        if e is None:
            return [Out("val", st, UNKNOWN)]
        if isinstance(e, ast.Constant):
            v = e.value
            lt = True if isinstance(v, int) and not isinstance(v, bool) and v < 0 else None
            try:
                tr = bool(v)
            except Exception:
                tr = None
            return [Out("val", st, ("fresh", lt, tr))]
        if isinstance(e, ast.Name):
            if st.group(e.id) is not None:
                return [Out("val", st, ("name", e.id))]
            return [Out("val", st, UNKNOWN)]
        if isinstance(e, ast.Attribute):
            if self.is_tracked(e, fr):
                return [Out("val", st, UNKNOWN)]
            if self.is_tracked(e.value, fr):
                if e.attr == self.pos_attr:
                    return [Out("val", st, ("name", POS))]
                if e.attr in self.props:
                    getter = self.props[e.attr][0]
                    f = self.cursor.find_method(getter) if getter else None
                    if f is None:
                        raise AnalysisError("property %s of %s has no resolvable getter" % (e.attr, self.cursor.name))
                    self.stats["property_reads"] += 1
                    return self.apply(f, self.cursor, st, fr, [], e)
                return [Out("val", st, UNKNOWN)]
            return self.seq(self.ev(e.value, st, fr), lambda s, v: [Out("val", s, UNKNOWN)])
        if isinstance(e, ast.Call):
            return self.ev_call(e, st, fr)
        if isinstance(e, ast.BinOp):
            ax = self._axiom_index(e, fr)
            if ax is not None:
                def after(s, vals):
                    return [Out("val", s, ("fresh", True, None)), Out("raise", s, "ValueError", ("%s:%d" % (fr.func.qual, e.lineno),))]
                return self.seq(self.ev_list(ax, st, fr), after)

            def binop(s, vals):
                l, r = vals
                if isinstance(e.op, ast.Sub) and isinstance(e.right, ast.Constant) and isinstance(e.right.value, int) and e.right.value >= 0:
                    if self.vfacts(s, l)[0] is True:
                        return [Out("val", s, ("fresh", True, None))]
                return [Out("val", s, UNKNOWN)]
            return self.seq(self.ev_list([e.left, e.right], st, fr), binop)
        if isinstance(e, ast.UnaryOp):
            if isinstance(e.op, ast.Not):
                def neg(s, v):
                    tr = self.vfacts(s, v)[1]
                    return [Out("val", s, ("fresh", None, None if tr is None else (not tr)))]
                return self.seq(self.ev(e.operand, st, fr), neg)
            if isinstance(e.op, ast.USub) and isinstance(e.operand, ast.Constant) and isinstance(e.operand.value, int):
                return [Out("val", st, ("fresh", True if e.operand.value > 0 else None, None))]
            return self.seq(self.ev(e.operand, st, fr), lambda s, v: [Out("val", s, UNKNOWN)])
        if isinstance(e, (ast.BoolOp, ast.Compare, ast.IfExp)):
            res = []
            for kind, s, tr in self.cond_full(e, st, fr):
                if kind == "raise":
                    res.append(tr)
                else:
                    res.append(Out("val", s, ("fresh", None, kind == "true") if not isinstance(e, ast.IfExp) else UNKNOWN))
            return res
        if isinstance(e, ast.Subscript):
            parts = [e.value]
            sl = e.slice
            if isinstance(sl, ast.Slice):
                parts += [x for x in (sl.lower, sl.upper, sl.step) if x is not None]
            else:
                parts.append(sl)
            return self.seq(self.ev_list(parts, st, fr), lambda s, vals: [Out("val", s, UNKNOWN)])
        if isinstance(e, (ast.Tuple, ast.List, ast.Set)):
            return self.seq(self.ev_list(list(e.elts), st, fr), lambda s, vals: [Out("val", s, UNKNOWN)])
        if isinstance(e, ast.Dict):
            parts = [x for x in list(e.keys) + list(e.values) if x is not None]
            return self.seq(self.ev_list(parts, st, fr), lambda s, vals: [Out("val", s, UNKNOWN)])
        if isinstance(e, ast.Starred):
            return self.ev(e.value, st, fr)
        if isinstance(e, ast.JoinedStr):
            parts = [v.value for v in e.values if isinstance(v, ast.FormattedValue)]
            return self.seq(self.ev_list(parts, st, fr), lambda s, vals: [Out("val", s, UNKNOWN)])
        if isinstance(e, (ast.Lambda, ast.ListComp, ast.SetComp, ast.DictComp, ast.GeneratorExp)):
            if self.mentions_tracked(e, fr):
                raise AnalysisError("%s:%d: the cursor is used inside a lambda / comprehension" % (fr.func.qual, e.lineno))
            return [Out("val", st, UNKNOWN)]
        raise AnalysisError("%s:%d: expression form %s is not modelled" % (fr.func.qual, getattr(e, "lineno", 0), type(e).__name__))

    def _axiom_index(self, e, fr):
        """`T.index(B, ...) + len(B) - 1`  ->  list of sub-expressions to evaluate for their effects, else None"""
        if not (isinstance(e.op, ast.Sub) and isinstance(e.right, ast.Constant) and e.right.value == 1 and isinstance(e.left, ast.BinOp)
                and isinstance(e.left.op, ast.Add)):
            return None
        a, b = e.left.left, e.left.right
        for idx, ln in ((a, b), (b, a)):
            if isinstance(idx, ast.Call) and isinstance(idx.func, ast.Attribute) and idx.func.attr == "index" and \
                    self.is_tracked(idx.func.value, fr) and idx.args and not idx.keywords and \
                    isinstance(ln, ast.Call) and norm(ln.func) == "len" and len(ln.args) == 1 and norm(ln.args[0]) == norm(idx.args[0]):
                return list(idx.args)
        return None

    def dispatch_targets(self, name, fr) -> Optional[List[str]]:
        """a local bound by `for .., name, .. in TABLE` where TABLE is a local tuple / list of tuples whose corresponding
        component is `self.<method>` everywhere"""
        for n in walk_no_nested(fr.func.node):
            if isinstance(n, ast.For) and isinstance(n.target, (ast.Tuple, ast.List)):
                idx = [i for i, t in enumerate(n.target.elts) if isinstance(t, ast.Name) and t.id == name]
                if not idx or not isinstance(n.iter, ast.Name):
                    continue
                tables = [a.value for a in walk_no_nested(fr.func.node) if isinstance(a, ast.Assign) and len(a.targets) == 1 and
                          isinstance(a.targets[0], ast.Name) and a.targets[0].id == n.iter.id]
                params = fr.func.params()
                if not tables and n.iter.id in params and fr.cls is not None:
                    # the table is a parameter: read it at every call site `self.<this method>(.., table, ..)` of the class
                    pos = params.index(n.iter.id) - 1
                    sites = [c for m in fr.cls.methods.values() for c in walk_no_nested(m.node) if isinstance(c, ast.Call) and
                             norm(c.func) == "self." + fr.func.name]
                    for c in sites:
                        arg = c.args[pos] if 0 <= pos < len(c.args) else next((k.value for k in c.keywords if k.arg == n.iter.id), None)
                        caller = next(m for m in fr.cls.methods.values() if any(x is c for x in walk_no_nested(m.node)))
                        if isinstance(arg, ast.Name):
                            tables += [a.value for a in walk_no_nested(caller.node) if isinstance(a, ast.Assign) and len(a.targets) == 1 and
                                       isinstance(a.targets[0], ast.Name) and a.targets[0].id == arg.id] or [None]
                        else:
                            tables.append(arg)
                    if not sites or any(t is None for t in tables):
                        return None
                elif len(tables) != 1:
                    return None
                out = []
                for tab in tables:
                    if not isinstance(tab, (ast.Tuple, ast.List)):
                        return None
                    for row in tab.elts:
                        if not isinstance(row, (ast.Tuple, ast.List)) or len(row.elts) <= idx[0]:
                            return None
                        c = row.elts[idx[0]]
                        if not (isinstance(c, ast.Attribute) and norm(c.value) == "self"):
                            return None
                        if c.attr not in out:
                            out.append(c.attr)
                return out
        return None

    def local_class(self, name, fr):
        """class of a local assigned once from `Cls(...)` with Cls a class of this module"""
        vals = [a.value for a in walk_no_nested(fr.func.node) if isinstance(a, ast.Assign) and len(a.targets) == 1 and
                isinstance(a.targets[0], ast.Name) and a.targets[0].id == name]
        if len(vals) == 1 and isinstance(vals[0], ast.Call) and isinstance(vals[0].func, ast.Name):
            return self.mod.classes.get(vals[0].func.id)
        return None

    def ev_call(self, e: ast.Call, st, fr) -> List[Out]:
        fn = e.func
        args = list(e.args) + [k.value for k in e.keywords]
        here = "%s:%d" % (fr.func.qual, e.lineno)
        # next(cursor)
        if isinstance(fn, ast.Name) and fn.id == "next" and e.args and self.is_tracked(e.args[0], fr):
            f = self.cursor.find_method("__next__")
            if f is None:
                raise AnalysisError("%s has no __next__" % self.cursor.name)
            self.stats["calls_on_cursor"] += 1
            return self.apply(f, self.cursor, st, fr, [], e)
        if isinstance(fn, ast.Attribute) and self.is_tracked(fn.value, fr):
            f = self.cursor.methods.get(fn.attr)
            self.stats["calls_on_cursor"] += 1

            def call(s, vals):
                if f is not None:
                    return self.apply(f, self.cursor, s, fr, vals, e)
                outs = [Out("val", s, UNKNOWN)]
                if fn.attr in ("index", "rindex"):
                    outs.append(Out("raise", s, "ValueError", (here,)))
                return outs
            return self.seq(self.ev_list(args, st, fr), call)
        for a in args:
            if self.is_tracked(a, fr):
                if isinstance(fn, ast.Name) and fn.id in PURE_BUILTINS | {"iter"}:
                    continue
                raise AnalysisError("%s: the cursor is passed to %s, which is not modelled" % (here, norm(fn)))
        if isinstance(fn, ast.Attribute) and norm(fn.value) == "self" and fr.cls is not None and "self" not in fr.tracked:
            f = fr.cls.find_method(fn.attr)
            if f is not None:
                return self.seq(self.ev_list(args, st, fr), lambda s, vals: self.apply(f, fr.cls, s, fr, vals, e))
        if isinstance(fn, ast.Name):
            targets = self.dispatch_targets(fn.id, fr)
            if targets is not None:
                def call_any(s, vals):
                    res = []
                    for t in targets:
                        f = fr.cls.find_method(t) if fr.cls else None
                        if f is None:
                            raise AnalysisError("%s: dispatch entry self.%s does not resolve" % (here, t))
                        res.extend(self.apply(f, fr.cls, s, fr, vals, e))
                    return _dedupe(res)
                return self.seq(self.ev_list(args, st, fr), call_any)
            if st.group(fn.id) is not None or any(isinstance(x, ast.Name) and x.id == fn.id and isinstance(x.ctx, ast.Store)
                                                  for x in walk_no_nested(fr.func.node)):
                raise AnalysisError("%s: call of the local %s cannot be resolved" % (here, fn.id))
            f = self.mod.functions.get(fn.id)
            if f is not None:
                def call_fn(s, vals):
                    res = []
                    for o in self.summary(f, None, St(), {p: UNKNOWN for p in f.params()}):
                        if o.kind == "raise":
                            res.append(Out("raise", s, o.val, (here,) + o.trace))
                        else:
                            res.append(Out("val", s, o.val if o.val[0] == "fresh" else UNKNOWN))
                    return _dedupe(res)
                return self.seq(self.ev_list(args, st, fr), call_fn)
            return self.seq(self.ev_list(args, st, fr), lambda s, vals: [Out("val", s, UNKNOWN)])
        if isinstance(fn, ast.Attribute) and isinstance(fn.value, ast.Name):
            c = self.local_class(fn.value.id, fr)
            if c is not None:
                f = c.find_method(fn.attr)
                if f is not None:
                    return self.seq(self.ev_list(args, st, fr), lambda s, vals: self.apply(f, c, s, fr, vals, e, same_object=False))
        # method of some other object: evaluate receiver and arguments for their effects
        recv = [fn.value] if isinstance(fn, ast.Attribute) else [fn]
        return self.seq(self.ev_list(recv + args, st, fr), lambda s, vals: [Out("val", s, UNKNOWN)])

    # -------------------------------------------------------------------------------------------- conditions
    def _len_of_cursor(self, e, fr):
        return isinstance(e, ast.Call) and norm(e.func) == "len" and len(e.args) == 1 and self.is_tracked(e.args[0], fr)

    def cond_full(self, test, st, fr):
        """[(kind, state, out)] with kind 'true' | 'false' | 'raise' (out = the raise outcome)"""
        res = []
        if isinstance(test, ast.UnaryOp) and isinstance(test.op, ast.Not):
            for k, s, o in self.cond_full(test.operand, st, fr):
                res.append(({"true": "false", "false": "true"}.get(k, k), s, o))
            return res
        if isinstance(test, ast.BoolOp):
            is_and = isinstance(test.op, ast.And)
            pending = [st]
            for i, v in enumerate(test.values):
                nxt = []
                for s0 in pending:
                    for k, s, o in self.cond_full(v, s0, fr):
                        if k == "raise":
                            res.append((k, s, o))
                        elif (k == "false") == is_and:
                            res.append((k, s, None))          # short circuit
                        else:
                            nxt.append(s)
                pending = list(dict.fromkeys(nxt))
            for s in pending:
                res.append(("true" if is_and else "false", s, None))
            return res
        if isinstance(test, ast.IfExp):
            for k, s, o in self.cond_full(test.test, st, fr):
                if k == "raise":
                    res.append((k, s, o))
                else:
                    res.extend(self.cond_full(test.body if k == "true" else test.orelse, s, fr))
            return res
        if isinstance(test, ast.Compare) and len(test.ops) == 1:
            l, r, op = test.left, test.comparators[0], test.ops[0]
            ll, rl = self._len_of_cursor(l, fr), self._len_of_cursor(r, fr)
            if ll and not rl:
                mirror = {ast.Lt: ast.Gt, ast.Gt: ast.Lt, ast.LtE: ast.GtE, ast.GtE: ast.LtE, ast.Eq: ast.Eq, ast.NotEq: ast.NotEq}
                if type(op) not in mirror:
                    raise AnalysisError("%s:%d: test `%s` on the cursor's length is not understood" % (fr.func.qual, test.lineno, norm(test)))
                l, r, op, rl = r, l, mirror[type(op)](), True
            if rl:
                if not isinstance(op, (ast.Lt, ast.GtE)):
                    raise AnalysisError("%s:%d: test `%s` on the cursor's length is not understood" % (fr.func.qual, test.lineno, norm(test)))
                lt_when_true = isinstance(op, ast.Lt)
                for o in self.ev(l, st, fr):
                    if o.kind != "val":
                        res.append(("raise", o.st, o))
                        continue
                    s, v = o.st, o.val
                    known = self.vfacts(s, v)[0]
                    for branch in ("true", "false"):
                        implied = lt_when_true if branch == "true" else (not lt_when_true)
                        if known is not None and known != implied:
                            continue
                        s2 = s.refine(v[1], lt=implied) if v[0] == "name" else s
                        res.append((branch, s2, None))
                return res
        if any(self._len_of_cursor(x, fr) for x in ast.walk(test)):
            raise AnalysisError("%s:%d: test `%s` on the cursor's length is not understood" % (fr.func.qual, test.lineno, norm(test)))
        if isinstance(test, ast.Compare):
            outs = self.ev_list([test.left] + list(test.comparators), st, fr)
            for o in outs:
                if o.kind != "val":
                    res.append(("raise", o.st, o))
                else:
                    res.append(("true", o.st, None))
                    res.append(("false", o.st, None))
            return res
        for o in self.ev(test, st, fr):
            if o.kind != "val":
                res.append(("raise", o.st, o))
                continue
            tr = self.vfacts(o.st, o.val)[1]
            for branch, want in (("true", True), ("false", False)):
                if tr is not None and tr != want:
                    continue
                s2 = o.st.refine(o.val[1], truth=want) if o.val[0] == "name" else o.st
                res.append((branch, s2, None))
        return res

    # -------------------------------------------------------------------------------------------- statements
    def ex(self, stmts, st: St, fr: Frame) -> List[Out]:
        outs = [Out("fall", st)]
        for stn in stmts:
            nxt = []
            for o in outs:
                if o.kind != "fall":
                    nxt.append(o)
                    continue
                if fr.log is not None:
                    fr.log.add(o.st)
                r = self.ex1(stn, o.st.without_temps(), fr)
                if fr.log is not None:
                    for x in r:
                        fr.log.add(x.st)
                nxt.extend(r)
            outs = _dedupe(nxt)
        return outs

    def _vals_to_fall(self, outs):
        return [Out("fall", o.st) if o.kind == "val" else o for o in outs]

    def assign_to(self, target, s, v, fr) -> List[Out]:
        """outcomes ('fall' | 'raise') of storing value v into target"""
        if isinstance(target, ast.Name):
            if target.id in fr.tracked:
                return [Out("fall", s)]
            return [Out("fall", self.bind(s, target.id, v))]
        if isinstance(target, ast.Attribute) and self.is_tracked(target.value, fr):
            if target.attr == self.pos_attr:
                return [Out("fall", self.bind(s, POS, v))]
            if target.attr in self.props:
                setter = self.props[target.attr][1]
                f = self.cursor.find_method(setter) if setter else None
                if f is None:
                    raise AnalysisError("property %s of %s has no resolvable setter" % (target.attr, self.cursor.name))
                self.stats["property_writes"] += 1
                return self._vals_to_fall(self.apply(f, self.cursor, s, fr, [v], target))
            return [Out("fall", s)]
        if isinstance(target, ast.Attribute):
            if norm(target) in fr.tracked and fr.func.name != "__init__":
                raise AnalysisError("%s rebinds the cursor attribute" % fr.func.qual)
            return [Out("fall", s)]
        if isinstance(target, (ast.Tuple, ast.List)):
            for t in target.elts:
                outs = self.assign_to(t.value if isinstance(t, ast.Starred) else t, s, UNKNOWN, fr)
                if len(outs) != 1 or outs[0].kind != "fall":
                    raise AnalysisError("%s: unpacking into a cursor property is not modelled" % fr.func.qual)
                s = outs[0].st
            return [Out("fall", s)]
        if isinstance(target, ast.Subscript):
            return self._vals_to_fall(self.seq(self.ev_list([target.value, target.slice] if not isinstance(target.slice, ast.Slice) else [target.value], s, fr),
                                               lambda s2, vals: [Out("val", s2, UNKNOWN)]))
        raise AnalysisError("%s: assignment target %s is not modelled" % (fr.func.qual, type(target).__name__))

    def ex1(self, n, st: St, fr: Frame) -> List[Out]:
        if isinstance(n, (ast.Pass, ast.Import, ast.ImportFrom, ast.FunctionDef, ast.ClassDef, ast.Global, ast.Nonlocal)):
            return [Out("fall", st)]
        if isinstance(n, ast.Expr):
            return self._vals_to_fall(self.ev(n.value, st, fr))
        if isinstance(n, (ast.Assign, ast.AnnAssign)):
            targets = n.targets if isinstance(n, ast.Assign) else [n.target]
            if isinstance(n, ast.AnnAssign) and n.value is None:
                return [Out("fall", st)]

            def store(s, v):
                # bind a temporary so that chained targets share one value
                if v[0] == "fresh" and len(targets) > 1:
                    t = self.tmp()
                    s = s.fresh(t, v[1], v[2])
                    v = ("name", t)
                outs = [Out("fall", s)]
                for tg in targets:
                    nxt = []
                    for o in outs:
                        nxt.extend(self.assign_to(tg, o.st, v, fr) if o.kind == "fall" else [o])
                    outs = nxt
                return outs
            return self.seq(self.ev(n.value, st, fr), store)
        if isinstance(n, ast.AugAssign):
            load = ast.copy_location(ast.BinOp(left=_as_load(n.target), op=n.op, right=n.value), n)
            return self.seq(self.ev(load, st, fr), lambda s, v: self.assign_to(n.target, s, v, fr))
        if isinstance(n, ast.Return):
            def ret(s, v):
                return [Out("return", s, v)]
            return self.seq(self.ev(n.value, st, fr), ret) if n.value is not None else [Out("return", st, ("fresh", None, False))]
        if isinstance(n, ast.Break):
            return [Out("break", st)]
        if isinstance(n, ast.Continue):
            return [Out("continue", st)]
        if isinstance(n, ast.Raise):
            self.stats["raise_sites"] += 1
            here = "%s:%d" % (fr.func.qual, n.lineno)
            if n.exc is None:
                if not fr.handler_exc:
                    raise AnalysisError("%s: bare raise outside a handler" % here)
                return [Out("raise", st, fr.handler_exc[-1], (here,))]
            exc = n.exc.func if isinstance(n.exc, ast.Call) else n.exc
            name = exc.id if isinstance(exc, ast.Name) else (exc.attr if isinstance(exc, ast.Attribute) else None)
            if name is None:
                raise AnalysisError("%s: raised object is not a class name" % here)
            if isinstance(n.exc, ast.Call):
                return self.seq(self.ev_list(list(n.exc.args), st, fr), lambda s, vals: [Out("raise", s, name, (here,))])
            return [Out("raise", st, name, (here,))]
        if isinstance(n, ast.Assert):
            res = []
            for k, s, o in self.cond_full(n.test, st, fr):
                if k == "raise":
                    res.append(o)
                elif k == "true":
                    res.append(Out("fall", s))
            return res
        if isinstance(n, ast.If):
            res = []
            for k, s, o in self.cond_full(n.test, st, fr):
                if k == "raise":
                    res.append(o)
                else:
                    res.extend(self.ex(n.body if k == "true" else n.orelse, s, fr))
            return _dedupe(res)
        if isinstance(n, ast.While):
            return self.loop(n, st, fr, lambda s: self.cond_full(n.test, s, fr), None)
        if isinstance(n, ast.For):
            if self.is_tracked(n.iter, fr):
                it = self.cursor.find_method("__iter__")
                nx = self.cursor.find_method("__next__")
                if it is None or nx is None or not any(isinstance(x, ast.Return) and x.value is not None and norm(x.value) == "self"
                                                        for x in walk_no_nested(it.node)):
                    raise AnalysisError("%s is iterated but is not its own iterator" % self.cursor.name)
                self.stats["calls_on_cursor"] += 1

                def head(s):
                    res = []
                    for o in self.apply(nx, self.cursor, s, fr, [], n):
                        if o.kind == "raise" and o.val == "StopIteration":
                            res.append(("false", o.st, None))
                        elif o.kind == "raise":
                            res.append(("raise", o.st, o))
                        else:
                            outs = self.assign_to(n.target, o.st, o.val, fr)
                            res.append(("true", outs[0].st, None))
                    return res
                return self.loop(n, st, fr, head, None)

            def head_generic(s):
                outs = self.assign_to(n.target, s, UNKNOWN, fr)
                return [("true", outs[0].st, None), ("false", s, None)]
            res = []
            for o in self.ev(n.iter, st, fr):
                if o.kind != "val":
                    res.append(o)
                else:
                    res.extend(self.loop(n, o.st, fr, head_generic, None))
            return _dedupe(res)
        if isinstance(n, ast.Try):
            return self.try_(n, st, fr)
        if isinstance(n, ast.With):
            outs = [Out("fall", st)]
            for item in n.items:
                nxt = []
                for o in outs:
                    if o.kind != "fall":
                        nxt.append(o)
                        continue
                    for v in self.ev(item.context_expr, o.st, fr):
                        if v.kind != "val":
                            nxt.append(v)
                        elif item.optional_vars is not None:
                            nxt.extend(self.assign_to(item.optional_vars, v.st, UNKNOWN, fr))
                        else:
                            nxt.append(Out("fall", v.st))
                outs = nxt
            res = []
            for o in outs:
                res.extend(self.ex(n.body, o.st, fr) if o.kind == "fall" else [o])
            return _dedupe(res)
        if isinstance(n, ast.Delete):
            s = st
            for t in n.targets:
                if isinstance(t, ast.Name):
                    s = s.drop(t.id)
                elif self.mentions_tracked(t, fr):
                    raise AnalysisError("%s:%d: del on the cursor" % (fr.func.qual, n.lineno))
            return [Out("fall", s)]
        raise AnalysisError("%s:%d: statement %s is not modelled" % (fr.func.qual, n.lineno, type(n).__name__))

    def loop(self, n, st, fr, head, _unused) -> List[Out]:
        seen = set()
        work = [st.without_temps()]
        res = []
        guard = 0
        while work:
            s = work.pop()
            if s in seen:
                continue
            seen.add(s)
            guard += 1
            if guard > 2000:
                raise AnalysisError("%s:%d: loop fixpoint does not converge" % (fr.func.qual, n.lineno))
            for k, s2, o in head(s):
                if k == "raise":
                    res.append(o)
                elif k == "false":
                    res.extend(self.ex(n.orelse, s2, fr))
                else:
                    for b in self.ex(n.body, s2, fr):
                        if b.kind in ("fall", "continue"):
                            work.append(b.st.without_temps())
                        elif b.kind == "break":
                            res.append(Out("fall", b.st))
                        else:
                            res.append(b)
        return _dedupe(res)

    def try_(self, n: ast.Try, st, fr) -> List[Out]:
        if n.finalbody:
            raise AnalysisError("%s:%d: try/finally is not modelled" % (fr.func.qual, n.lineno))
        saved = fr.log
        fr.log = set([st])
        body = self.ex(n.body, st, fr)
        logged = fr.log
        fr.log = saved
        if saved is not None:
            saved |= logged

        def names_of(h):
            if h.type is None:
                return None
            ts = h.type.elts if isinstance(h.type, ast.Tuple) else [h.type]
            return [t.id if isinstance(t, ast.Name) else (t.attr if isinstance(t, ast.Attribute) else norm(t)) for t in ts]
        res = []
        for o in body:
            if o.kind == "fall":
                res.extend(self.ex(n.orelse, o.st, fr))
            elif o.kind == "raise":
                handled = False
                for h in n.handlers:
                    hn = names_of(h)
                    if hn is None or o.val in hn or any(x in CATCH_ALL for x in hn) or \
                            (o.val in ("KeyError", "IndexError") and "LookupError" in hn):
                        self.stats["handlers"] += 1
                        fr.handler_exc.append(o.val)
                        s = o.st.drop(h.name) if h.name else o.st
                        res.extend(self.ex(h.body, s, fr))
                        fr.handler_exc.pop()
                        handled = True
                        break
                if not handled:
                    res.append(o)
            else:
                res.append(o)
        # handlers for classes whose raise points are not modelled: reachable from any state the body went through
        for h in n.handlers:
            hn = names_of(h)
            modelled_only = hn is not None and all(x in TRACKED_EXC for x in hn)
            if modelled_only:
                continue
            label = "other" if hn is None or any(x in CATCH_ALL for x in hn) else hn[0]
            for s in sorted(logged, key=repr):
                fr.handler_exc.append(label)
                res.extend(self.ex(h.body, s.drop(h.name) if h.name else s, fr))
                fr.handler_exc.pop()
        return _dedupe(res)


def _as_load(t):
    import copy
    t2 = copy.deepcopy(t)
    for x in ast.walk(t2):
        if hasattr(x, "ctx"):
            x.ctx = ast.Load()
    return t2
