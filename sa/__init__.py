"""Static-analysis checkers for html5lib-python (see /verif/DESIGN.md).

Nothing in this package imports or executes html5lib: every rule works on the
source text under $VERIF_REPO/html5lib (default /repo/html5lib) through
``ast`` / ``re._parser``.
"""
