"""Fail-closed command line: ``python -m sa.check Cnn [--tier quick|thorough]``.

exit 0  all armed rules hold (possibly with KNOWN-FINDING lines)
exit 1  at least one violation not in known_findings.json (VIOLATION lines)
exit 2  the analysis itself could not be carried out (ANALYSIS-ERROR)
"""
from __future__ import annotations

import argparse
import importlib
import json
import os
import sys
import traceback

from .repo import AnalysisError, Repo
from .consteval import ConstEval
from .report import Report

PROPERTIES = ["C%02d" % i for i in range(1, 21)]


class Ctx:
    def __init__(self, repo: Repo, report: Report, tier: str):
        self.repo = repo
        self.ce = ConstEval(repo)
        self.r = report
        self.tier = tier
        self._cache = {}

    def shared(self, key, builder):
        if key not in self._cache:
            self._cache[key] = builder()
        return self._cache[key]

    def overlay(self, rel: str, source: str, report: Report) -> "Ctx":
        ov = dict(self.repo.overlay)
        ov[rel] = source
        return Ctx(Repo(self.repo.root, overlay=ov), report, self.tier)


def run_property(pid: str, tier: str, root=None, overlay=None, quiet=False, finish=True):
    mod = importlib.import_module("sa.rules.%s" % pid.lower())
    report = Report(pid, tier, quiet=quiet)
    repo = Repo(root, overlay=overlay)
    ctx = Ctx(repo, report, tier)
    report.extra["modules"] = repo.digests(getattr(mod, "MODULES", None))
    try:
        mod.run(ctx)
    except AnalysisError as e:
        # A rule that could not be evaluated gives no verdict for itself, but violations that other rules have already
        # decided stand: report them (exit 1) instead of hiding them behind the analysis error.
        if finish and report.new_findings():
            report.notes.append("analysis incomplete: %s" % e)
            report.extra["incomplete"] = str(e)
            return report.finish(partial=True)
        raise
    if tier == "thorough" and hasattr(mod, "thorough"):
        mod.thorough(ctx)
    if not finish:
        return report
    return report.finish()


def main(argv=None) -> int:
    ap = argparse.ArgumentParser(prog="sa.check")
    ap.add_argument("property")
    ap.add_argument("--tier", default=os.environ.get("VERIF_TIER", "quick"), choices=["quick", "thorough"])
    ap.add_argument("--replay", default=None, help="print a recorded violation and re-run its rule")
    ap.add_argument("--no-selftest", action="store_true")
    args = ap.parse_args(argv)
    pid = args.property.upper()
    if pid not in PROPERTIES:
        print("ANALYSIS-ERROR unknown property %s" % pid)
        return 2
    if args.replay:
        try:
            with open(args.replay) as f:
                print(json.dumps(json.load(f), indent=1))
        except OSError as e:
            print("ANALYSIS-ERROR cannot read replay file: %s" % e)
            return 2
    if args.no_selftest:
        os.environ["VERIF_NO_SELFTEST"] = "1"
    try:
        return run_property(pid, args.tier)
    except AnalysisError as e:
        print("ANALYSIS-ERROR property=%s %s" % (pid, e))
        return 2
    except Exception:
        print("ANALYSIS-ERROR property=%s internal error in the checker:" % pid)
        traceback.print_exc(file=sys.stdout)
        return 2


if __name__ == "__main__":
    sys.exit(main())
