"""Engine component F: statement-level control-flow graph and path queries.

Nodes are simple statements and *atomic* branch tests (``and`` / ``or`` / ``not`` are
compiled into short-circuit edges, so "dominated by the true outcome of test P" sees
every conjunct).  ``assert`` is an ordinary statement: it is never taken as a guarantee.
Queries are plain graph reachability and therefore give witness paths.
"""
from __future__ import annotations

import ast
from collections import deque
from typing import Callable, Dict, Iterable, List, Optional, Set, Tuple

from .repo import AnalysisError, norm


class Node:
    __slots__ = ("id", "kind", "ast", "succ", "pred", "lineno")

    def __init__(self, id_, kind, ast_node=None):
        self.id = id_
        self.kind = kind          # entry | exit | raise | stmt | test | loopiter | except
        self.ast = ast_node
        self.succ: List[Tuple["Node", Optional[bool]]] = []
        self.pred: List[Tuple["Node", Optional[bool]]] = []
        self.lineno = getattr(ast_node, "lineno", 0)

    def __repr__(self):
        return "<%s %d %s>" % (self.kind, self.id, norm(self.ast)[:50] if self.ast is not None else "")

    @property
    def text(self):
        return norm(self.ast) if self.ast is not None else self.kind


class CFG:
    def __init__(self, func_node: ast.AST):
        self.func = func_node
        self.nodes: List[Node] = []
        self.entry = self._new("entry")
        self.exit = self._new("exit")          # normal return / fall off the end
        self.raise_exit = self._new("raise")   # exceptional exit
        self._loops: List[Tuple[Node, Node]] = []   # (continue target, break target)
        self._handlers: List[List[Node]] = []
        self._finals: List[Node] = []
        ends = self._block(func_node.body, [(self.entry, None)])
        for n, lab in ends:
            self._edge(n, self.exit, lab)

    # ------------------------------------------------------------ building
    def _new(self, kind, a=None) -> Node:
        n = Node(len(self.nodes), kind, a)
        self.nodes.append(n)
        return n

    def _edge(self, a: Node, b: Node, label=None):
        a.succ.append((b, label))
        b.pred.append((a, label))

    def _join(self, frontier, node: Node):
        for n, lab in frontier:
            self._edge(n, node, lab)

    def _test(self, expr, frontier):
        """compile a boolean expression; returns (true_frontier, false_frontier)"""
        if isinstance(expr, ast.BoolOp):
            if isinstance(expr.op, ast.And):
                falses = []
                cur = frontier
                for v in expr.values:
                    t, f = self._test(v, cur)
                    falses += f
                    cur = t
                return cur, falses
            trues = []
            cur = frontier
            for v in expr.values:
                t, f = self._test(v, cur)
                trues += t
                cur = f
            return trues, cur
        if isinstance(expr, ast.UnaryOp) and isinstance(expr.op, ast.Not):
            t, f = self._test(expr.operand, frontier)
            return f, t
        n = self._new("test", expr)
        self._join(frontier, n)
        return [(n, True)], [(n, False)]

    def _block(self, stmts, frontier):
        for st in stmts:
            frontier = self._stmt(st, frontier)
        return frontier

    def _stmt(self, st, frontier):
        if isinstance(st, ast.If):
            t, f = self._test(st.test, frontier)
            a = self._block(st.body, t)
            b = self._block(st.orelse, f)
            return a + b
        if isinstance(st, ast.While):
            head = self._new("loophead", None)
            self._join(frontier, head)
            t, f = self._test(st.test, [(head, None)])
            brk = self._new("join", None)
            self._loops.append((head, brk))
            body_end = self._block(st.body, t)
            self._loops.pop()
            self._join(body_end, head)
            if isinstance(st.test, ast.Constant) and st.test.value is True:
                f = []            # `while True`: left only through break/return
            f = self._block(st.orelse, f)
            self._join(f, brk)
            return [(brk, None)]
        if isinstance(st, (ast.For, ast.AsyncFor)):
            it = self._new("stmt", ast.Expr(value=st.iter, lineno=st.lineno))
            self._join(frontier, it)
            head = self._new("loopiter", st)
            self._edge(it, head)
            brk = self._new("join", None)
            self._loops.append((head, brk))
            body_end = self._block(st.body, [(head, True)])
            self._loops.pop()
            self._join(body_end, head)
            f = self._block(st.orelse, [(head, False)])
            self._join(f, brk)
            return [(brk, None)]
        if isinstance(st, ast.Break):
            self._join(frontier, self._loops[-1][1])
            return []
        if isinstance(st, ast.Continue):
            self._join(frontier, self._loops[-1][0])
            return []
        if isinstance(st, ast.Return):
            n = self._new("stmt", st)
            self._join(frontier, n)
            tgt = self.exit
            self._edge(n, self._finals[-1] if self._finals else tgt)
            return []
        if isinstance(st, ast.Raise):
            n = self._new("stmt", st)
            self._join(frontier, n)
            if self._handlers:
                for h in self._handlers[-1]:
                    self._edge(n, h)
            else:
                self._edge(n, self.raise_exit)
            return []
        if isinstance(st, ast.Try):
            hnodes = [self._new("except", h) for h in st.handlers]
            self._handlers.append(hnodes)
            mark = len(self.nodes)
            body_end = self._block(st.body, frontier)
            self._handlers.pop()
            # any statement of the body may raise into any handler
            for n in self.nodes[mark:]:
                if n.kind in ("stmt", "test", "loopiter"):
                    for h in hnodes:
                        self._edge(n, h)
            for n, lab in frontier:
                pass
            ends = self._block(st.orelse, body_end)
            for h, hn in zip(st.handlers, hnodes):
                ends += self._block(h.body, [(hn, None)])
            if st.finalbody:
                ends = self._block(st.finalbody, ends)
            return ends
        if isinstance(st, (ast.With, ast.AsyncWith)):
            n = self._new("stmt", ast.Expr(value=ast.Tuple(elts=[i.context_expr for i in st.items], ctx=ast.Load()),
                                           lineno=st.lineno))
            self._join(frontier, n)
            return self._block(st.body, [(n, None)])
        if isinstance(st, (ast.FunctionDef, ast.AsyncFunctionDef, ast.ClassDef)):
            return frontier
        if isinstance(st, ast.Match):
            raise AnalysisError("match statement not supported by the CFG builder")
        n = self._new("stmt", st)
        self._join(frontier, n)
        return [(n, None)]

    # ------------------------------------------------------------ queries
    def locate(self, astnode) -> List[Node]:
        """CFG nodes (statement / atomic test) whose AST contains `astnode`"""
        if not hasattr(self, "_index"):
            self._index: Dict[int, List[Node]] = {}
            for n in self.nodes:
                if n.ast is None:
                    continue
                roots = [n.ast.target] if n.kind == "loopiter" else [n.ast]
                if n.kind == "except":
                    roots = [n.ast.type] if n.ast.type is not None else []
                for root in roots:
                    stack = [root]
                    while stack:
                        x = stack.pop()
                        self._index.setdefault(id(x), []).append(n)
                        if isinstance(x, (ast.FunctionDef, ast.Lambda, ast.ClassDef)) and x is not root:
                            continue
                        stack.extend(ast.iter_child_nodes(x))
        return self._index.get(id(astnode), [])

    def stmt_nodes(self) -> Iterable[Node]:
        return (n for n in self.nodes if n.kind in ("stmt", "test", "loopiter"))

    def reach_forward(self, starts: Iterable[Node], blocked: Callable[[Node], bool],
                      edge_ok: Optional[Callable[[Node, Node, Optional[bool]], bool]] = None) -> Dict[int, Optional[Node]]:
        """BFS from the successors of `starts`; nodes for which blocked() holds are not entered.
        Returns parent map (node id -> predecessor) for witness reconstruction."""
        parent: Dict[int, Optional[Node]] = {}
        dq = deque()
        for s in starts:
            for m, lab in s.succ:
                if edge_ok is not None and not edge_ok(s, m, lab):
                    continue
                if m.id not in parent and not blocked(m):
                    parent[m.id] = s
                    dq.append(m)
        while dq:
            n = dq.popleft()
            for m, lab in n.succ:
                if edge_ok is not None and not edge_ok(n, m, lab):
                    continue
                if m.id not in parent and not blocked(m):
                    parent[m.id] = n
                    dq.append(m)
        return parent

    def reach_backward(self, starts: Iterable[Node], blocked: Callable[[Node], bool],
                       edge_ok: Optional[Callable[[Node, Node, Optional[bool]], bool]] = None) -> Dict[int, Optional[Node]]:
        parent: Dict[int, Optional[Node]] = {}
        dq = deque()
        for s in starts:
            for m, lab in s.pred:
                if edge_ok is not None and not edge_ok(m, s, lab):
                    continue
                if m.id not in parent and not blocked(m):
                    parent[m.id] = s
                    dq.append(m)
        while dq:
            n = dq.popleft()
            for m, lab in n.pred:
                if edge_ok is not None and not edge_ok(m, n, lab):
                    continue
                if m.id not in parent and not blocked(m):
                    parent[m.id] = n
                    dq.append(m)
        return parent

    def witness(self, parent: Dict[int, Optional[Node]], end: Node, limit=12) -> List[str]:
        path, cur, seen = [], end, set()
        while cur is not None and cur.id not in seen and len(path) < 200:
            seen.add(cur.id)
            if cur.ast is not None or cur.kind in ("entry", "exit", "raise"):
                path.append("%s@%d" % (cur.text[:60], cur.lineno) if cur.ast is not None else cur.kind)
            cur = parent.get(cur.id)
        return path[:limit]

    # A must be followed by B on every path to a normal exit
    def must_follow(self, a_nodes: List[Node], is_b: Callable[[Node], bool], include_raise=False):
        """-> list of (a_node, witness path) for A nodes from which the exit is reachable without B."""
        bad = []
        for a in a_nodes:
            par = self.reach_forward([a], is_b)
            targets = [self.exit] + ([self.raise_exit] if include_raise else [])
            for t in targets:
                if t.id in par:
                    bad.append((a, list(reversed(self.witness(par, t)))))
                    break
        return bad

    # A must be preceded by B on every path from entry
    def must_precede(self, a_nodes: List[Node], is_b: Callable[[Node], bool]):
        bad = []
        for a in a_nodes:
            par = self.reach_backward([a], is_b)
            if self.entry.id in par:
                bad.append((a, self.witness(par, self.entry)))
        return bad

    def dominated_by_outcome(self, a: Node, is_test: Callable[[Node], bool], outcome: bool) -> bool:
        """every path entry -> a passes an edge (t, outcome) with is_test(t)"""
        def edge_ok(src, dst, lab):
            return not (src.kind == "test" and lab is outcome and is_test(src))
        par = self.reach_backward([a], lambda n: False, edge_ok)
        return self.entry.id not in par

    def dominated_by(self, a: Node, pred: Callable[[Node, Optional[bool]], bool]) -> bool:
        """every path entry -> a passes an edge (n, label) with pred(n, label)"""
        def edge_ok(src, dst, lab):
            return not pred(src, lab)
        par = self.reach_backward([a], lambda n: False, edge_ok)
        return self.entry.id not in par

    def find(self, pred: Callable[[Node], bool]) -> List[Node]:
        return [n for n in self.stmt_nodes() if pred(n)]


def node_calls(n: Node) -> List[ast.Call]:
    if n.ast is None or n.kind == "loopiter":
        return []
    out = []
    stack = [n.ast]
    while stack:
        x = stack.pop()
        if isinstance(x, (ast.FunctionDef, ast.Lambda, ast.ClassDef)):
            continue
        if isinstance(x, ast.Call):
            out.append(x)
        stack.extend(ast.iter_child_nodes(x))
    return out


def node_stores(n: Node) -> List[Tuple[ast.AST, Optional[ast.AST]]]:
    """(target, value) for assignment targets in this node (incl. for-loop targets: value None)"""
    a = n.ast
    out = []
    if n.kind == "loopiter":
        out.append((a.target, None))
    elif isinstance(a, ast.Assign):
        for t in a.targets:
            out.append((t, a.value))
    elif isinstance(a, ast.AugAssign):
        out.append((a.target, a.value))
    elif isinstance(a, ast.AnnAssign) and a.value is not None:
        out.append((a.target, a.value))
    return out
