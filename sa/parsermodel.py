"""Engine components C and D: access-path typing and the resolved call graph of the
tree-construction stage, with dispatcher resolution and token-name propagation.

Types (receivers) are a small closed vocabulary; each is established by an assignment
that is *verified on every run* (a missing establishing assignment is exit 2):

  parser     HTMLParser          Phase.__init__: self.parser = parser; HTMLParser.__init__: cls(self, self.tree)
  tree       TreeBuilder(+etree/dom subclasses)   HTMLParser.__init__: self.tree = tree(...)
  tokenizer  HTMLTokenizer       HTMLParser._parse: self.tokenizer = _tokenizer.HTMLTokenizer(...)
  stream     HTMLUnicode/BinaryInputStream        HTMLTokenizer.__init__: self.stream = HTMLInputStream(...)
  phase:K    _phases[K]          HTMLParser.__init__: self.phases = {name: cls(...) for name, cls in _phases.items()}
  anyphase   any phase           parser.phase / parser.originalPhase / phase.originalPhase
  node       tree-builder node wrappers (etree Element family, dom NodeBuilder, base.Node)
"""
from __future__ import annotations

import ast
from typing import Dict, FrozenSet, Iterable, List, Optional, Set, Tuple

from .consteval import ConstEval, NotConstant
from .repo import AnalysisError, ClassInfo, FuncInfo, Repo, attr_chain, norm, walk_no_nested
from .partition import FRESH

ANY = "<any-name>"       # token name not known statically
NONAME = None            # call carries no tag token

PARSER_REL = "html5parser.py"


class Table:
    def __init__(self, cls: ClassInfo, attr: str):
        self.cls, self.attr = cls, attr
        self.map: Dict[str, FuncInfo] = {}
        self.default: Optional[FuncInfo] = None
        self.entries: List[Tuple[Tuple[str, ...], FuncInfo, int]] = []
        self.duplicates: List[str] = []
        self.where = ""


class ParserModel:
    def __init__(self, repo: Repo, ce: ConstEval):
        self.repo, self.ce = repo, ce
        self.mod = repo.module(PARSER_REL)
        self.HTMLParser = repo.cls(PARSER_REL, "HTMLParser")
        self.Phase = repo.cls(PARSER_REL, "Phase")
        self.TreeBuilder = repo.cls("treebuilders/base.py", "TreeBuilder")
        self.BaseNode = repo.cls("treebuilders/base.py", "Node")
        self.Tokenizer = repo.cls("_tokenizer.py", "HTMLTokenizer")
        self.streams = [repo.cls("_inputstream.py", "HTMLUnicodeInputStream"),
                        repo.cls("_inputstream.py", "HTMLBinaryInputStream")]
        self.tree_classes = [self.TreeBuilder] + [
            c for rel in ("treebuilders/etree.py", "treebuilders/dom.py")
            for c in repo.module(rel).all_classes if c is not self.TreeBuilder and c.is_subclass_of(self.TreeBuilder)]
        self.node_classes = [c for rel in ("treebuilders/base.py", "treebuilders/etree.py", "treebuilders/dom.py")
                             for c in repo.module(rel).all_classes if c.is_subclass_of(self.BaseNode)]
        self._phases()
        self._tables()
        self._verify_typing()
        self.aliases = self._method_aliases()
        self._assignable()
        self.stats = {"resolved": 0, "external": 0, "unresolved": 0}
        self.unresolved: List[str] = []

    # ------------------------------------------------------------ phases
    def _phases(self):
        node = None
        for st in self.mod.tree.body:
            if isinstance(st, ast.Assign) and any(isinstance(t, ast.Name) and t.id == "_phases" for t in st.targets):
                node = st
        if node is None or not isinstance(node.value, ast.Dict):
            raise AnalysisError("html5parser._phases is not a dict literal")
        self.phases: Dict[str, ClassInfo] = {}
        for k, v in zip(node.value.keys, node.value.values):
            if not (isinstance(k, ast.Constant) and isinstance(k.value, str) and isinstance(v, ast.Name)):
                raise AnalysisError("html5parser._phases has a non-literal entry")
            c = self.mod.classes.get(v.id)
            if c is None or not c.is_subclass_of(self.Phase):
                raise AnalysisError("_phases[%r] = %s is not a Phase subclass" % (k.value, v.id))
            self.phases[k.value] = c
        self.phases_where = "%s:%d" % (PARSER_REL, node.lineno)
        self.phase_key = {id(c): k for k, c in self.phases.items()}

    def key_of(self, cls: ClassInfo) -> str:
        return self.phase_key.get(id(cls), cls.name)

    def _resolve_func_expr(self, cls: ClassInfo, expr) -> Optional[FuncInfo]:
        if isinstance(expr, ast.Name):
            return cls.methods.get(expr.id) or cls.find_method(expr.id)
        if isinstance(expr, ast.Attribute) and isinstance(expr.value, ast.Name):
            c = self.mod.classes.get(expr.value.id)
            if c is not None:
                return c.find_method(expr.attr)
        return None

    def _tables(self):
        self.tables: Dict[Tuple[int, str], Table] = {}
        self.table_problems: List[Tuple[str, str, str]] = []
        for c in self.mod.all_classes:
            if not c.is_subclass_of(self.Phase):
                continue
            for st in c.node.body:
                if isinstance(st, ast.Assign) and len(st.targets) == 1:
                    t = st.targets[0]
                    if isinstance(t, ast.Name) and t.id in ("startTagHandler", "endTagHandler"):
                        tab = Table(c, t.id)
                        tab.where = "%s:%d" % (PARSER_REL, st.lineno)
                        v = st.value
                        if not (isinstance(v, ast.Call) and norm(v.func).endswith("MethodDispatcher") and
                                len(v.args) <= 1):
                            raise AnalysisError("%s.%s is not a MethodDispatcher([...]) literal" % (c.name, t.id))
                        items = v.args[0] if v.args else ast.List(elts=[])
                        if not isinstance(items, (ast.List, ast.Tuple)):
                            raise AnalysisError("%s.%s: dispatcher items are not a literal list" % (c.name, t.id))
                        for it in items.elts:
                            if not (isinstance(it, ast.Tuple) and len(it.elts) == 2):
                                raise AnalysisError("%s.%s: entry %s is not a (keys, handler) pair" % (c.name, t.id, norm(it)))
                            try:
                                keys = self.ce.eval(it.elts[0], self.mod)
                            except NotConstant as e:
                                raise AnalysisError("%s.%s: keys %s not constant (%s)" % (c.name, t.id, norm(it.elts[0]), e))
                            if isinstance(keys, str):
                                keys = (keys,)
                            keys = tuple(keys)
                            f = self._resolve_func_expr(c, it.elts[1])
                            if f is None:
                                self.table_problems.append((tab.where, "%s.%s" % (c.name, t.id),
                                                            "handler %s is not a method" % norm(it.elts[1])))
                                continue
                            tab.entries.append((keys, f, it.lineno))
                            for k in keys:
                                if k in tab.map:
                                    tab.duplicates.append(k)
                                tab.map[k] = f
                        self.tables[(id(c), t.id)] = tab
                    elif isinstance(t, ast.Attribute) and isinstance(t.value, ast.Name) and t.attr == "default" \
                            and t.value.id in ("startTagHandler", "endTagHandler"):
                        tab = self.tables.get((id(c), t.value.id))
                        if tab is None:
                            raise AnalysisError("%s.%s.default set before the table" % (c.name, t.value.id))
                        f = self._resolve_func_expr(c, st.value)
                        if f is None:
                            self.table_problems.append(("%s:%d" % (PARSER_REL, st.lineno), "%s.%s" % (c.name, t.value.id),
                                                        "default %s is not a method" % norm(st.value)))
                        tab.default = f
        names: Set[str] = set()
        for tab in self.tables.values():
            names |= set(tab.map)
        self.table_names = names
        self.domain: List[str] = sorted(names) + [FRESH]

    def table_for(self, cls: ClassInfo, attr: str) -> Optional[Table]:
        for c in cls.mro():
            t = self.tables.get((id(c), attr))
            if t is not None:
                return t
        return None

    def handler(self, cls: ClassInfo, kind: str, name: str) -> Tuple[Optional[FuncInfo], str]:
        """Handler a tag token named `name` gets in phase `cls`.  kind: StartTag|EndTag.
        -> (function, how) ; function None = no handler exists."""
        meth = "processStartTag" if kind == "StartTag" else "processEndTag"
        attr = "startTagHandler" if kind == "StartTag" else "endTagHandler"
        pm = cls.find_method(meth)
        if pm is None:
            return None, "no %s" % meth
        if pm.cls is not self.Phase:
            return pm, "override"
        tab = self.table_for(cls, attr)
        if tab is None:
            return None, "generic %s but no %s table" % (meth, attr)
        if name in tab.map:
            return tab.map[name], "table"
        if tab.default is None:
            return None, "no default"
        return tab.default, "default"

    # ------------------------------------------------------------ typing table verification
    def _verify_typing(self):
        def has_store(func: FuncInfo, target_text: str, value_pred) -> bool:
            for n in ast.walk(func.node):
                if isinstance(n, ast.Assign):
                    for t in n.targets:
                        if norm(t) == target_text and value_pred(n.value):
                            return True
            return False
        pinit = self.repo.func(PARSER_REL, "Phase.__init__")
        if not (has_store(pinit, "self.parser", lambda v: isinstance(v, ast.Name) and v.id == pinit.params()[1]) and
                has_store(pinit, "self.tree", lambda v: isinstance(v, ast.Name) and v.id == pinit.params()[2])):
            raise AnalysisError("typing: Phase.__init__ no longer stores parser/tree")
        hinit = self.repo.func(PARSER_REL, "HTMLParser.__init__")
        ok = has_store(hinit, "self.phases", lambda v: isinstance(v, ast.DictComp) and "cls(self, self.tree)" in norm(v)
                       and "_phases.items()" in norm(v))
        ok = ok and has_store(hinit, "self.tree", lambda v: isinstance(v, ast.Call))
        if not ok:
            raise AnalysisError("typing: HTMLParser.__init__ no longer builds phases {name: cls(self, self.tree)} / tree")
        hp = self.repo.func(PARSER_REL, "HTMLParser._parse")
        if not has_store(hp, "self.tokenizer", lambda v: isinstance(v, ast.Call) and norm(v.func).endswith("HTMLTokenizer")):
            raise AnalysisError("typing: HTMLParser._parse no longer creates the tokenizer")
        ti = self.repo.func("_tokenizer.py", "HTMLTokenizer.__init__")
        if not (has_store(ti, "self.stream", lambda v: isinstance(v, ast.Call) and norm(v.func) == "HTMLInputStream") and
                has_store(ti, "self.parser", lambda v: isinstance(v, ast.Name))):
            raise AnalysisError("typing: HTMLTokenizer.__init__ no longer stores stream/parser")

    def _method_aliases(self) -> Dict[Tuple[int, str], Set[str]]:
        """instance attributes that hold bound methods: `self.X = self.Y`"""
        out: Dict[Tuple[int, str], Set[str]] = {}
        for c in self.mod.all_classes + self.TreeBuilder.module.all_classes:
            for m in c.methods.values():
                for n in ast.walk(m.node):
                    if isinstance(n, ast.Assign) and len(n.targets) == 1:
                        t, v = n.targets[0], n.value
                        if isinstance(t, ast.Attribute) and isinstance(t.value, ast.Name) and t.value.id == "self" \
                                and isinstance(v, ast.Attribute) and isinstance(v.value, ast.Name) and v.value.id == "self" \
                                and c.find_method(v.attr) is not None:
                            out.setdefault((id(c), t.attr), set()).add(v.attr)
        return out

    # ------------------------------------------------------------ phases that can become parser.phase
    def _assignable(self):
        """Keys of the phases that some statement can store into `parser.phase`."""
        keys: Set[str] = set()
        self.phase_stores: List[Tuple[FuncInfo, ast.Assign, str]] = []
        others = []
        for f in self.mod.all_functions:
            st_ty = self.self_type(f) if f.cls is not None else None
            for n in walk_no_nested(f.node):
                if not isinstance(n, ast.Assign):
                    continue
                for t in n.targets:
                    ch = attr_chain(t)
                    if not ch or ch[-1] != "phase" or ch[:-1] not in (["self"], ["self", "parser"]):
                        continue
                    if ch[:-1] == ["self"] and st_ty != ("parser",):
                        continue
                    v = n.value
                    vch = attr_chain(v)
                    if vch and vch[-1].startswith("phases[") and vch[:-1] in (["self"], ["self", "parser"]):
                        k = vch[-1][len('phases["'):-2]
                        keys.add(k)
                        self.phase_stores.append((f, n, k))
                    elif vch and vch[-1] == "originalPhase":
                        self.phase_stores.append((f, n, "<originalPhase>"))
                    elif isinstance(v, ast.Name) and f.name == "resetInsertionMode" and self._is_phase_local(f, v.id):
                        NP = v.id         # the local that collects the new phase (whatever it is called)
                        env = self.ce.local_env(f.node, f.module)
                        nm = None
                        # the mapping used in `new_phase = self.phases[<mapping>[...]]` (a local or module-level constant)
                        for a in ast.walk(f.node):
                            if isinstance(a, ast.Assign) and any(isinstance(x, ast.Name) and x.id == NP for x in a.targets) \
                                    and isinstance(a.value, ast.Subscript) and isinstance(a.value.slice, ast.Subscript) \
                                    and isinstance(a.value.slice.value, ast.Name):
                                try:
                                    nm = self.ce.lookup(a.value.slice.value.id, f.module, env)
                                except NotConstant:
                                    nm = None
                        if not isinstance(nm, dict):
                            raise AnalysisError("resetInsertionMode: the mode mapping is not a constant dict")
                        self.new_modes = nm
                        keys |= set(nm.values())
                        for a in ast.walk(f.node):
                            if isinstance(a, ast.Assign) and any(isinstance(x, ast.Name) and x.id == NP for x in a.targets):
                                c = attr_chain(a.value)
                                if c and c[-1].startswith("phases["):
                                    keys.add(c[-1][len('phases["'):-2])
                        self.phase_stores.append((f, n, "<newModes>"))
                    else:
                        others.append("%s:%d %s" % (f.module.rel, n.lineno, norm(n)))
        if others:
            raise AnalysisError("unrecognised store to parser.phase: %s" % others[:3])
        self.assignable_keys = keys

    @staticmethod
    def _is_phase_local(f: FuncInfo, name: str) -> bool:
        """every store to the local `name` is None or an element of self.phases"""
        vals = [a.value for a in ast.walk(f.node) if isinstance(a, ast.Assign) and any(isinstance(x, ast.Name) and x.id == name for x in a.targets)]
        return bool(vals) and all((isinstance(v, ast.Constant) and v.value is None) or
                                  (isinstance(v, ast.Subscript) and norm(v.value) == "self.phases") for v in vals)

    # ------------------------------------------------------------ receiver types
    def self_type(self, func: FuncInfo):
        c = func.cls
        if c is None:
            return None
        if c.is_subclass_of(self.Phase):
            return ("phasecls", c)
        if c is self.HTMLParser:
            return ("parser",)
        if any(c is t or c.is_subclass_of(self.TreeBuilder) for t in [self.TreeBuilder]):
            return ("tree",)
        if c is self.Tokenizer:
            return ("tokenizer",)
        if any(c is s for s in self.streams):
            return ("stream",)
        if c.is_subclass_of(self.BaseNode):
            return ("node",)
        return ("cls", c)

    def _step(self, ty, attr: str):
        """type of `<ty>.<attr>` (attr may carry a ["key"] suffix)"""
        key = None
        if "[" in attr:
            attr, key = attr.split("[", 1)
            key = key.strip('"]')
        k = ty[0]
        if k == "phasecls" or k == "phase" or k == "anyphase":
            if attr == "parser":
                return ("parser",)
            if attr == "tree":
                return ("tree",)
            if attr == "originalPhase":
                return ("anyphase",)
            return None
        if k == "parser":
            if attr == "tree":
                return ("tree",)
            if attr == "tokenizer":
                return ("tokenizer",)
            if attr == "phases":
                if key is not None:
                    if key not in self.phases:
                        return ("badphase", key)
                    return ("phasecls", self.phases[key])
                return ("phasesdict",)
            if attr in ("phase", "originalPhase", "lastPhase", "beforeRCDataPhase"):
                return ("anyphase",)
            return None
        if k == "tokenizer":
            if attr == "stream":
                return ("stream",)
            if attr == "parser":
                return ("parser",)
            return None
        if k == "tree":
            if attr in ("openElements", "activeFormattingElements"):
                return ("nodelist",) if key is None else None
            if attr in ("document", "headPointer", "formPointer"):
                return ("node",)
            return None
        if k == "node":
            if attr == "parent":
                return ("node",)
            return None
        return None

    def expr_type(self, func: FuncInfo, expr, locals_types=None):
        """type of an expression used as a receiver"""
        if isinstance(expr, ast.Name):
            if expr.id == "self":
                return self.self_type(func)
            if locals_types and expr.id in locals_types:
                return locals_types[expr.id]
            return None
        if isinstance(expr, ast.Subscript):
            base = self.expr_type(func, expr.value, locals_types)
            if base == ("nodelist",):
                return ("node",) if not isinstance(expr.slice, ast.Slice) else ("nodelist",)
            if base == ("phasesdict",):
                if isinstance(expr.slice, ast.Constant) and isinstance(expr.slice.value, str):
                    if expr.slice.value in self.phases:
                        return ("phasecls", self.phases[expr.slice.value])
                    return ("badphase", expr.slice.value)
                return ("anyphase",)
            return None
        if isinstance(expr, ast.Attribute):
            base = self.expr_type(func, expr.value, locals_types)
            if base is None:
                return None
            return self._step(base, expr.attr)
        if isinstance(expr, ast.Call):
            # node-returning tree methods
            if isinstance(expr.func, ast.Attribute):
                bt = self.expr_type(func, expr.func.value, locals_types)
                if bt == ("tree",) and expr.func.attr in ("insertElement", "createElement", "elementInActiveFormattingElements",
                                                           "insertElementNormal", "insertElementTable"):
                    return ("node",)
                if bt == ("nodelist",) and expr.func.attr == "pop":
                    return ("node",)
                if bt == ("node",) and expr.func.attr == "cloneNode":
                    return ("node",)
            return None
        return None

    def local_types(self, func: FuncInfo):
        """types of local names (union collapses to anyphase for phases; conflicting -> dropped)"""
        out: Dict[str, tuple] = {}
        conflict = set()
        for _ in range(2):
            for n in walk_no_nested(func.node):
                pairs = []
                if isinstance(n, ast.Assign):
                    for t in n.targets:
                        if isinstance(t, ast.Name):
                            pairs.append((t.id, self.expr_type(func, n.value, out)))
                        elif isinstance(t, ast.Tuple) and isinstance(n.value, ast.Call) and \
                                norm(n.value.func).endswith("getTableMisnestedNodePosition"):
                            for e in t.elts:
                                if isinstance(e, ast.Name):
                                    pairs.append((e.id, ("node",)))
                elif isinstance(n, ast.For) and isinstance(n.target, ast.Name):
                    it = self.expr_type(func, n.iter, out)
                    if it is None and isinstance(n.iter, ast.Call) and norm(n.iter.func) == "reversed" and n.iter.args:
                        it = self.expr_type(func, n.iter.args[0], out)
                    pairs.append((n.target.id, ("node",) if it == ("nodelist",) else None))
                for name, ty in pairs:
                    if ty is None:
                        continue
                    if name in out and out[name] != ty:
                        if out[name][0] in ("phasecls", "anyphase") and ty[0] in ("phasecls", "anyphase"):
                            out[name] = ("anyphase",)
                        else:
                            conflict.add(name)
                    else:
                        out[name] = ty
        for c in conflict:
            out.pop(c, None)
        return out

    # ------------------------------------------------------------ token names
    def token_name_of_arg(self, func: FuncInfo, arg, ctxname):
        """name carried by a token-valued argument expression"""
        params = func.params()
        if isinstance(arg, ast.Name):
            if arg.id in params[1:2] or arg.id == "token":
                return ctxname
            if arg.id in ("new_token",):
                return ANY
            return ANY
        if isinstance(arg, ast.Call) and isinstance(arg.func, ast.Name) and arg.func.id == "impliedTagToken":
            if arg.args and isinstance(arg.args[0], ast.Constant) and isinstance(arg.args[0].value, str):
                return arg.args[0].value
            return ANY
        if isinstance(arg, ast.Dict):
            return NONAME
        return ANY

    # ------------------------------------------------------------ call resolution
    def phase_targets(self, ty) -> List[ClassInfo]:
        if ty[0] == "phasecls":
            return [ty[1]]
        if ty[0] == "anyphase":
            return [c for k, c in self.phases.items() if k in self.assignable_keys]
        return []

    def phase_refinements(self, func: FuncInfo) -> Dict[int, tuple]:
        """id(call) -> phase type of the receiver `self.parser.phase` / `self.phase` when the
        nearest preceding statement of the same block that can change it is a store of a
        literal phases["k"] (straight-line, no intervening call)."""
        out: Dict[int, tuple] = {}

        def is_phase_chain(e):
            ch = attr_chain(e)
            return bool(ch) and ch[-1] == "phase" and ch[:-1] in (["self"], ["self", "parser"])

        def block(stmts):
            cur = None
            for st in stmts:
                # calls inside this statement see the current value
                if cur is not None:
                    for c in (x for x in ast.walk(st) if isinstance(x, ast.Call)):
                        if isinstance(c.func, ast.Attribute) and is_phase_chain(c.func.value):
                            out[id(c)] = cur
                if isinstance(st, ast.Assign) and any(is_phase_chain(t) for t in st.targets):
                    vch = attr_chain(st.value)
                    if vch and vch[-1].startswith("phases["):
                        k = vch[-1][len('phases["'):-2]
                        cur = ("phasecls", self.phases[k]) if k in self.phases else None
                    else:
                        cur = None
                    continue
                has_call = any(isinstance(x, ast.Call) for x in ast.walk(st))
                is_compound = isinstance(st, (ast.If, ast.For, ast.While, ast.Try, ast.With))
                # a helper of the same class whose straight-line body ends with the phase set to a literal phases["k"]
                if isinstance(st, ast.Expr) and isinstance(st.value, ast.Call) and isinstance(st.value.func, ast.Attribute) and \
                        norm(st.value.func.value) == "self" and func.cls is not None and depth[0] < 2:
                    h = func.cls.find_method(st.value.func.attr)
                    if h is not None and not any(isinstance(x, (ast.If, ast.For, ast.While, ast.Try, ast.With, ast.Return)) for x in h.node.body):
                        depth[0] += 1
                        try:
                            end = block(h.node.body)
                        finally:
                            depth[0] -= 1
                        if end is not None:
                            cur = end
                            continue
                if is_compound:
                    for sub in (getattr(st, "body", []), getattr(st, "orelse", []), getattr(st, "finalbody", [])):
                        block(sub)
                    for h in getattr(st, "handlers", []):
                        block(h.body)
                    cur = None
                elif has_call:
                    # a store through the phase (`self.parser.phase.originalPhase = x`) keeps it
                    cur = None
            return cur
        depth = [0]
        block(func.node.body)
        return out

    def resolve_call(self, func: FuncInfo, call: ast.Call, ctxname, ltypes=None, refine=None):
        """-> list of (callee FuncInfo, ctxname') ; [] for external / builtin calls.
        Unresolved calls on typed repository receivers are recorded in self.unresolved."""
        f = call.func
        out: List[Tuple[FuncInfo, object]] = []
        if isinstance(f, ast.Name):
            tgt = func.module.functions.get(f.id)
            if tgt is not None:
                self.stats["resolved"] += 1
                return [(tgt, NONAME)]
            c = func.module.classes.get(f.id)
            if c is not None:
                init = c.find_method("__init__")
                self.stats["resolved"] += 1
                return [(init, NONAME)] if init else []
            self.stats["external"] += 1
            return []
        if not isinstance(f, ast.Attribute):
            self.stats["external"] += 1
            return []
        meth = f.attr
        # explicit base-class call: Phase.processCharacters(self, token) / base.TreeBuilder.x(self, ..)
        if isinstance(f.value, ast.Name) and f.value.id in func.module.classes and f.value.id != "self":
            c = func.module.classes[f.value.id]
            m = c.find_method(meth)
            if m is not None:
                nm = self.token_name_of_arg(func, call.args[1], ctxname) if len(call.args) > 1 else NONAME
                self.stats["resolved"] += 1
                return [(m, nm)]
        if isinstance(f.value, ast.Call) and isinstance(f.value.func, ast.Name) and f.value.func.id == "super":
            if func.cls is not None:
                for c in func.cls.mro()[1:]:
                    if meth in c.methods:
                        self.stats["resolved"] += 1
                        return [(c.methods[meth], ctxname)]
            self.stats["external"] += 1
            return []
        ty = self.expr_type(func, f.value, ltypes)
        if refine and id(call) in refine:
            ty = refine[id(call)]
        if ty is None:
            self.stats["external"] += 1
            return []
        arg0 = call.args[0] if call.args else None
        nm = self.token_name_of_arg(func, arg0, ctxname) if arg0 is not None else NONAME
        k = ty[0]
        if k == "badphase":
            self.unresolved.append("%s:%d unknown phase key %r" % (func.module.rel, call.lineno, ty[1]))
            self.stats["unresolved"] += 1
            return []
        if k in ("phasecls", "anyphase"):
            for c in self.phase_targets(ty):
                if meth in ("processStartTag", "processEndTag"):
                    kind = "StartTag" if meth == "processStartTag" else "EndTag"
                    if nm in (ANY, NONAME):
                        names = self.domain
                    elif nm in self.table_names:
                        names = [nm]
                    else:
                        names = [FRESH]
                    for n in names:
                        h, how = self.handler(c, kind, n)
                        if h is None:
                            if k == "phasecls":
                                self.unresolved.append("%s:%d no %s handler in %s (%s)" % (
                                    func.module.rel, call.lineno, kind, c.name, how))
                            continue
                        cn = (nm if nm not in (ANY, NONAME) else n)
                        out.append((h, cn))
                else:
                    targets = []
                    als = None
                    for cc in c.mro():
                        if (id(cc), meth) in self.aliases:
                            als = self.aliases[(id(cc), meth)]
                            break
                    if als:
                        targets = [c.find_method(a) for a in sorted(als)]
                    else:
                        m = c.find_method(meth)
                        targets = [m] if m is not None else []
                    if not targets and k == "phasecls":
                        self.unresolved.append("%s:%d %s has no method %s" % (func.module.rel, call.lineno, c.name, meth))
                        self.stats["unresolved"] += 1
                    for m in targets:
                        out.append((m, nm if arg0 is not None else NONAME))
            if out:
                self.stats["resolved"] += 1
            # de-duplicate
            seen, ded = set(), []
            for m, n in out:
                if (m.fq, n) not in seen:
                    seen.add((m.fq, n))
                    ded.append((m, n))
            return ded
        if k == "parser":
            m = self.HTMLParser.find_method(meth)
            if m is None:
                self.unresolved.append("%s:%d HTMLParser has no method %s" % (func.module.rel, call.lineno, meth))
                self.stats["unresolved"] += 1
                return []
            self.stats["resolved"] += 1
            return [(m, nm if arg0 is not None else NONAME)]
        if k == "tree":
            if meth == "insertElement":
                ms = [self.TreeBuilder.find_method("insertElementNormal"), self.TreeBuilder.find_method("insertElementTable")]
                if None in ms:
                    raise AnalysisError("TreeBuilder.insertElementNormal/Table vanished")
                self.stats["resolved"] += 1
                return [(m, nm) for m in ms]
            ms = []
            for c in self.tree_classes:
                if meth in c.methods:
                    ms.append(c.methods[meth])
                elif meth in c.assigns and isinstance(c.assigns[meth], ast.Name):
                    # factory attributes: documentClass = Document
                    k = c.module.find_class(c.assigns[meth].id)
                    if k is not None:
                        init = k.find_method("__init__")
                        if init is not None:
                            ms.append(init)
            if not ms:
                self.unresolved.append("%s:%d TreeBuilder has no method %s" % (func.module.rel, call.lineno, meth))
                self.stats["unresolved"] += 1
                return []
            self.stats["resolved"] += 1
            return [(m, nm if arg0 is not None else NONAME) for m in ms]
        if k == "tokenizer":
            m = self.Tokenizer.find_method(meth)
            if m is None:
                self.unresolved.append("%s:%d HTMLTokenizer has no method %s" % (func.module.rel, call.lineno, meth))
                self.stats["unresolved"] += 1
                return []
            self.stats["resolved"] += 1
            return [(m, NONAME)]
        if k == "stream":
            ms = [c.methods[meth] for c in self.streams if meth in c.methods]
            if not ms:
                self.unresolved.append("%s:%d input stream has no method %s" % (func.module.rel, call.lineno, meth))
                self.stats["unresolved"] += 1
                return []
            self.stats["resolved"] += 1
            return [(m, NONAME) for m in ms]
        if k == "node":
            ms = [c.methods[meth] for c in self.node_classes if meth in c.methods]
            self.stats["resolved" if ms else "external"] += 1
            return [(m, NONAME) for m in ms]
        if k == "cls":
            m = ty[1].find_method(meth)
            if m is not None:
                self.stats["resolved"] += 1
                return [(m, NONAME)]
        self.stats["external"] += 1
        return []

    # ------------------------------------------------------------ graph
    def entries(self) -> List[Tuple[FuncInfo, object, str]]:
        """(function, token name, description) for every (phase, token kind[, name])"""
        out = []
        for key, c in self.phases.items():
            for kind in ("StartTag", "EndTag"):
                for n in self.domain:
                    h, how = self.handler(c, kind, n)
                    if h is not None:
                        out.append((h, n, "%s/%s/%s" % (key, kind, n)))
            for meth in ("processCharacters", "processSpaceCharacters", "processComment", "processDoctype", "processEOF"):
                targets = []
                als = None
                for cc in c.mro():
                    if (id(cc), meth) in self.aliases:
                        als = self.aliases[(id(cc), meth)]
                        break
                if als:
                    targets = [c.find_method(a) for a in sorted(als)]
                else:
                    m = c.find_method(meth)
                    targets = [m] if m else []
                for m in targets:
                    out.append((m, NONAME, "%s/%s" % (key, meth)))
        return out

    def build_graph(self, roots: Iterable[Tuple[FuncInfo, object]], stop=lambda f: False):
        """context-sensitive (function, token-name) reachability.
        -> (nodes dict key->(func, name), edges dict key->set(keys), callsites dict (key)->[(call, [callee keys])])"""
        nodes: Dict[Tuple[str, object], Tuple[FuncInfo, object]] = {}
        edges: Dict[Tuple[str, object], Set[Tuple[str, object]]] = {}
        sites: Dict[Tuple[str, object], List[Tuple[ast.Call, List[Tuple[str, object]]]]] = {}
        work = []
        for f, n in roots:
            k = (f.fq, n)
            if k not in nodes:
                nodes[k] = (f, n)
                work.append(k)
        ltcache: Dict[str, dict] = {}
        while work:
            k = work.pop()
            f, n = nodes[k]
            edges.setdefault(k, set())
            sites.setdefault(k, [])
            if stop(f):
                continue
            if f.fq not in ltcache:
                ltcache[f.fq] = (self.local_types(f), self.phase_refinements(f))
            for call in (c for c in walk_no_nested(f.node) if isinstance(c, ast.Call)):
                callees = self.resolve_call(f, call, n, ltcache[f.fq][0], ltcache[f.fq][1])
                ks = []
                for g, gn in callees:
                    if g is None:
                        continue
                    gk = (g.fq, gn)
                    ks.append(gk)
                    edges[k].add(gk)
                    if gk not in nodes:
                        nodes[gk] = (g, gn)
                        work.append(gk)
                sites[k].append((call, ks))
        return nodes, edges, sites


def sccs(edges: Dict[object, Set[object]]) -> List[List[object]]:
    """Tarjan, iterative; returns SCCs with more than one node or a self loop."""
    index, low, onstack, stack, out = {}, {}, set(), [], []
    counter = [0]
    for root in list(edges):
        if root in index:
            continue
        work = [(root, iter(sorted(edges.get(root, ()), key=repr)))]
        index[root] = low[root] = counter[0]
        counter[0] += 1
        stack.append(root)
        onstack.add(root)
        while work:
            v, it = work[-1]
            advanced = False
            for w in it:
                if w not in index:
                    index[w] = low[w] = counter[0]
                    counter[0] += 1
                    stack.append(w)
                    onstack.add(w)
                    work.append((w, iter(sorted(edges.get(w, ()), key=repr))))
                    advanced = True
                    break
                elif w in onstack:
                    low[v] = min(low[v], index[w])
            if advanced:
                continue
            work.pop()
            if work:
                u = work[-1][0]
                low[u] = min(low[u], low[v])
            if low[v] == index[v]:
                comp = []
                while True:
                    w = stack.pop()
                    onstack.discard(w)
                    comp.append(w)
                    if w == v:
                        break
                if len(comp) > 1 or v in edges.get(v, ()):
                    out.append(comp)
    return out
