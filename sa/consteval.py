"""Engine component B: constant evaluator (constant folding, not execution).

Evaluates module-level / class-level / single-assignment local constant
expressions to Python values.  No function of the repository is ever called:
only literals, names of earlier constants, a whitelist of pure builtins and of
pure str/bytes/dict/set methods, and the ``string`` module's constants.
"""
from __future__ import annotations

import ast
import copy
import operator
import string as _string
from typing import Any, Dict, Optional

from .repo import AnalysisError, ModuleInfo, Repo


def _opaque(v) -> bool:
    """an uninterpreted value (partition.Opaque): no operator may turn it into a definite answer"""
    return type(v).__name__ == "Opaque"


class NotConstant(Exception):
    pass


_BUILTINS = {
    "frozenset": frozenset, "set": set, "tuple": tuple, "list": list, "dict": dict,
    "sorted": sorted, "len": len, "ord": ord, "chr": chr, "hex": hex, "str": str, "int": int,
    "range": range, "reversed": lambda x: list(reversed(x)), "zip": lambda *a: list(zip(*a)),
    "enumerate": lambda x: list(enumerate(x)), "min": min, "max": max, "bool": bool,
    "True": True, "False": False, "None": None, "unichr": chr, "text_type": str,
    "bytes": bytes, "any": any, "all": all, "sum": sum, "abs": abs, "bytearray": bytearray,
}
_CALLABLE_BUILTINS = {k for k, v in _BUILTINS.items() if callable(v)}
_MUTATING = ("update", "append", "extend", "add", "setdefault", "insert", "discard", "remove", "pop", "clear", "sort", "reverse")

_PURE_METHODS = {
    str: {"join", "lower", "upper", "encode", "format", "split", "strip", "lstrip", "rstrip",
          "startswith", "endswith", "replace", "translate", "isdigit", "isalpha", "title",
          "find", "index", "count", "capitalize", "islower", "isupper", "isalnum", "isspace", "rfind", "rindex",
          "partition", "rpartition", "rsplit", "splitlines", "zfill", "ljust", "rjust", "center", "swapcase", "casefold",
          "isascii", "isdecimal", "isnumeric", "isidentifier", "expandtabs", "removeprefix", "removesuffix"},
    bytes: {"decode", "lower", "upper", "join", "split", "strip", "startswith", "endswith"},
    bytearray: {"decode", "lower", "upper", "startswith", "endswith"},
    dict: {"items", "keys", "values", "get", "copy"},
    frozenset: {"union", "intersection", "difference", "issubset", "issuperset", "copy"},
    set: {"union", "intersection", "difference", "issubset", "issuperset", "copy"},
    tuple: {"index", "count"},
    list: {"index", "count", "copy"},
}

_BINOPS = {ast.BitOr: operator.or_, ast.BitAnd: operator.and_, ast.Sub: operator.sub,
           ast.Add: operator.add, ast.Mod: operator.mod, ast.Mult: operator.mul,
           ast.BitXor: operator.xor, ast.LShift: operator.lshift, ast.RShift: operator.rshift,
           ast.FloorDiv: operator.floordiv}
_CMPOPS = {ast.Eq: operator.eq, ast.NotEq: operator.ne, ast.Lt: operator.lt, ast.LtE: operator.le,
           ast.Gt: operator.gt, ast.GtE: operator.ge, ast.Is: operator.is_, ast.IsNot: operator.is_not,
           ast.In: lambda a, b: a in b, ast.NotIn: lambda a, b: a not in b}


class _StringModule:
    """stand-in for the stdlib ``string`` module (constants only)."""
    ALLOWED = ("ascii_lowercase", "ascii_uppercase", "ascii_letters", "digits", "hexdigits",
               "whitespace", "punctuation", "octdigits")

    def get(self, attr):
        if attr in self.ALLOWED:
            return getattr(_string, attr)
        raise NotConstant("string.%s" % attr)


class _CodecTables:
    """stand-in for a standard-library charmap codec module (``encodings.cp1252`` ...): its decoding table, which is data"""

    def __init__(self, name):
        import importlib
        self._m = importlib.import_module("encodings." + name)

    def get(self, attr):
        if attr in ("decoding_table",) and isinstance(getattr(self._m, attr, None), str):
            return getattr(self._m, attr)
        raise NotConstant("encodings.%s" % attr)


class ConstEval:
    def __init__(self, repo: Repo):
        self.repo = repo
        self._env: Dict[str, Dict[str, Any]] = {}
        self._prov: Dict[str, Dict[str, int]] = {}
        self._busy = set()
        self.hook = None       # optional callable(node, local) -> value | NotImplemented, consulted at every node

    # ------------------------------------------------------------ module env
    def module_env(self, mod: ModuleInfo) -> Dict[str, Any]:
        if mod.rel in self._env:
            return self._env[mod.rel]
        if mod.rel in self._busy:
            return {}
        self._busy.add(mod.rel)
        env: Dict[str, Any] = {}
        prov: Dict[str, int] = {}
        self._env[mod.rel] = env
        self._prov[mod.rel] = prov

        def run(body):
            for st in body:
                if isinstance(st, ast.Assign):
                    try:
                        val = self.eval(st.value, mod, env)
                    except NotConstant:
                        for t in st.targets:
                            if isinstance(t, ast.Name):
                                env.pop(t.id, None)
                        continue
                    for t in st.targets:
                        if isinstance(t, ast.Name):
                            env[t.id] = val
                            prov[t.id] = st.lineno
                        elif isinstance(t, ast.Subscript) and isinstance(t.value, ast.Name) \
                                and t.value.id in env and isinstance(env[t.value.id], dict):
                            try:
                                k = self.eval(t.slice, mod, env)
                            except NotConstant:
                                env.pop(t.value.id, None)
                                continue
                            d = dict(env[t.value.id])
                            d[k] = val
                            env[t.value.id] = d
                        elif isinstance(t, ast.Tuple) and all(isinstance(e, ast.Name) for e in t.elts):
                            try:
                                vals = list(val)
                            except TypeError:
                                continue
                            if len(vals) == len(t.elts):
                                for e, v in zip(t.elts, vals):
                                    env[e.id] = v
                                    prov[e.id] = st.lineno
                elif isinstance(st, ast.AugAssign) and isinstance(st.target, ast.Name):
                    env.pop(st.target.id, None)
                elif isinstance(st, ast.For):
                    # a table built by a loop over a constant sequence (`for group in (...): table.update(dict.fromkeys(group, group))`)
                    stored = {n.id for n in ast.walk(st) if isinstance(n, ast.Name) and isinstance(n.ctx, ast.Store)} | \
                        {c.func.value.id for c in ast.walk(st) if isinstance(c, ast.Call) and isinstance(c.func, ast.Attribute) and
                         isinstance(c.func.value, ast.Name) and c.func.attr in _MUTATING} | \
                        {t.value.id for n in ast.walk(st) if isinstance(n, (ast.Assign, ast.AugAssign, ast.Delete))
                         for t in (n.targets if isinstance(n, (ast.Assign, ast.Delete)) else [n.target])
                         if isinstance(t, ast.Subscript) and isinstance(t.value, ast.Name)}
                    simple = not st.orelse and not any(isinstance(n, (ast.Break, ast.Continue, ast.If, ast.While, ast.Try, ast.With, ast.Return))
                                                       for b in st.body for n in ast.walk(b))
                    try:
                        seq = list(self.eval(st.iter, mod, env)) if simple else None
                    except (NotConstant, TypeError):
                        seq = None
                    if seq is None or len(seq) > 400:
                        for nm in stored:
                            env.pop(nm, None)
                        continue
                    ok = True
                    for item in seq:
                        if isinstance(st.target, ast.Name):
                            env[st.target.id] = item
                        elif isinstance(st.target, ast.Tuple) and all(isinstance(e, ast.Name) for e in st.target.elts) and \
                                isinstance(item, (tuple, list)) and len(item) == len(st.target.elts):
                            for e, v in zip(st.target.elts, item):
                                env[e.id] = v
                        else:
                            ok = False
                            break
                        run(st.body)
                    if not ok:
                        for nm in stored:
                            env.pop(nm, None)
                elif isinstance(st, ast.Expr) and isinstance(st.value, ast.Call) and isinstance(st.value.func, ast.Attribute) and \
                        isinstance(st.value.func.value, ast.Name) and st.value.func.attr in _MUTATING:
                    nm = st.value.func.value.id
                    if nm in env and isinstance(env[nm], (dict, list, set)) and not st.value.keywords:
                        try:
                            args = [self.eval(a, mod, env) for a in st.value.args]
                            new = copy.copy(env[nm])
                            getattr(new, st.value.func.attr)(*args)
                            env[nm] = new
                        except (NotConstant, TypeError, ValueError, KeyError):
                            env.pop(nm, None)
                    else:
                        env.pop(nm, None)
                elif isinstance(st, ast.If):
                    # version switches (`if version_info >= (3, 7)`): names assigned in
                    # either arm are not constant for us unless both arms agree
                    for sub in st.body + st.orelse:
                        for n in ast.walk(sub):
                            if isinstance(n, ast.Name) and isinstance(n.ctx, ast.Store):
                                env.pop(n.id, None)
        run(mod.tree.body)
        self._busy.discard(mod.rel)
        return env

    def provenance(self, mod: ModuleInfo, name: str) -> str:
        self.module_env(mod)
        ln = self._prov.get(mod.rel, {}).get(name)
        return "%s:%s" % (mod.rel, ln if ln else "?")

    def const(self, rel: str, name: str):
        """Value of a module-level constant; vanished -> AnalysisError."""
        mod = self.repo.module(rel)
        env = self.module_env(mod)
        if name not in env:
            raise AnalysisError("module-level constant %s in html5lib/%s is missing or not "
                                "statically evaluable" % (name, rel))
        return env[name]

    def lookup(self, name: str, mod: ModuleInfo, local: Optional[Dict[str, Any]] = None):
        if local is not None and name in local:
            return local[name]
        env = self.module_env(mod)
        if name in env:
            return env[name]
        if name in mod.imports:
            m, attr = mod.imports[name]
            if m == "string" and attr is None:
                return _StringModule()
            if m == "string" and attr in _StringModule.ALLOWED:
                return getattr(_string, attr)
            if m == "encodings" and attr in ("cp1252", "latin_1", "cp1250", "cp1251", "iso8859_15"):
                try:
                    return _CodecTables(attr)
                except Exception:       # noqa: BLE001
                    raise NotConstant(name)
            if m == "six" and attr in ("text_type",):
                return str
            if m == "six" and attr == "unichr":
                return chr
            r = self.repo.resolve_import(mod, name)
            if r and r[0] is not None:
                if r[1] is None:
                    return _ModRef(r[0])
                env2 = self.module_env(r[0])
                if r[1] in env2:
                    return env2[r[1]]
                # re-exported import
                if r[1] in r[0].imports:
                    return self.lookup(r[1], r[0])
            raise NotConstant(name)
        if name in _BUILTINS:
            return _BUILTINS[name]
        raise NotConstant(name)

    # ------------------------------------------------------------ evaluation
    def eval(self, node, mod: ModuleInfo, local: Optional[Dict[str, Any]] = None):
        ev = lambda n: self.eval(n, mod, local)  # noqa: E731
        if self.hook is not None:
            hv = self.hook(node, local)
            if hv is not NotImplemented:
                return hv
        if isinstance(node, ast.Constant):
            return node.value
        if isinstance(node, ast.Name):
            return self.lookup(node.id, mod, local)
        if isinstance(node, ast.Tuple):
            return tuple(self._elts(node.elts, ev))
        if isinstance(node, ast.List):
            return list(self._elts(node.elts, ev))
        if isinstance(node, ast.Set):
            return set(self._elts(node.elts, ev))
        if isinstance(node, ast.Dict):
            d = {}
            for k, v in zip(node.keys, node.values):
                if k is None:
                    d.update(ev(v))
                else:
                    d[ev(k)] = ev(v)
            return d
        if isinstance(node, ast.BinOp):
            op = _BINOPS.get(type(node.op))
            if op is None:
                raise NotConstant(ast.dump(node.op))
            try:
                l_, r_ = ev(node.left), ev(node.right)
                if _opaque(l_) or _opaque(r_):
                    raise NotConstant("operator applied to an uninterpreted value")
                return op(l_, r_)
            except NotConstant:
                raise
            except Exception as e:
                raise NotConstant(str(e))
        if isinstance(node, ast.UnaryOp):
            v = ev(node.operand)
            if _opaque(v):
                raise NotConstant("operator applied to an uninterpreted value")
            if isinstance(node.op, ast.Not):
                return not v
            if isinstance(node.op, ast.USub):
                return -v
            if isinstance(node.op, ast.Invert):
                return ~v
            raise NotConstant("unary")
        if isinstance(node, ast.BoolOp):
            if isinstance(node.op, ast.And):
                v = True
                for x in node.values:
                    v = ev(x)
                    if _opaque(v):
                        raise NotConstant("truth value of an uninterpreted value")
                    if not v:
                        return v
                return v
            v = False
            for x in node.values:
                v = ev(x)
                if _opaque(v):
                    raise NotConstant("truth value of an uninterpreted value")
                if v:
                    return v
            return v
        if isinstance(node, ast.Compare):
            left = ev(node.left)
            for op, c in zip(node.ops, node.comparators):
                right = ev(c)
                if _opaque(left) or _opaque(right):
                    raise NotConstant("comparison with an uninterpreted value")
                try:
                    if not _CMPOPS[type(op)](left, right):
                        return False
                except TypeError as e:
                    raise NotConstant(str(e))
                left = right
            return True
        if isinstance(node, ast.IfExp):
            t_ = ev(node.test)
            if _opaque(t_):
                raise NotConstant("truth value of an uninterpreted value")
            return ev(node.body) if t_ else ev(node.orelse)
        if isinstance(node, ast.Subscript):
            v = ev(node.value)
            if isinstance(v, (_ModRef, _StringModule)):
                raise NotConstant("subscript of module")
            if isinstance(node.slice, ast.Slice):
                lo = ev(node.slice.lower) if node.slice.lower else None
                hi = ev(node.slice.upper) if node.slice.upper else None
                st = ev(node.slice.step) if node.slice.step else None
                return v[lo:hi:st]
            try:
                return v[ev(node.slice)]
            except (KeyError, IndexError, TypeError) as e:
                raise NotConstant("subscript: %r" % (e,))
        if isinstance(node, ast.Attribute):
            v = ev(node.value)
            if isinstance(v, (_StringModule, _CodecTables)):
                return v.get(node.attr)
            if isinstance(v, _ModRef):
                env = self.module_env(v.mod)
                if node.attr in env:
                    return env[node.attr]
                raise NotConstant("%s.%s" % (v.mod.rel, node.attr))
            raise NotConstant("attribute %s" % node.attr)
        if isinstance(node, ast.Call):
            return self._call(node, mod, local, ev)
        if isinstance(node, (ast.ListComp, ast.SetComp, ast.GeneratorExp, ast.DictComp)):
            return self._comp(node, mod, local)
        if isinstance(node, ast.JoinedStr):
            out = []
            for p in node.values:
                if isinstance(p, ast.Constant):
                    out.append(p.value)
                elif isinstance(p, ast.FormattedValue) and p.format_spec is None and p.conversion == -1:
                    out.append(str(ev(p.value)))
                else:
                    raise NotConstant("fstring")
            return "".join(out)
        if isinstance(node, ast.Starred):
            raise NotConstant("starred")
        raise NotConstant(type(node).__name__)

    def _elts(self, elts, ev):
        out = []
        for e in elts:
            if isinstance(e, ast.Starred):
                out.extend(ev(e.value))
            else:
                out.append(ev(e))
        return out

    def _call(self, node: ast.Call, mod, local, ev):
        if node.keywords and not (isinstance(node.func, ast.Name) and node.func.id in ("sorted", "dict")):
            raise NotConstant("keyword call")
        f = node.func
        if isinstance(f, ast.Name):
            if f.id in _CALLABLE_BUILTINS and not (local and f.id in local) \
                    and f.id not in self.module_env(mod):
                args = self._elts(node.args, ev)
                if f.id == "dict" and node.keywords:
                    kw = {k.arg: ev(k.value) for k in node.keywords}
                    return dict(*args, **kw)
                if f.id == "sorted" and node.keywords:
                    raise NotConstant("sorted with key")
                try:
                    v = _BUILTINS[f.id](*args)
                except NotConstant:
                    raise
                except Exception as e:
                    raise NotConstant(str(e))
                if isinstance(v, range):
                    v = list(v)
                return v
            raise NotConstant("call %s" % f.id)
        if isinstance(f, ast.Attribute):
            if isinstance(f.value, ast.Name) and f.value.id == "dict" and f.attr == "fromkeys" and not (local and "dict" in local) and \
                    1 <= len(node.args) <= 2 and not node.keywords:
                args = self._elts(node.args, ev)
                try:
                    return dict.fromkeys(*args)
                except TypeError as e:
                    raise NotConstant(str(e))
            recv = ev(f.value)
            for ty, names in _PURE_METHODS.items():
                if type(recv) is ty and f.attr in names:
                    args = self._elts(node.args, ev)
                    try:
                        v = getattr(recv, f.attr)(*args)
                    except Exception as e:
                        raise NotConstant(str(e))
                    if f.attr in ("items", "keys", "values"):
                        v = list(v)
                    return v
            raise NotConstant("method %s" % f.attr)
        raise NotConstant("call")

    def _comp(self, node, mod, local):
        results = []
        local = dict(local or {})

        def bind(target, value, env):
            if isinstance(target, ast.Name):
                env[target.id] = value
            elif isinstance(target, (ast.Tuple, ast.List)):
                vals = list(value)
                if len(vals) != len(target.elts):
                    raise NotConstant("unpack")
                for t, v in zip(target.elts, vals):
                    bind(t, v, env)
            else:
                raise NotConstant("comp target")

        def rec(i, env):
            if i == len(node.generators):
                if isinstance(node, ast.DictComp):
                    results.append((self.eval(node.key, mod, env), self.eval(node.value, mod, env)))
                else:
                    results.append(self.eval(node.elt, mod, env))
                return
            g = node.generators[i]
            it = self.eval(g.iter, mod, env)
            if isinstance(it, dict):
                it = list(it)
            try:
                seq = list(it)
            except TypeError:
                raise NotConstant("iter")
            if isinstance(it, (set, frozenset)):
                seq = sorted(seq, key=repr)
            for v in seq:
                e2 = dict(env)
                bind(g.target, v, e2)
                if all(self.eval(c, mod, e2) for c in g.ifs):
                    rec(i + 1, e2)
        rec(0, local)
        if isinstance(node, ast.DictComp):
            return dict(results)
        if isinstance(node, ast.SetComp):
            return set(results)
        return results

    # ------------------------------------------------------------ local constants
    def local_env(self, func_node, mod: ModuleInfo, extra: Optional[Dict[str, Any]] = None) -> Dict[str, Any]:
        """Names assigned exactly once in the function (not in loops' targets, not
        augmented) to a constant expression."""
        counts: Dict[str, int] = {}
        first: Dict[str, ast.AST] = {}
        for n in ast.walk(func_node):
            if isinstance(n, ast.Name) and isinstance(n.ctx, (ast.Store, ast.Del)):
                counts[n.id] = counts.get(n.id, 0) + 1
            elif isinstance(n, ast.arg):
                counts[n.arg] = counts.get(n.arg, 0) + 1
        for n in ast.walk(func_node):
            if isinstance(n, ast.Assign) and len(n.targets) == 1 and isinstance(n.targets[0], ast.Name):
                first.setdefault(n.targets[0].id, n.value)
        env: Dict[str, Any] = dict(extra or {})
        for name, val in first.items():
            if counts.get(name) == 1:
                try:
                    env[name] = self.eval(val, mod, env)
                except NotConstant:
                    pass
        return env

    def try_eval(self, node, mod, local=None, default=None):
        try:
            return self.eval(node, mod, local)
        except NotConstant:
            return default


class _ModRef:
    def __init__(self, mod: ModuleInfo):
        self.mod = mod
