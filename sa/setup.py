"""MANIFEST.setup_cmd: nothing to build; verify the interpreter and the tree are usable."""
import sys
from .repo import Repo, AnalysisError


def main():
    try:
        repo = Repo()
    except AnalysisError as e:
        print("setup: %s" % e)
        return 2
    print("setup: python %s, %d modules parsed under %s" % (sys.version.split()[0], len(repo.modules), repo.pkg))
    return 0


if __name__ == "__main__":
    sys.exit(main())
