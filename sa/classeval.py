"""Concrete evaluation of the methods of one small class from its source (no import, no execution of repository code).

`ClassEval(ce, mod, cls, attrs)` interprets method bodies with `MiniInterp` on *concrete* arguments: instance attributes live
in `attrs` (a dict the methods may read and write, containers shared by identity), calls of other methods of the class are
interpreted recursively, regular expressions compiled from constant patterns (module level, class level, or inline `re.*`
calls) are applied with the standard library's `re` -- constant folding of a pure function on constants -- and
`warnings.warn` is a no-op.  `while` loops are run with a bound.  Anything else raises AnalysisError: the caller reports
"undecided", never a verdict.

This is what lets a rule say "toXmlName('a:b') is 'aU0003Ab' whatever the shape of the code" instead of matching statements.
"""
from __future__ import annotations

import ast
import re as _re
from typing import Any, Dict, List

from .consteval import NotConstant
from .partition import MiniInterp, Opaque
from .repo import AnalysisError, norm, walk_no_nested

_FLAGS = {"re.I": _re.I, "re.IGNORECASE": _re.I, "re.VERBOSE": _re.X, "re.X": _re.X, "re.ASCII": _re.A, "re.A": _re.A,
          "re.S": _re.S, "re.DOTALL": _re.S, "re.M": _re.M, "re.MULTILINE": _re.M, "re.U": _re.U, "re.UNICODE": _re.U}
_RE_METHODS = ("match", "search", "fullmatch", "findall", "sub", "split")


class _Match:
    """truthy stand-in for a match object; `.group(..)` of the real match is available to the hooks"""

    def __init__(self, m):
        self.m = m

    def __bool__(self):
        return True


class Record:
    """a plain object with the given attributes (an exception instance, a token ...) that the evaluated code may read;
    `isa` names the classes `isinstance(record, ..)` answers True for"""

    def __init__(self, isa=(), **fields):
        self._isa = set(isa)
        self.__dict__.update(fields)


class SizedRecord(Record):
    """a Record that also answers len() (an ElementTree element: number of children)"""

    def __init__(self, n, isa=(), **fields):
        Record.__init__(self, isa, **fields)
        self._n = n

    def __len__(self):
        return self._n


class ClassEval:
    MAX_DEPTH = 12
    MAX_WHILE = 200

    def __init__(self, ce, mod, cls, attrs: Dict[str, Any], repo=None, globals_override: Dict[str, Any] = None):
        self.ce, self.mod, self.cls = ce, mod, cls
        self.attrs = attrs
        self.repo = repo
        self.globals_override = dict(globals_override or {})
        self.depth = 0
        self.calls: List[str] = []
        self.method_models: Dict[str, Any] = {}     # method name -> callable used instead of interpreting the method
        self.function_models: Dict[str, Any] = {}   # module-level function name -> callable (models of third-party look-ups)
        self.stream = None          # characters still to be read (a list), when the class reads `self.stream.char()`
        self.emitted: List[Any] = []   # what was appended to `self.tokenQueue`
        self.yielded: List[Any] = []   # what a generator method yielded
        self.patterns: Dict[str, ast.Call] = {}        # "name" / "self.name" -> re.compile(...) call node
        for st in mod.tree.body:
            self._note_pattern(st, "")
        for c in (cls.mro() if cls is not None else []):
            for st in c.node.body:
                self._note_pattern(st, "self.")

    def _note_pattern(self, st, prefix):
        if isinstance(st, ast.Assign) and len(st.targets) == 1 and isinstance(st.targets[0], ast.Name) and isinstance(st.value, ast.Call) and \
                norm(st.value.func) == "re.compile" and st.value.args:
            self.patterns.setdefault(prefix + st.targets[0].id, st.value)

    # ------------------------------------------------------------------ regular expressions
    def _flags(self, exprs) -> int:
        fl = 0
        for x in exprs:
            for part in norm(x).split("|"):
                part = part.strip()
                if part in _FLAGS:
                    fl |= _FLAGS[part]
                elif part not in ("0",):
                    raise NotConstant("regex flag %s" % part)
        return fl

    def _compiled(self, key):
        comp = self.patterns[key]
        pat = self.ce.eval(comp.args[0], self.mod, None)
        return _re.compile(pat, self._flags(list(comp.args[1:]) + [k.value for k in comp.keywords if k.arg == "flags"]))

    def _apply_re(self, rx, meth, args, kw):
        if meth in ("match", "search", "fullmatch"):
            m = getattr(rx, meth)(*args)
            return _Match(m) if m is not None else None
        if meth == "findall":
            return rx.findall(*args)
        if meth == "sub":
            return rx.sub(args[0], args[1], **kw)
        if meth == "split":
            return rx.split(*args)
        raise NotConstant("regex method %s" % meth)

    # ------------------------------------------------------------------ hooks
    def _expr_hook(self, node, local):
        if isinstance(node, ast.Attribute) and isinstance(node.value, ast.Name) and node.value.id == "self" and isinstance(node.ctx, ast.Load):
            if node.attr in self.attrs:
                return self.attrs[node.attr]
            return NotImplemented
        # attributes of a Record held by a local
        if isinstance(node, ast.Attribute) and isinstance(node.value, ast.Name) and isinstance((local or {}).get(node.value.id), Record) and \
                isinstance(node.ctx, ast.Load):
            rec = local[node.value.id]
            if node.attr.startswith("_") or not hasattr(rec, node.attr):
                raise NotConstant("record has no attribute %s" % node.attr)
            return getattr(rec, node.attr)
        if isinstance(node, ast.Name) and isinstance(node.ctx, ast.Load) and node.id in self.globals_override and (local is None or node.id not in local):
            return self.globals_override[node.id]
        # constants of xml.dom.Node (node-type codes), wherever they are named
        if isinstance(node, ast.Attribute) and isinstance(node.value, ast.Name) and node.value.id == "Node" and node.attr.endswith("_NODE"):
            import xml.dom
            if hasattr(xml.dom.Node, node.attr):
                return getattr(xml.dom.Node, node.attr)
        # a module-level constant of another package module that ConstEval cannot fold by itself (it is defined from xml.dom.Node)
        if isinstance(node, ast.Attribute) and isinstance(node.value, ast.Name) and isinstance(node.ctx, ast.Load) and self.repo is not None and \
                node.value.id in getattr(self.mod, "imports", {}) and (local is None or node.value.id not in local):
            rr = self.repo.resolve_import(self.mod, node.value.id)
            if rr and rr[0] is not None and rr[1] is None:
                for st in rr[0].tree.body:
                    if isinstance(st, ast.Assign) and len(st.targets) == 1 and isinstance(st.targets[0], ast.Name) and st.targets[0].id == node.attr:
                        try:
                            return self.ce.eval(st.value, rr[0], None)
                        except NotConstant:
                            break
        # attribute of a Record reached through an expression (`node.attributes.length`)
        if isinstance(node, ast.Attribute) and isinstance(node.ctx, ast.Load) and isinstance(node.value, (ast.Attribute, ast.Subscript, ast.Call)):
            try:
                base_ = self.ce.eval(node.value, self.mod, local)
            except NotConstant:
                base_ = None
            if isinstance(base_, Record) and not node.attr.startswith("_") and hasattr(base_, node.attr) and not callable(getattr(base_, node.attr)):
                return getattr(base_, node.attr)
        if not isinstance(node, ast.Call):
            return NotImplemented
        fn = node.func
        t = norm(fn)
        ev = lambda x: self._value(self.ce.eval(x, self.mod, local))  # noqa: E731
        # a mutating method of a concrete local container used as an expression (`unget(charStack.pop())`)
        if isinstance(fn, ast.Attribute) and isinstance(fn.value, ast.Name) and isinstance((local or {}).get(fn.value.id), (list, dict, set)) and \
                fn.attr in ("pop", "append", "extend", "insert", "remove", "clear", "add", "discard", "update", "setdefault", "popitem") and not node.keywords:
            try:
                return getattr(local[fn.value.id], fn.attr)(*[ev(a) for a in node.args])
            except (IndexError, KeyError, ValueError) as e:
                raise NotConstant("%s: %s" % (type(e).__name__, e))
        # ... or of a concrete container reached through an expression (`self.tree.activeFormattingElements.remove(x)`)
        if isinstance(fn, ast.Attribute) and not isinstance(fn.value, ast.Name) and not node.keywords and \
                fn.attr in ("pop", "append", "extend", "insert", "remove", "clear", "add", "discard", "update", "setdefault"):
            try:
                cont_ = self.ce.eval(fn.value, self.mod, local)
            except NotConstant:
                cont_ = None
            if isinstance(cont_, (list, dict, set)):
                try:
                    return getattr(cont_, fn.attr)(*[ev(a) for a in node.args])
                except (IndexError, KeyError, ValueError) as e:
                    raise NotConstant("%s: %s" % (type(e).__name__, e))
        # a method of a Record: the model the rule supplied (not repository code)
        if isinstance(fn, ast.Attribute) and not fn.attr.startswith("_"):
            try:
                if isinstance(fn.value, ast.Name):
                    base_ = (local or {}).get(fn.value.id, self.globals_override.get(fn.value.id))
                else:
                    base_ = self.ce.eval(fn.value, self.mod, local)
            except NotConstant:
                base_ = None
            if isinstance(base_, Record) and callable(getattr(base_, fn.attr, None)) and not node.keywords:
                return getattr(base_, fn.attr)(*[ev(a) for a in node.args])
        if t == "isinstance" and len(node.args) == 2 and isinstance(node.args[0], ast.Name) and isinstance((local or {}).get(node.args[0].id), Record):
            names = [norm(e) for e in (node.args[1].elts if isinstance(node.args[1], (ast.Tuple, ast.List)) else [node.args[1]])]
            return any(n_.split(".")[-1] in local[node.args[0].id]._isa for n_ in names)
        if isinstance(fn, ast.Name) and fn.id in self.function_models and (local is None or fn.id not in local):
            return self.function_models[fn.id](*[ev(a) for a in node.args])
        if t in ("hasattr", "getattr") and len(node.args) >= 2 and isinstance(node.args[0], ast.Name) and isinstance((local or {}).get(node.args[0].id), Record):
            nm_ = ev(node.args[1])
            rec_ = local[node.args[0].id]
            if isinstance(nm_, str) and not nm_.startswith("_"):
                if t == "hasattr":
                    return hasattr(rec_, nm_)
                if hasattr(rec_, nm_):
                    return getattr(rec_, nm_)
                if len(node.args) == 3:
                    return ev(node.args[2])
        if t == "len" and len(node.args) == 1 and isinstance(node.args[0], ast.Name) and isinstance((local or {}).get(node.args[0].id), SizedRecord):
            return len(local[node.args[0].id])
        if t == "isinstance" and len(node.args) == 2:
            types_ = {"bytes": bytes, "str": str, "text_type": str, "int": int, "dict": dict, "list": list, "tuple": tuple, "bool": bool, "float": float,
                      "binary_type": bytes}
            names = [norm(e).split(".")[-1] for e in (node.args[1].elts if isinstance(node.args[1], (ast.Tuple, ast.List)) else [node.args[1]])]
            if all(n_ in types_ for n_ in names):
                v_ = ev(node.args[0])
                if isinstance(v_, Record):
                    return False            # a model object is none of the builtin types
                return isinstance(v_, tuple(types_[n_] for n_ in names))
        # a function of this module, or of a package module imported by name (`_utils.isSurrogatePair(x)`)
        if isinstance(fn, ast.Name) and fn.id in getattr(self.mod, "functions", {}) and (local is None or fn.id not in local) and not node.keywords:
            return self.callf(self.mod, fn.id, [ev(a) for a in node.args])
        if isinstance(fn, ast.Attribute) and isinstance(fn.value, ast.Name) and fn.attr in self.function_models and \
                fn.value.id in getattr(self.mod, "imports", {}) and (local is None or fn.value.id not in local) and not node.keywords:
            return self.function_models[fn.attr](*[ev(a) for a in node.args])
        if isinstance(fn, ast.Attribute) and isinstance(fn.value, ast.Name) and self.repo is not None and fn.value.id in getattr(self.mod, "imports", {}) \
                and (local is None or fn.value.id not in local) and not node.keywords:
            rr = self.repo.resolve_import(self.mod, fn.value.id)
            target = None
            if rr and rr[0] is not None:
                target = rr[0] if rr[1] is None else None
                if target is None and rr[1] is not None:
                    # `from . import _utils`: the imported name is itself a module of the package
                    for cand in self.repo.modules.values():
                        if cand.dotted == rr[0].dotted + "." + rr[1] or cand.dotted.endswith("." + rr[1]) and cand.rel == rr[1] + ".py":
                            target = cand
            if target is not None and fn.attr in target.functions:
                return self.callf(target, fn.attr, [ev(a) for a in node.args])
        if t in ("warnings.warn",):
            return None
        if self.stream is not None:
            if t == "self.stream.char" and not node.args:
                return self.stream.pop(0) if self.stream else None
            if t == "self.stream.unget" and len(node.args) == 1:
                c = ev(node.args[0])
                if c is not None:
                    self.stream.insert(0, c)
                return None
            if t == "self.tokenQueue.append" and len(node.args) == 1:
                self.emitted.append(ev(node.args[0]))
                return None
        # a match object's group() / groups(), on a local or directly on the call that produced the match
        if isinstance(fn, ast.Attribute) and fn.attr in ("group", "groups", "start", "end", "span"):
            try:
                mv = self.ce.eval(fn.value, self.mod, local) if not isinstance(fn.value, ast.Name) else (local or {}).get(fn.value.id)
            except NotConstant:
                mv = None
            if isinstance(mv, _Match):
                return getattr(mv.m, fn.attr)(*[ev(a) for a in node.args])
        if isinstance(fn, ast.Attribute) and isinstance(fn.value, ast.Name) and fn.value.id == "self" and fn.attr in self.method_models:
            return self.method_models[fn.attr](*[ev(a) for a in node.args])
        # a callable stored on the object (`self.decode = codec_info.decode` in the constructor): the model's callable
        if isinstance(fn, ast.Attribute) and isinstance(fn.value, ast.Name) and fn.value.id == "self" and callable(self.attrs.get(fn.attr)) and \
                not isinstance(self.attrs.get(fn.attr), Record) and (self.cls is None or self.cls.find_method(fn.attr) is None) and not node.keywords:
            return self.attrs[fn.attr](*[ev(a) for a in node.args])
        if isinstance(fn, ast.Name) and fn.id in self.function_models and (local is None or fn.id not in local):
            return self.function_models[fn.id](*[ev(a) for a in node.args])
        if isinstance(fn, ast.Attribute) and isinstance(fn.value, ast.Name) and fn.value.id == "self" and self.cls is not None and \
                self.cls.find_method(fn.attr) is not None:
            if node.keywords:
                kw = {k.arg: ev(k.value) for k in node.keywords}
            else:
                kw = {}
            return self.call(fn.attr, [ev(a) for a in node.args], kw)
        if isinstance(fn, ast.Attribute) and fn.attr in _RE_METHODS:
            key = norm(fn.value)
            if key in self.patterns:
                kw = {k.arg: ev(k.value) for k in node.keywords}
                return self._apply_re(self._compiled(key), fn.attr, [ev(a) for a in node.args], kw)
            if key == "re" and node.args:
                pat = ev(node.args[0])
                rest = [ev(a) for a in node.args[1:]]
                kw = {k.arg: (ev(k.value) if k.arg != "flags" else None) for k in node.keywords}
                npos = {"sub": 3, "split": 2}.get(fn.attr, 1)          # positional arguments before count / flags
                fl = self._flags([k.value for k in node.keywords if k.arg == "flags"] +
                                 (list(node.args[1 + npos + (1 if fn.attr in ("sub", "split") else 0):]) if len(rest) > npos else []))
                kw.pop("flags", None)
                if fn.attr in ("sub", "split") and len(rest) > npos:
                    kw.setdefault("count" if fn.attr == "sub" else "maxsplit", rest[npos])
                return self._apply_re(_re.compile(pat, fl), fn.attr, rest[:npos], kw)
        # `list.append(self, x)` in a list subclass whose instance is concrete here
        if isinstance(fn, ast.Attribute) and isinstance(fn.value, ast.Name) and fn.value.id == "list" and fn.attr in ("append", "remove", "insert", "extend") \
                and node.args and (local is None or "list" not in local):
            tgt = ev(node.args[0])
            if isinstance(tgt, list):
                return getattr(list, fn.attr)(tgt, *[ev(a) for a in node.args[1:]])
        if isinstance(fn, ast.Name) and fn.id in ("map", "filter") and len(node.args) >= 2 and not node.keywords and (local is None or fn.id not in local):
            fobj = ev(node.args[0]) if not isinstance(node.args[0], ast.Name) or node.args[0].id in (local or {}) else None
            if callable(fobj) and not isinstance(fobj, type):
                seqs = [list(ev(a)) for a in node.args[1:]]
                return list(map(fobj, *seqs)) if fn.id == "map" else [x for x in seqs[0] if fobj(x)]
        if t in ("OrderedDict", "collections.OrderedDict") and not node.args and not node.keywords:
            return {}               # dicts keep insertion order
        if isinstance(fn, ast.Name) and fn.id == "format" and len(node.args) == 2:
            return format(ev(node.args[0]), ev(node.args[1]))
        return NotImplemented

    @staticmethod
    def _value(v):
        if isinstance(v, Opaque):
            raise NotConstant("uninterpreted value %s" % v.text)
        return v

    def _stmt_hook(self, st, out, interp):
        env = out.env
        if isinstance(st, ast.Expr) and isinstance(st.value, ast.Yield):
            try:
                self.yielded.append(None if st.value.value is None else self._value(interp.eval_expr(st.value.value, env)))
            except NotConstant as e:
                raise AnalysisError("`%s` is not interpreted (%s)" % (norm(st)[:80], e))
            return False
        if isinstance(st, ast.Expr) and isinstance(st.value, ast.Call):
            if norm(st.value.func) == "warnings.warn":
                return False
            fn_ = st.value.func
            # a mutating call on a concrete local container (evaluation is concrete, so aliasing is the real one)
            if isinstance(fn_, ast.Attribute) and isinstance(fn_.value, ast.Name) and isinstance(env.get(fn_.value.id), (list, dict, set)) and \
                    fn_.attr in ("append", "extend", "insert", "pop", "remove", "clear", "add", "discard", "update", "sort", "reverse", "setdefault") \
                    and not st.value.keywords:
                try:
                    args_ = [self._value(interp.eval_expr(a, env)) for a in st.value.args]
                except NotConstant as e:
                    raise AnalysisError("call `%s` is not interpreted (%s)" % (norm(st.value)[:80], e))
                getattr(env[fn_.value.id], fn_.attr)(*args_)
                return False
            try:
                interp.eval_expr(st.value, env)         # a call for its effect (interpreted through the expression hook)
            except NotConstant as e:
                raise AnalysisError("call `%s` is not interpreted (%s)" % (norm(st.value)[:80], e))
            return False
        if isinstance(st, ast.Assign) and len(st.targets) == 1:
            t = st.targets[0]
            if isinstance(t, ast.Subscript) and isinstance(t.value, ast.Attribute) and norm(t.value.value) == "self" and t.value.attr in self.attrs:
                try:
                    self.attrs[t.value.attr][self._value(interp.eval_expr(t.slice, env))] = self._value(interp.eval_expr(st.value, env))
                except NotConstant as e:
                    raise AnalysisError("store `%s` is not interpreted (%s)" % (norm(st)[:80], e))
                return False
            if isinstance(t, ast.Attribute) and norm(t.value) == "self":
                try:
                    self.attrs[t.attr] = self._value(interp.eval_expr(st.value, env))
                except NotConstant as e:
                    raise AnalysisError("store `%s` is not interpreted (%s)" % (norm(st)[:80], e))
                return False
            # a store into an attribute of a model object reached through an expression (`self.tree.formPointer = None`)
            if isinstance(t, ast.Attribute) and not isinstance(t.value, ast.Name):
                try:
                    holder = interp.eval_expr(t.value, env)
                    if isinstance(holder, Record):
                        setattr(holder, t.attr, self._value(interp.eval_expr(st.value, env)))
                        return False
                except NotConstant as e:
                    raise AnalysisError("store `%s` is not interpreted (%s)" % (norm(st)[:80], e))
        # a store into a concrete container reached through an expression (`self.currentToken["data"][-1][1] += output`)
        if isinstance(st, (ast.Assign, ast.AugAssign)):
            tg = st.targets[0] if isinstance(st, ast.Assign) and len(st.targets) == 1 else getattr(st, "target", None)
            if isinstance(tg, ast.Subscript) and (not isinstance(tg.value, ast.Name) or isinstance(env.get(tg.value.id), (list, dict))):
                try:
                    cont = interp.eval_expr(tg.value, env)
                    if isinstance(cont, (list, dict)):
                        k = self._value(interp.eval_expr(tg.slice, env))
                        v = self._value(interp.eval_expr(st.value, env))
                        if isinstance(st, ast.AugAssign):
                            import operator as _op
                            ops = {ast.Add: _op.add, ast.Sub: _op.sub, ast.Mult: _op.mul, ast.BitOr: _op.or_, ast.BitAnd: _op.and_}
                            if type(st.op) not in ops:
                                raise NotConstant("augmented operator")
                            v = ops[type(st.op)](cont[k], v)
                        cont[k] = v
                        return False
                except NotConstant as e:
                    raise AnalysisError("store `%s` is not interpreted (%s)" % (norm(st)[:80], e))
        if isinstance(st, ast.Delete) and len(st.targets) == 1 and isinstance(st.targets[0], ast.Subscript) and \
                isinstance(st.targets[0].value, ast.Attribute) and norm(st.targets[0].value.value) == "self" and st.targets[0].value.attr in self.attrs:
            self.attrs[st.targets[0].value.attr].pop(self._value(interp.eval_expr(st.targets[0].slice, env)), None)
            return False
        if isinstance(st, ast.Try):
            # exceptions raised by the rule's models (a trie's KeyError) and by folded builtins select the handler as written
            caught = (KeyError, ValueError, IndexError, TypeError, LookupError, StopIteration, ZeroDivisionError, AttributeError)
            try:
                left = interp._block(st.body, out)
            except caught as e:
                names = [c.__name__ for c in type(e).__mro__]
                for h in st.handlers:
                    hn = [] if h.type is None else [norm(x).split(".")[-1] for x in (h.type.elts if isinstance(h.type, ast.Tuple) else [h.type])]
                    if h.type is None or any(n_ in names for n_ in hn):
                        if h.name:
                            env[h.name] = Opaque("exception")
                        left = interp._block(h.body, out)
                        break
                else:
                    raise
            else:
                if not left and st.orelse:
                    left = interp._block(st.orelse, out)
            if st.finalbody:
                left = interp._block(st.finalbody, out) or left
            return left
        if isinstance(st, ast.While):
            n = 0
            while interp.eval_guard(st.test, env):
                n += 1
                if n > self.MAX_WHILE:
                    raise AnalysisError("`while %s` does not end within %d iterations on this input" % (norm(st.test)[:60], self.MAX_WHILE))
                left = interp._block(st.body, out)
                if left:
                    if out.flow == "break":
                        out.flow = None
                        return False
                    if out.flow == "continue":
                        out.flow = None
                        continue
                    return True            # return / raise
            else:
                pass
            if st.orelse:
                return interp._block(st.orelse, out)
            return False
        return NotImplemented

    def _guard_hook(self, node, env, interp):
        # truthiness of a match stand-in / None
        if isinstance(node, ast.Name) and (isinstance(env.get(node.id), _Match) or (node.id in env and env[node.id] is None)):
            return env[node.id] is not None
        return NotImplemented

    # ------------------------------------------------------------------ calls
    def callf(self, mod, fname: str, args: list):
        """a module-level function of `mod` (this module or another module of the package)"""
        f = mod.functions.get(fname)
        if f is None:
            raise AnalysisError("%s has no function %s" % (mod.rel, fname))
        if mod is not self.mod:
            sub = ClassEval(self.ce, mod, None, {}, repo=self.repo)
            sub.depth = self.depth
            sub.function_models, sub.method_models = self.function_models, self.method_models
            return sub._run(f, f.params(), args, None, fname, with_self=False)
        return self._run(f, f.params(), args, None, fname, with_self=False)

    def call(self, mname: str, args: list, kwargs: dict = None):
        f = self.cls.find_method(mname)
        if f is None:
            raise AnalysisError("%s has no method %s" % (self.cls.name, mname))
        static = any(norm(d) == "staticmethod" for d in f.node.decorator_list)
        if any(norm(d) not in ("staticmethod",) for d in f.node.decorator_list):
            raise AnalysisError("%s.%s is decorated (%s)" % (self.cls.name, mname, [norm(d) for d in f.node.decorator_list]))
        return self._run(f, f.params() if static else f.params()[1:], args, kwargs, "%s.%s" % (self.cls.name, mname), with_self=not static)

    def _run(self, f, params, args, kwargs, label, with_self):
        mname = label
        if self.depth >= self.MAX_DEPTH:
            raise AnalysisError("call depth exceeded in %s" % label)
        a = f.node.args
        if a.vararg or a.kwarg or a.kwonlyargs or len(args) > len(params):
            raise AnalysisError("%s: parameter list not supported" % mname)
        env = {"self": getattr(self, "self_value", None) if getattr(self, "self_value", None) is not None else Opaque("self")} if with_self else {}
        env.update(zip(params, args))
        for k, v in (kwargs or {}).items():
            if k not in params or k in env:
                raise AnalysisError("%s: unexpected keyword %s" % (mname, k))
            env[k] = v
        for p_, d_ in zip(params[len(params) - len(a.defaults):], a.defaults):
            if p_ not in env:
                env[p_] = self.ce.eval(d_, self.mod, None)
        if any(p_ not in env for p_ in params):
            raise AnalysisError("%s: missing argument" % mname)
        self.calls.append(mname)
        self.depth += 1
        saved = self.ce.hook
        is_generator = any(isinstance(x, (ast.Yield, ast.YieldFrom)) for x in walk_no_nested(f.node))
        saved_yielded = self.yielded
        if is_generator and self.depth > 1:
            self.yielded = []          # a generator called by the evaluated code: its items are the value of the call
        try:
            interp = MiniInterp(self.ce, self.mod, guard_hook=self._guard_hook, expr_hook=self._expr_hook, stmt_hook=self._stmt_hook)
            try:
                res = interp.run(f.node.body, env)
            except NotConstant as e:
                raise AnalysisError("%s is not evaluable (%s)" % (mname, e))
        finally:
            self.depth -= 1
            self.ce.hook = saved
            produced = self.yielded
            if is_generator and self.depth >= 1:
                self.yielded = saved_yielded
        if is_generator and self.depth >= 1:
            if res.raised or [e.text for e in res.effects]:
                raise AnalysisError("%s (a generator) is not evaluable" % mname)
            return list(produced)
        if res.raised:
            if getattr(self, "allow_raise", False):
                self.last_raised = res.raised          # the caller looks at the state the method left behind
                return None
            raise AnalysisError("%s raises %s on this input" % (mname, res.raised))
        leftover = [e.text for e in res.effects]
        if leftover:
            raise AnalysisError("%s has effects that are not interpreted: %s" % (mname, leftover[:2]))
        if res.returned and isinstance(res.value, Opaque):
            raise AnalysisError("%s returns an uninterpreted value (%s)" % (mname, res.value.text))
        return res.value if res.returned else None
