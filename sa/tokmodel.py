"""Engine component H: the tokenizer model.

For every state method of HTMLTokenizer and every character atom (128 ASCII code points,
one non-ASCII representative, EOF) -- times the few boolean abstractions a state consults
("appropriate end tag", "temporary buffer is 'script'", "keyword matched") -- the arm taken
is determined by branch partition and its statements are translated into abstract ops:

  ("emit", text)            character token(s); text is a tuple of parts: str | ("bulk", stopset, opposite) | ("tmpbuf",)
  ("error", code)           parse-error token
  ("new", kind, fields)     self.currentToken = {...}
  ("append", field, text)   currentToken[field] += text      field: name | data | publicId | systemId | attrname | attrvalue
  ("set", field, value)     currentToken[field] = value
  ("newattr", text)         currentToken["data"].append([text, ""])
  ("emit-token",)           tokenQueue.append(self.currentToken)
  ("emit-tag",)             self.emitCurrentToken()           (lower-cases, resolves duplicates, -> data state)
  ("tmpbuf-set", text) / ("tmpbuf-append", text)
  ("charref", context, allowed)
  ("skip", set, opposite)   stream.charsUntil(...) as a statement (discarded)
  ("attr-finish",)          attribute name lower-casing + duplicate check when leaving the name state
  ("unget",)                stream.unget(<current atom>)
  ("keyword", ...) / ("bogus-comment",) / ("cdata-section",)   irregular states, see the recognisers

A statement outside this vocabulary is an AnalysisError (exit 2).
"""
from __future__ import annotations

import ast
import re
from typing import Any, Dict, List, Optional, Tuple

from .consteval import ConstEval, NotConstant
from .partition import ATOMS, EOF, NONASCII, MiniInterp, Opaque, atom_name
from .repo import AnalysisError, FuncInfo, Repo, attr_chain, norm

REL = "_tokenizer.py"


# `self.temporaryBuffer[.lower() | .translate(asciiUpper2Lower)] == 'script'` -- group 1 = the case folding, if any
TMP_SCRIPT_RE = re.compile(r"self\.temporaryBuffer(\.lower\(\)|\.translate\(asciiUpper2Lower\))? == 'script'")

class Sym:
    """symbolic string: concatenation of parts"""

    def __init__(self, parts):
        self.parts = tuple(parts)

    def __add__(self, other):
        return Sym(self.parts + _parts(other))

    def __radd__(self, other):
        return Sym(_parts(other) + self.parts)

    def __repr__(self):
        return "Sym%r" % (self.parts,)

    def __eq__(self, other):
        return isinstance(other, Sym) and other.parts == self.parts

    def __hash__(self):
        return hash(self.parts)


def _parts(v):
    if isinstance(v, Sym):
        return v.parts
    if isinstance(v, str):
        return (v,) if v else ()
    raise TypeError("cannot concatenate %r" % (v,))


def text_of(v) -> Tuple:
    """normal form: merged literal parts"""
    parts = _parts(v) if not isinstance(v, tuple) else v
    out: List[Any] = []
    for p in parts:
        if isinstance(p, str) and out and isinstance(out[-1], str):
            out[-1] += p
        else:
            out.append(p)
    return tuple(out)


class Arm:
    def __init__(self):
        self.ops: List[tuple] = []
        self.next: Optional[str] = None      # state switched to (None = stay)
        self.stop = False                    # return False
        self.unget = False                   # current atom given back
        self.reads = 1                       # characters read directly by the arm (0 for the entity wrappers)
        self.line = 0

    def key(self):
        return (tuple(self.ops), self.next, self.stop, self.unget)


class TokenizerModel:
    def __init__(self, repo: Repo, ce: ConstEval):
        self.repo, self.ce = repo, ce
        self.mod = repo.module(REL)
        self.cls = repo.cls(REL, "HTMLTokenizer")
        self.tt = ce.const("constants.py", "tokenTypes")
        self.tt_inv = {v: k for k, v in self.tt.items()}
        self.states: List[str] = []
        self.arms: Dict[Tuple[str, Any, Tuple], Arm] = {}
        self.dims: Dict[str, List[str]] = {}
        self.irregular: Dict[str, str] = {}
        self.idiom_hits: Dict[str, int] = {}
        self.charsuntil_sites: List[Tuple[str, int, frozenset, bool]] = []
        self.appropriate_exprs: Dict[str, ast.AST] = {}
        self.tmp_script_tests: Dict[str, list] = {}
        self.unicode_lower_sites: Dict[tuple, int] = {}
        self._check_emit_current_token()
        self.inlined: Dict[str, FuncInfo] = {}
        for name, m in self.cls.methods.items():
            if self._is_state_method(m):
                self.states.append(name)
            else:
                w = self._inline_wrapper(m)
                if w is not None and self._is_state_method(w):
                    self.inlined[name] = w
                    self.states.append(name)
        if len(self.states) < 60:
            raise AnalysisError("only %d tokenizer state methods recognised" % len(self.states))
        for s in self.states:
            self._extract(s, self.inlined.get(s) or self.cls.methods[s])

    # ------------------------------------------------------------ helpers
    def _is_state_method(self, m: FuncInfo) -> bool:
        if m.name.startswith("_") or len(m.params()) != 1:
            return False
        rets = [n for n in ast.walk(m.node) if isinstance(n, ast.Return)]
        if not rets or not all(isinstance(r.value, ast.Constant) and isinstance(r.value.value, bool) for r in rets):
            return False
        return m.name not in ("emitCurrentToken",)

    def _inline_wrapper(self, m: FuncInfo) -> Optional[FuncInfo]:
        """`def xState(self): return self.helper(e1, ..)` -> the helper's body with its parameters replaced by e1, ..
        (the arguments are attribute reads of self -- states -- or constants, so substitution is sound)"""
        if m.name.startswith("_") or len(m.params()) != 1:
            return None
        body = [s for s in m.node.body if not (isinstance(s, ast.Expr) and isinstance(s.value, ast.Constant))]
        if not (len(body) == 1 and isinstance(body[0], ast.Return) and isinstance(body[0].value, ast.Call)):
            return None
        call = body[0].value
        ch = attr_chain(call.func) or []
        if len(ch) != 2 or ch[0] != m.params()[0] or call.keywords:
            return None
        h = self.cls.methods.get(ch[1])
        if h is None or h is m or len(h.params()) != len(call.args) + 1:
            return None
        if not all(isinstance(a, ast.Constant) or (attr_chain(a) or [""])[0] == m.params()[0] for a in call.args):
            return None
        import copy
        sub = dict(zip(h.params()[1:], call.args))
        if any(isinstance(n, ast.Name) and isinstance(n.ctx, ast.Store) and n.id in sub for n in ast.walk(h.node)):
            return None

        class Sub(ast.NodeTransformer):
            def visit_Name(self, node):
                if isinstance(node.ctx, ast.Load) and node.id in sub:
                    return copy.deepcopy(sub[node.id])
                return node
        node = copy.deepcopy(h.node)
        node.name = m.name
        node.args.args = node.args.args[:1]
        node = Sub().visit(node)
        ast.fix_missing_locations(node)
        out = copy.copy(m)
        out.node = node
        self.idiom_hits["inlined-state-wrapper"] = self.idiom_hits.get("inlined-state-wrapper", 0) + 1
        return out

    def _check_emit_current_token(self):
        f = self.repo.func(REL, "HTMLTokenizer.emitCurrentToken")
        last = f.node.body[-1]
        if not (isinstance(last, ast.Assign) and norm(last) == "self.state = self.dataState"):
            raise AnalysisError("emitCurrentToken no longer ends by switching to the data state")
        if not any(norm(s) == "self.tokenQueue.append(token)" for s in f.node.body):
            raise AnalysisError("emitCurrentToken no longer queues the token unconditionally")

    def short(self, state_method: str) -> str:
        return state_method[:-5] if state_method.endswith("State") else state_method

    # ------------------------------------------------------------ extraction
    def _extract(self, sname: str, m: FuncInfo):
        body = [s for s in m.node.body if not (isinstance(s, ast.Expr) and isinstance(s.value, ast.Constant))]
        src = norm(m.node)
        # irregular states get dedicated recognisers
        if sname == "bogusCommentState":
            return self._bogus_comment(sname, m, body)
        if sname == "markupDeclarationOpenState":
            return self._markup_declaration_open(sname, m, body)
        if sname == "cdataSectionState":
            return self._cdata_section(sname, m, body)
        dims = []
        if "appropriate" in src:
            dims.append("appropriate")
        if TMP_SCRIPT_RE.search(src):
            dims.append("tmp_is_script")
        if "matched" in src:
            dims.append("matched")
        self.dims[sname] = dims
        reads_char = any(isinstance(n, ast.Call) and norm(n.func) == "self.stream.char" for n in ast.walk(m.node))
        atoms = ATOMS if reads_char else [None]
        combos = [()]
        for d in dims:
            combos = [c + (v,) for c in combos for v in (True, False)]
        for atom in atoms:
            for combo in combos:
                extra = dict(zip(dims, combo))
                arm = self._run(sname, m, body, atom, extra, reads_char)
                self.arms[(sname, atom if reads_char else "<none>", combo)] = arm

    def _run(self, sname, m, body, atom, extra, reads_char) -> Arm:
        arm = Arm()
        arm.reads = 1 if reads_char else 0
        model = self
        state = {"chars_read": 0, "last_read_is_current": True}

        def expr_hook(node, env):
            if isinstance(node, ast.Call):
                fn = norm(node.func)
                if fn == "self.stream.char":
                    state["chars_read"] += 1
                    if state["chars_read"] == 1:
                        return atom
                    return Opaque("<later char>")
                if fn == "self.stream.charsUntil":
                    stop, opp = model._charsuntil_args(node, env, sname)
                    return Sym([("bulk", stop, opp)])
            if isinstance(node, ast.Attribute) and norm(node) == "self.temporaryBuffer":
                return Sym([("tmpbuf",)])
            if isinstance(node, ast.Name) and node.id == "appropriate" and "appropriate" in extra:
                return extra["appropriate"]
            return NotImplemented

        def guard_hook(node, env, interp):
            t = norm(node)
            mm = TMP_SCRIPT_RE.fullmatch(t)
            if mm and "tmp_is_script" in extra:
                model.tmp_script_tests.setdefault(sname, []).append((node, bool(mm.group(1))))
                return extra["tmp_is_script"]
            if t == "matched" and "matched" in extra and isinstance(env.get("matched"), Opaque):
                return extra["matched"]
            return NotImplemented

        def stmt_hook(st, out, interp):
            # the `appropriate = ...` prelude
            if isinstance(st, ast.Assign) and norm(st.targets[0]) == "appropriate":
                model.appropriate_exprs[sname] = st.value
                model.idiom_hits["appropriate-prelude"] = model.idiom_hits.get("appropriate-prelude", 0) + 1
                return False
            if isinstance(st, ast.If) and not st.orelse and isinstance(st.test, ast.Call) and norm(st.test.func) == "any" and \
                    len(st.test.args) == 1 and isinstance(st.test.args[0], (ast.GeneratorExp, ast.ListComp)):
                # the duplicate-attribute search written as `if any(<name> == n for n, _ in <earlier>): <parse error>`
                calls = [c for c in ast.walk(ast.Module(body=st.body, type_ignores=[])) if isinstance(c, ast.Call)]
                if calls and all(norm(c.func) == "self.tokenQueue.append" and model._is_error_token(c.args[0]) for c in calls):
                    out.effects.append(_Eff(ast.Expr(value=ast.Constant("dupcheck")), "dupcheck"))
                    return False
            if isinstance(st, ast.For):
                # (a) duplicate-attribute report loop: only parse errors
                calls = [c for c in ast.walk(st) if isinstance(c, ast.Call)]
                if calls and all(norm(c.func) == "self.tokenQueue.append" and model._is_error_token(c.args[0]) for c in calls):
                    out.effects.append(_Eff(ast.Expr(value=ast.Constant("dupcheck")), "dupcheck"))
                    return False
                # (b) keyword loop: for expected in ((..),(..)): data = self.stream.char(); if data not in expected: matched = False; break
                kw = model._keyword_loop(st, sname)
                if kw is not None:
                    out.effects.append(_Eff(ast.Expr(value=ast.Constant(("keyword",) + kw)), "keyword"))
                    out.env["matched"] = Opaque("matched")
                    out.env["data"] = Opaque("<char after keyword prefix>")
                    state["last_read_is_current"] = False
                    return False
                raise AnalysisError("%s: unrecognised loop `%s`" % (sname, norm(st)[:80]))
            return NotImplemented

        interp = MiniInterp(self.ce, self.mod, guard_hook=guard_hook, expr_hook=expr_hook, stmt_hook=stmt_hook)
        res = interp.run(body, {"self": Opaque("self")})
        if not res.returned or not isinstance(res.value, bool):
            raise AnalysisError("%s: arm for %s does not end with return True/False" % (sname, atom_name(atom) if reads_char else "-"))
        arm.stop = res.value is False
        for e in res.effects:
            self._translate(sname, e.node, res.env, arm, atom, state)
        return arm

    def _charsuntil_args(self, call, env, sname):
        try:
            stop = self.ce.eval(call.args[0], self.mod)
        except NotConstant as e:
            raise AnalysisError("%s: charsUntil stop set is not constant (%s)" % (sname, e))
        if isinstance(stop, str):
            stop = frozenset(stop)
        stop = frozenset(stop)
        opp = False
        if len(call.args) > 1:
            opp = bool(self.ce.eval(call.args[1], self.mod))
        for k in call.keywords:
            if k.arg == "opposite":
                opp = bool(self.ce.eval(k.value, self.mod))
        site = (sname, call.lineno, stop, opp)
        if site not in self.charsuntil_sites:
            self.charsuntil_sites.append(site)
        return stop, opp

    def _is_error_token(self, node) -> bool:
        if not isinstance(node, ast.Dict):
            return False
        d = {k.value: v for k, v in zip(node.keys, node.values) if isinstance(k, ast.Constant)}
        try:
            return "type" in d and self.ce.eval(d["type"], self.mod) == self.tt["ParseError"]
        except NotConstant:
            return False

    def _keyword_loop(self, st: ast.For, sname):
        try:
            seq = self.ce.eval(st.iter, self.mod)
        except NotConstant:
            return None
        if not isinstance(seq, (tuple, list)) or not all(isinstance(x, (tuple, list, str)) for x in seq):
            return None
        body = st.body
        if len(body) != 2:
            return None
        read, test = body
        readvar = None
        if isinstance(read, ast.Assign) and norm(read.value) == "self.stream.char()" and isinstance(read.targets[0], ast.Name):
            readvar = read.targets[0].id
            how = "last-only"
        elif isinstance(read, ast.Expr) and norm(read.value) == "charStack.append(self.stream.char())":
            readvar = "charStack[-1]"
            how = "stack"
        else:
            return None
        if not (isinstance(test, ast.If) and not test.orelse and
                ([norm(s) for s in test.body] == ["matched = False", "break"] or
                 ([norm(s) for s in test.body] == ["break"] and st.orelse))):          # flag form / for-else form
            return None
        t = norm(test.test)
        tgt = norm(st.target)
        if t == "%s not in %s" % (readvar, tgt):
            mode = "pairs"
        elif t == "%s != %s" % (readvar, tgt):
            mode = "exact"
        else:
            return None
        self.idiom_hits["keyword-loop"] = self.idiom_hits.get("keyword-loop", 0) + 1
        return (tuple(tuple(x) if not isinstance(x, str) else x for x in seq), mode, how)

    # ------------------------------------------------------------ translation of effects
    def _sym(self, node, env, atom):
        """symbolic value of a string expression inside an effect"""
        saved = self.ce.hook

        def hook(n, local):
            if isinstance(n, ast.Call) and norm(n.func) == "self.stream.charsUntil":
                stop, opp = self._charsuntil_args(n, env, "?")
                return Sym([("bulk", stop, opp)])
            if isinstance(n, ast.Attribute) and norm(n) == "self.temporaryBuffer":
                return Sym([("tmpbuf",)])
            return NotImplemented
        self.ce.hook = hook
        try:
            v = self.ce.eval(node, self.mod, env)
        except NotConstant as e:
            raise AnalysisError("cannot interpret string expression `%s` (%s)" % (norm(node)[:80], e))
        finally:
            self.ce.hook = saved
        if isinstance(v, Opaque):
            raise AnalysisError("string expression `%s` is uninterpreted" % norm(node)[:80])
        if v is None:
            return ("<EOF>",)
        return text_of(v)

    def _translate(self, sname, st, env, arm: Arm, atom, state):
        if isinstance(st, ast.Expr) and isinstance(st.value, ast.Constant):
            v = st.value.value
            if v == "dupcheck":
                arm.ops.append(("attr-dupcheck",))
            elif isinstance(v, tuple) and v[0] == "keyword":
                arm.ops.append(v)
            return
        t = norm(st)
        if isinstance(st, ast.Assign) and len(st.targets) == 1:
            tgt = norm(st.targets[0])
            if tgt == "self.state":
                ch = attr_chain(st.value)
                if not (ch and len(ch) == 2 and ch[0] == "self" and ch[1] in self.cls.methods):
                    raise AnalysisError("%s: state switch to unknown target `%s`" % (sname, norm(st.value)))
                arm.next = ch[1]
                return
            if tgt == "self.currentToken":
                if not isinstance(st.value, ast.Dict):
                    raise AnalysisError("%s: currentToken assigned a non-literal" % sname)
                fields = {}
                kind = None
                for k, v in zip(st.value.keys, st.value.values):
                    kk = k.value
                    if kk == "type":
                        kind = self.tt_inv.get(self.ce.eval(v, self.mod))
                    elif isinstance(v, (ast.List,)) and not v.elts:
                        fields[kk] = "[]"
                    else:
                        vv = self._sym(v, env, atom) if not (isinstance(v, ast.Constant) and not isinstance(v.value, str)) else v.value
                        fields[kk] = vv
                arm.ops.append(("new", kind, tuple(sorted(fields.items(), key=lambda x: x[0]))))
                return
            if tgt == "self.temporaryBuffer":
                arm.ops.append(("tmpbuf-set", self._sym(st.value, env, atom)))
                return
            if tgt.startswith("self.currentToken["):
                field = self._field(st.targets[0], sname)
                value = st.value
                if isinstance(value, ast.Name) and sname in self.cls.methods:
                    # a local that holds the new value (`name = <field>.translate(..)`; `<field> = name`): read its one definition
                    defs = [a for a in ast.walk(self.cls.methods[sname].node) if isinstance(a, ast.Assign) and len(a.targets) == 1 and
                            isinstance(a.targets[0], ast.Name) and a.targets[0].id == value.id]
                    if len(defs) == 1 and defs[0].lineno < st.lineno and tgt in norm(defs[0].value):
                        value = defs[0].value
                st = ast.Assign(targets=st.targets, value=value, lineno=st.lineno)
                if isinstance(st.value, ast.Constant) and not isinstance(st.value.value, str):
                    arm.ops.append(("set", field, st.value.value))
                elif norm(st.value) == "%s.translate(asciiUpper2Lower)" % tgt:
                    arm.ops.append(("lowercase", field))
                elif norm(st.value) in ("%s.lower()" % tgt, "%s.casefold()" % tgt):
                    # Unicode case folding where the standard folds ASCII letters only: judged by C02.6
                    arm.ops.append(("lowercase", field))
                    self.unicode_lower_sites.setdefault((sname, field), st.lineno)
                else:
                    arm.ops.append(("set", field, self._sym(st.value, env, atom)))
                return
        if isinstance(st, ast.AugAssign) and isinstance(st.op, ast.Add):
            tgt = norm(st.target)
            if tgt == "self.temporaryBuffer":
                arm.ops.append(("tmpbuf-append", self._sym(st.value, env, atom)))
                return
            if tgt.startswith("self.currentToken["):
                arm.ops.append(("append", self._field(st.target, sname), self._sym(st.value, env, atom)))
                return
        if isinstance(st, ast.Expr) and isinstance(st.value, ast.Call):
            c = st.value
            fn = norm(c.func)
            if fn == "self.tokenQueue.append":
                a = c.args[0]
                if norm(a) == "self.currentToken":
                    arm.ops.append(("emit-token",))
                    return
                if isinstance(a, ast.Dict):
                    d = {k.value: v for k, v in zip(a.keys, a.values) if isinstance(k, ast.Constant)}
                    kind = self.tt_inv.get(self.ce.eval(d["type"], self.mod))
                    if kind == "ParseError":
                        arm.ops.append(("error", norm(d["data"]).strip("'")))
                        return
                    if kind in ("Characters", "SpaceCharacters"):
                        arm.ops.append(("emit", self._sym(d["data"], env, atom)))
                        return
                    if kind == "Comment":
                        arm.ops.append(("emit-comment", norm(d["data"])))
                        return
                raise AnalysisError("%s: unrecognised token emission `%s`" % (sname, t[:80]))
            if fn == "self.emitCurrentToken":
                arm.ops.append(("emit-tag",))
                arm.next = "dataState"
                return
            if fn == "self.stream.unget":
                if norm(c.args[0]) == "data" and state["last_read_is_current"]:
                    arm.unget = True
                    arm.ops.append(("unget",))
                elif norm(c.args[0]) == "data":
                    arm.ops.append(("unget-last",))
                else:
                    raise AnalysisError("%s: unget of `%s`" % (sname, norm(c.args[0])))
                return
            if fn == "self.stream.charsUntil":
                stop, opp = self._charsuntil_args(c, env, sname)
                arm.ops.append(("skip", stop, opp))
                return
            if fn == "self.processEntityInAttribute":
                # the additional allowed character; "<missing>" when the call does not pass one (judged by R14.6 / R14.7)
                allowed = self.ce.eval(c.args[0], self.mod) if c.args else next(
                    (self.ce.eval(k.value, self.mod) for k in c.keywords if k.arg == "allowedChar"), "<missing>")
                arm.ops.append(("charref", "attribute", allowed))
                return
            if fn == "self.consumeEntity":
                arm.ops.append(("charref", "data", None))
                return
            if fn == "self.currentToken['data'].append" and isinstance(c.args[0], ast.List) and len(c.args[0].elts) == 2:
                arm.ops.append(("newattr", self._sym(c.args[0].elts[0], env, atom)))
                return
        raise AnalysisError("%s: statement outside the tokenizer-op vocabulary: `%s`" % (sname, t[:100]))

    def _field(self, target, sname) -> str:
        t = norm(target)
        table = {
            "self.currentToken['name']": "name", "self.currentToken['data']": "data",
            "self.currentToken['publicId']": "publicId", "self.currentToken['systemId']": "systemId",
            "self.currentToken['correct']": "correct", "self.currentToken['selfClosing']": "selfClosing",
            "self.currentToken['data'][-1][0]": "attrname", "self.currentToken['data'][-1][1]": "attrvalue",
        }
        if t not in table:
            raise AnalysisError("%s: unknown token field `%s`" % (sname, t))
        return table[t]

    # ------------------------------------------------------------ irregular states
    def _bogus_comment(self, sname, m, body):
        want = ["data = self.stream.charsUntil('>')", "data = data.replace('\\x00', '\ufffd')",
                "self.tokenQueue.append({'type': tokenTypes['Comment'], 'data': data})", "self.stream.char()",
                "self.state = self.dataState", "return True"]
        got = [norm(s) for s in body]
        if got != want:
            raise AnalysisError("bogusCommentState is not the recognised idiom: %s" % got)
        self.irregular[sname] = "bogus-comment"
        self.idiom_hits["bogus-comment"] = 1
        self.charsuntil_sites.append((sname, body[0].lineno, frozenset(">"), False))
        arm = Arm()
        arm.ops = [("bogus-comment",)]
        arm.next = "dataState"
        arm.reads = 0            # may read nothing but the terminator (which is EOF-safe)
        self.arms[(sname, "<none>", ())] = arm
        self.dims[sname] = []

    def _markup_declaration_open(self, sname, m, body):
        """`--` -> comment start; DOCTYPE (case-insensitive) -> doctype; `[CDATA[` when the current node is foreign;
        otherwise all consumed characters are ungot in reverse order and the bogus comment state is entered."""
        src = norm(m.node)

        def arm_first_chars(target_state):
            """the first characters (atoms) for which the top-level if-chain enters the arm that can switch to target_state"""
            chain = next((s for s in body if isinstance(s, ast.If)), None)
            interp = MiniInterp(self.ce, self.mod)
            while isinstance(chain, ast.If):
                if any(isinstance(x, ast.Assign) and norm(x) == "self.state = self.%s" % target_state for x in ast.walk(ast.Module(body=chain.body, type_ignores=[]))):
                    # only the conjuncts that look at the character just read decide the arm's first character
                    tests = chain.test.values if isinstance(chain.test, ast.BoolOp) and isinstance(chain.test.op, ast.And) else [chain.test]
                    tests = [t for t in tests if "charStack" in norm(t)]
                    try:
                        return {a for a in ATOMS if isinstance(a, str) and all(interp.eval_guard(t, {"charStack": [a]}) for t in tests)}
                    except AnalysisError:
                        return None
                chain = chain.orelse[0] if len(chain.orelse) == 1 else None
            return None
        facts = {
            "reads-first": norm(body[0]) == "charStack = [self.stream.char()]",
            "dash-dash": arm_first_chars("commentStartState") == {"-"},
            "doctype-first": arm_first_chars("doctypeState") == {"d", "D"},
            "cdata-guard": self._cdata_guard(body),
            "unget-all": "while charStack: self.stream.unget(charStack.pop())" in " ".join(src.split()),
            "fallback": "self.state = self.bogusCommentState" in src,
        }
        kws = []
        for n in ast.walk(m.node):
            if isinstance(n, ast.For):
                kw = self._keyword_loop(n, sname)
                if kw is None:
                    raise AnalysisError("markupDeclarationOpenState: unrecognised loop")
                kws.append(kw)
        bad = [k for k, v in facts.items() if not v]
        if bad:
            raise AnalysisError("markupDeclarationOpenState is not the recognised idiom (missing: %s)" % bad)
        new_tokens = {}
        for n in ast.walk(m.node):
            if isinstance(n, ast.Assign) and norm(n.targets[0]) == "self.currentToken" and isinstance(n.value, ast.Dict):
                d = {k.value: v for k, v in zip(n.value.keys, n.value.values)}
                kind = self.tt_inv.get(self.ce.eval(d["type"], self.mod))
                new_tokens[kind] = {k: norm(v) for k, v in d.items() if k != "type"}
        self.irregular[sname] = "markup-declaration-open"
        self.idiom_hits["markup-declaration-open"] = 1
        arm = Arm()
        arm.ops = [("markup-declaration-open", tuple(kws), tuple(sorted((k, tuple(sorted(v.items()))) for k, v in new_tokens.items())))]
        # the only non-consuming exit: everything read is given back and the bogus comment state is entered
        arm.next = "bogusCommentState"
        arm.unget = True
        arm.reads = 1
        self.arms[(sname, "<none>", ())] = arm
        self.dims[sname] = []
        self.mdo = {"keywords": kws, "new_tokens": new_tokens}

    def _cdata_guard(self, body) -> bool:
        """the arm that enters the CDATA section state: `[` read, a parser with a non-empty stack, and a comparison of the current
        node's namespace with *something* -- what it is compared with is recorded for C02.4 to judge"""
        self.cdata_guard = None
        chain = next((s for s in body if isinstance(s, ast.If)), None)
        while isinstance(chain, ast.If):
            if any(isinstance(x, ast.Assign) and norm(x) == "self.state = self.cdataSectionState"
                   for x in ast.walk(ast.Module(body=chain.body, type_ignores=[]))):
                tests = chain.test.values if isinstance(chain.test, ast.BoolOp) and isinstance(chain.test.op, ast.And) else [chain.test]
                txt = [norm(t) for t in tests]
                # a conjunct `self.<helper>()`: the helper's own tests are read in its place
                helper_src = ""
                expanded = []
                for t in tests:
                    if isinstance(t, ast.Call) and isinstance(t.func, ast.Attribute) and norm(t.func.value) == "self" and not t.args and \
                            t.func.attr in self.cls.methods:
                        h = self.cls.methods[t.func.attr]
                        helper_src += " " + " ".join(norm(h.node).split())
                        expanded += [x for x in ast.walk(h.node) if isinstance(x, ast.Compare)]
                    else:
                        expanded.append(t)
                ns = [t for t in expanded if isinstance(t, ast.Compare) and len(t.ops) == 1 and isinstance(t.ops[0], (ast.NotEq, ast.IsNot))
                      and norm(t.left) in ("self.parser.tree.openElements[-1].namespace", "self.parser.tree.defaultNamespace")]
                has_parser = "self.parser is not None" in txt or "self.parser is None" in helper_src or "self.parser is not None" in helper_src
                has_stack = "self.parser.tree.openElements" in txt or "bool(self.parser.tree.openElements)" in helper_src or \
                    "not self.parser.tree.openElements" in helper_src or "self.parser.tree.openElements and" in helper_src
                if not ("charStack[-1] == '['" in txt and has_parser and has_stack and len(ns) == 1):
                    return False
                other = ns[0].comparators[0] if norm(ns[0].left).endswith(".namespace") else ns[0].left
                if norm(other) == "self.parser.tree.openElements[-1].namespace":
                    other = ns[0].left
                try:
                    const = self.ce.eval(other, self.mod)
                except NotConstant:
                    const = "<not constant>"
                self.cdata_guard = {"line": chain.lineno, "compared_with": norm(other),
                                    "constant": const if isinstance(const, (str, type(None))) else "<not constant>"}
                return True
            chain = chain.orelse[0] if len(chain.orelse) == 1 else None
        return False

    def _cdata_section(self, sname, m, body):
        src = " ".join(norm(m.node).split())
        facts = {
            "scan": "data.append(self.stream.charsUntil(']'))" in src and "data.append(self.stream.charsUntil('>'))" in src,
            "terminator": "if data[-1][-2:] == ']]':" in src and "data[-1] = data[-1][:-2]" in src,
            "eof": "if char == EOF: break" in src,
            "nul": "data = data.replace('\\x00', '\ufffd')" in src,
            "emit": "self.tokenQueue.append({'type': tokenTypes['Characters'], 'data': data})" in src,
            "to-data": "self.state = self.dataState" in src,
        }
        # the EOF exit is judged by C03.3 (a missing one is a violation: tokenization never ends); anything else
        # missing means the recogniser does not understand the state
        self.cdata_eof_exit = facts.pop("eof") or any(
            isinstance(n, ast.If) and "EOF" in norm(n.test) and any(isinstance(x, ast.Break) for x in n.body) for n in ast.walk(m.node))
        self.cdata_nul_replaced = facts.pop("nul")          # judged by C02.4 (the standard leaves NUL to tree construction)
        bad = [k for k, v in facts.items() if not v]
        # the terminator: `if <last piece ends with ]]>: <last piece> = <last piece without the two brackets>; break`
        self.cdata_terminator = None
        for n in ast.walk(m.node):
            if isinstance(n, ast.If) and "']]'" in norm(n.test) and n.body and isinstance(n.body[-1], ast.Break):
                strips = [x for x in n.body if isinstance(x, ast.Assign) and norm(x.targets[0]) == "data[-1]"]
                t, s_ = norm(n.test), (norm(strips[0].value) if strips else None)
                self.cdata_terminator = {
                    "line": n.lineno, "test": t, "strip": s_,
                    "test_ok": t in ("data[-1][-2:] == ']]'", "data[-1].endswith(']]')"),
                    "strip_ok": s_ == "data[-1][:-2]",
                    "strip_wrong": s_ is None or "strip(" in (s_ or "") or
                    (s_.startswith("data[-1][:-") and s_.endswith("]") and s_ != "data[-1][:-2]")}
        if bad and not (bad == ["terminator"] and self.cdata_terminator is not None):
            raise AnalysisError("cdataSectionState is not the recognised idiom (missing: %s)" % bad)
        self.irregular[sname] = "cdata-section"
        self.idiom_hits["cdata-section"] = 1
        arm = Arm()
        arm.ops = [("cdata-section",)]
        arm.next = "dataState"
        arm.reads = 1
        self.arms[(sname, "<none>", ())] = arm
        self.dims[sname] = []

    # ------------------------------------------------------------ views
    def arm(self, sname, atom, combo=()) -> Arm:
        k = (sname, atom, combo)
        if k in self.arms:
            return self.arms[k]
        k = (sname, "<none>", combo)
        if k in self.arms:
            return self.arms[k]
        raise KeyError((sname, atom, combo))

    def combos(self, sname):
        out = [()]
        for d in self.dims.get(sname, []):
            out = [c + (v,) for c in out for v in (True, False)]
        return out

    def reads_char(self, sname) -> bool:
        return (sname, "<none>", self.combos(sname)[0]) not in self.arms


class _Eff:
    def __init__(self, node, text):
        self.node, self.text = node, text
