"""Engine component A: the repository model.

Parses every module the package ships and exposes modules, classes (including
classes nested in factory functions), a single-inheritance MRO, methods and
class-level assignments.  No html5lib code is imported or executed.
"""
from __future__ import annotations

import ast
import hashlib
import os
from typing import Dict, Iterator, List, Optional, Tuple


class AnalysisError(Exception):
    """The analysis cannot be carried out on this source (fail closed, exit 2)."""


REPO = os.environ.get("VERIF_REPO", "/repo")

# modules that are parsed for syntax and listed, but no rule resolves into them
# (their third-party dependencies are absent; no property names them)
UNRULED = {"treebuilders/etree_lxml.py", "treewalkers/etree_lxml.py",
           "treewalkers/genshi.py", "treeadapters/genshi.py"}


def unparse(node) -> str:
    return ast.unparse(node)


def norm(node) -> str:
    """Normalised statement text (used in finding keys instead of line numbers)."""
    s = ast.unparse(node)
    return " ".join(s.split())


class FuncInfo:
    def __init__(self, module: "ModuleInfo", node, cls: Optional["ClassInfo"], qual: str):
        self.module = module
        self.node = node
        self.cls = cls
        self.name = node.name
        self.qual = qual          # e.g. "InBodyPhase.startTagA"

    @property
    def where(self) -> str:
        return "%s:%d" % (self.module.rel, self.node.lineno)

    @property
    def fq(self) -> str:
        return "%s::%s" % (self.module.rel, self.qual)

    def params(self) -> List[str]:
        a = self.node.args
        return [x.arg for x in a.posonlyargs + a.args]

    def __repr__(self):
        return "<Func %s>" % self.fq


class ClassInfo:
    def __init__(self, module: "ModuleInfo", node: ast.ClassDef, qual: str, outer_func=None):
        self.module = module
        self.node = node
        self.name = node.name
        self.qual = qual
        self.outer_func = outer_func     # enclosing factory function name, if any
        self.methods: Dict[str, FuncInfo] = {}
        self.assigns: Dict[str, ast.AST] = {}      # class-level simple assignments
        self.assign_nodes: List[ast.stmt] = []
        self.base_exprs = [unparse(b) for b in node.bases]
        self.bases: List["ClassInfo"] = []         # resolved repository bases
        for st in node.body:
            if isinstance(st, (ast.FunctionDef, ast.AsyncFunctionDef)):
                self.methods[st.name] = FuncInfo(module, st, self, "%s.%s" % (qual, st.name))
            elif isinstance(st, ast.Assign):
                self.assign_nodes.append(st)
                for t in st.targets:
                    if isinstance(t, ast.Name):
                        self.assigns[t.id] = st.value
            elif isinstance(st, ast.AnnAssign) and isinstance(st.target, ast.Name) and st.value:
                self.assigns[st.target.id] = st.value

    @property
    def where(self) -> str:
        return "%s:%d" % (self.module.rel, self.node.lineno)

    def mro(self) -> List["ClassInfo"]:
        out, seen, cur = [], set(), [self]
        while cur:
            c = cur.pop(0)
            if id(c) in seen:
                continue
            seen.add(id(c))
            out.append(c)
            cur = c.bases + cur
        return out

    def find_method(self, name: str) -> Optional[FuncInfo]:
        for c in self.mro():
            if name in c.methods:
                return c.methods[name]
        return None

    def find_assign(self, name: str):
        for c in self.mro():
            if name in c.assigns:
                return c, c.assigns[name]
        return None, None

    def is_subclass_of(self, other: "ClassInfo") -> bool:
        return any(c is other for c in self.mro())

    def __repr__(self):
        return "<Class %s::%s>" % (self.module.rel, self.qual)


class ModuleInfo:
    def __init__(self, rel: str, path: str, source: Optional[str] = None):
        self.rel = rel                    # path relative to html5lib/, e.g. "filters/sanitizer.py"
        self.path = path
        if source is not None:
            raw = source.encode("utf-8")
        else:
            with open(path, "rb") as f:
                raw = f.read()
        self.sha256 = hashlib.sha256(raw).hexdigest()
        self.source = raw.decode("utf-8")
        try:
            self.tree = ast.parse(self.source, filename=path)
        except SyntaxError as e:
            raise AnalysisError("cannot parse %s: %s" % (rel, e))
        # locals are brought back to their canonical names by role (sa/localroles.py): no rule depends on what a local is called
        from .localroles import canonicalise, canonical_comparisons
        # locals that merely name a long-lived holder object (`tree = self.tree`, `parser = self.parser`) are written out
        self.aliases_inlined = inline_stable_aliases(self.tree) if not os.environ.get("VERIF_NO_ALIAS_INLINE") else 0
        # `self.a, self.b = x, y` is read as the two assignments it abbreviates (when that is the same program)
        self.parallel_split = split_parallel_assignments(self.tree) if not os.environ.get("VERIF_NO_PARALLEL_SPLIT") else 0
        # `x = a if c else b` / `return a if c else b` are read as the if / else statement they abbreviate
        self.ifexp_lowered = lower_conditional_statements(self.tree) if not os.environ.get("VERIF_NO_IFEXP_LOWERING") else 0
        self.comparisons_mirrored = canonical_comparisons(self.tree) if not os.environ.get("VERIF_NO_CANON") else 0
        self.locals_renamed = canonicalise(self.tree, rel)
        self.lines = self.source.splitlines()
        self.functions: Dict[str, FuncInfo] = {}
        self.classes: Dict[str, ClassInfo] = {}
        self.all_classes: List[ClassInfo] = []
        self.all_functions: List[FuncInfo] = []
        self.imports: Dict[str, Tuple[str, Optional[str]]] = {}  # local name -> (module, attr|None)
        self.assign_nodes: List[ast.stmt] = []
        self._index()

    # dotted package name, e.g. "html5lib.filters.sanitizer"
    @property
    def dotted(self) -> str:
        p = self.rel[:-3].replace("/", ".")
        if p.endswith("__init__"):
            p = p[:-9]
        return ("html5lib." + p).rstrip(".")

    def _index(self):
        pkg = self.dotted if self.rel.endswith("__init__.py") else self.dotted.rsplit(".", 1)[0]

        def resolve_from(level, module):
            if level == 0:
                return module or ""
            base = pkg.split(".")
            if level > 1:
                base = base[:-(level - 1)]
            return ".".join(base + ([module] if module else []))

        def visit_body(body, outer_func=None, prefix=""):
            for st in body:
                if isinstance(st, ast.Import):
                    for a in st.names:
                        self.imports[a.asname or a.name.split(".")[0]] = (a.name, None)
                elif isinstance(st, ast.ImportFrom):
                    mod = resolve_from(st.level, st.module)
                    for a in st.names:
                        self.imports[a.asname or a.name] = (mod, a.name)
                elif isinstance(st, (ast.FunctionDef, ast.AsyncFunctionDef)):
                    fi = FuncInfo(self, st, None, prefix + st.name)
                    if outer_func is None:
                        self.functions[st.name] = fi
                    self.all_functions.append(fi)
                    # classes / functions nested in factory functions
                    visit_body(st.body, outer_func=st.name, prefix=prefix + st.name + ".")
                elif isinstance(st, ast.ClassDef):
                    ci = ClassInfo(self, st, prefix + st.name, outer_func)
                    if outer_func is None:
                        self.classes[st.name] = ci
                    self.all_classes.append(ci)
                    self.all_functions.extend(ci.methods.values())
                elif isinstance(st, (ast.Assign, ast.AugAssign, ast.AnnAssign)) and outer_func is None:
                    self.assign_nodes.append(st)
                elif isinstance(st, (ast.If, ast.Try)) and outer_func is None:
                    # imports / defs under `if PY3:` or try/except at module level
                    for sub in ast.iter_child_nodes(st):
                        pass
                    bodies = [getattr(st, "body", []), getattr(st, "orelse", []),
                              getattr(st, "finalbody", [])]
                    for h in getattr(st, "handlers", []):
                        bodies.append(h.body)
                    for b in bodies:
                        visit_body(b, outer_func, prefix)

        visit_body(self.tree.body)

    def find_class(self, qual: str) -> Optional[ClassInfo]:
        for c in self.all_classes:
            if c.qual == qual or c.name == qual:
                return c
        return None


class Repo:
    def __init__(self, root: Optional[str] = None, overlay: Optional[Dict[str, str]] = None):
        self.root = root or REPO
        self.overlay = overlay or {}
        self.pkg = os.path.join(self.root, "html5lib")
        if not os.path.isdir(self.pkg):
            raise AnalysisError("package directory %s not found" % self.pkg)
        self.modules: Dict[str, ModuleInfo] = {}
        for dirpath, dirnames, filenames in os.walk(self.pkg):
            dirnames[:] = sorted(d for d in dirnames if d not in ("tests", "__pycache__"))
            for fn in sorted(filenames):
                if fn.endswith(".py"):
                    path = os.path.join(dirpath, fn)
                    rel = os.path.relpath(path, self.pkg)
                    self.modules[rel] = ModuleInfo(rel, path, self.overlay.get(rel))
        self.by_dotted = {m.dotted: m for m in self.modules.values()}
        self._resolve_bases()

    # ---------------------------------------------------------------- lookup
    def module(self, rel: str) -> ModuleInfo:
        if rel not in self.modules:
            raise AnalysisError("anchor module html5lib/%s vanished" % rel)
        return self.modules[rel]

    def cls(self, rel: str, qual: str) -> ClassInfo:
        c = self.module(rel).find_class(qual)
        if c is None:
            raise AnalysisError("anchor class %s in html5lib/%s vanished" % (qual, rel))
        return c

    def func(self, rel: str, qual: str) -> FuncInfo:
        m = self.module(rel)
        if "." in qual:
            cq, name = qual.rsplit(".", 1)
            c = m.find_class(cq)
            if c is not None:
                f = c.find_method(name)
                if f is not None:
                    return f
        for f in m.all_functions:
            if f.qual == qual:
                return f
        raise AnalysisError("anchor function %s in html5lib/%s vanished" % (qual, rel))

    def all_functions(self, include_unruled=False) -> Iterator[FuncInfo]:
        for rel, m in self.modules.items():
            if rel in UNRULED and not include_unruled:
                continue
            for f in m.all_functions:
                yield f

    def resolve_import(self, module: ModuleInfo, name: str):
        """Resolve a local name of `module` to (ModuleInfo, attr|None) in the repo."""
        if name not in module.imports:
            return None
        mod, attr = module.imports[name]
        if attr is None:
            return (self.by_dotted.get(mod), None) if mod in self.by_dotted else None
        full = mod + "." + attr
        if full in self.by_dotted:          # `from . import base`
            return (self.by_dotted[full], None)
        if mod in self.by_dotted:
            return (self.by_dotted[mod], attr)
        return None

    def _resolve_bases(self):
        for m in self.modules.values():
            for c in m.all_classes:
                for b in c.node.bases:
                    target = None
                    if isinstance(b, ast.Name):
                        # same module (sibling nested class or top-level class), else import
                        for c2 in m.all_classes:
                            if c2.name == b.id and c2 is not c and c2.outer_func in (c.outer_func, None):
                                target = c2
                                if c2.outer_func == c.outer_func:
                                    break
                        if target is None:
                            r = self.resolve_import(m, b.id)
                            if r and r[0] is not None and r[1]:
                                target = r[0].classes.get(r[1])
                    elif isinstance(b, ast.Attribute) and isinstance(b.value, ast.Name):
                        r = self.resolve_import(m, b.value.id)
                        if r and r[0] is not None and r[1] is None:
                            target = r[0].classes.get(b.attr)
                    if target is not None:
                        c.bases.append(target)

    def digests(self, rels=None) -> Dict[str, str]:
        return {("html5lib/" + r): m.sha256[:16] for r, m in sorted(self.modules.items())
                if rels is None or r in rels}


# ------------------------------------------------------------------ helpers
def walk_no_nested(node) -> Iterator[ast.AST]:
    """ast.walk that does not descend into nested function/class definitions."""
    stack = list(ast.iter_child_nodes(node))
    while stack:
        n = stack.pop()
        yield n
        if isinstance(n, (ast.FunctionDef, ast.AsyncFunctionDef, ast.ClassDef, ast.Lambda)):
            continue
        stack.extend(ast.iter_child_nodes(n))


def calls_in(node) -> Iterator[ast.Call]:
    for n in walk_no_nested(node):
        if isinstance(n, ast.Call):
            yield n


def attr_chain(node) -> Optional[List[str]]:
    """`self.parser.tree.openElements` -> ['self','parser','tree','openElements'];
    subscripts with a constant string key are rendered as name["k"]."""
    parts: List[str] = []
    while True:
        if isinstance(node, ast.Attribute):
            parts.append(node.attr)
            node = node.value
        elif isinstance(node, ast.Name):
            parts.append(node.id)
            break
        elif (isinstance(node, ast.Subscript) and isinstance(node.slice, ast.Constant)
              and isinstance(node.slice.value, str)):
            parts.append('["%s"]' % node.slice.value)
            node = node.value
        else:
            return None
    parts.reverse()
    out: List[str] = []
    for p in parts:
        if p.startswith("[") and out:
            out[-1] += p
        else:
            out.append(p)
    return out


def set_parents(tree):
    for n in ast.walk(tree):
        for ch in ast.iter_child_nodes(n):
            ch._parent = n  # type: ignore[attr-defined]


def inline_simple_calls(mod: "ModuleInfo", expr: ast.AST, depth: int = 2, cls: "ClassInfo" = None) -> ast.AST:
    """Copy of `expr` in which every call `h(a1, .., an)` of a module-level function whose body is a single
    `return E` (positional parameters only, no defaults used) is replaced by E[params := arguments].  The arguments
    must be side-effect-free names / attribute reads / subscripts / constants (each parameter may then be duplicated)."""
    import copy

    def simple(a):
        return all(isinstance(x, (ast.Name, ast.Attribute, ast.Subscript, ast.Constant, ast.Load, ast.Tuple, ast.Index))
                   for x in ast.walk(a))

    class Inl(ast.NodeTransformer):
        def visit_Call(self, node):
            self.generic_visit(node)
            h, offset = None, 0
            if isinstance(node.func, ast.Name) and not node.keywords and all(simple(a) for a in node.args):
                h = mod.functions.get(node.func.id)
            elif cls is not None and isinstance(node.func, ast.Attribute) and isinstance(node.func.value, ast.Name) and \
                    node.func.value.id == "self" and not node.keywords and all(simple(a) for a in node.args):
                h, offset = cls.find_method(node.func.attr), 1          # self.m(args): a one-line method of the same class
            if h is not None:
                if len(h.params()) - offset == len(node.args) and not h.node.args.vararg and not h.node.args.kwarg:
                    body = [s for s in h.node.body if not (isinstance(s, ast.Expr) and isinstance(s.value, ast.Constant))]
                    if len(body) == 1 and isinstance(body[0], ast.Return) and body[0].value is not None:
                        m = dict(zip(h.params()[offset:], node.args))

                        class Sub(ast.NodeTransformer):
                            def visit_Name(self, n):
                                return copy.deepcopy(m[n.id]) if n.id in m and isinstance(n.ctx, ast.Load) else n
                        out = Sub().visit(copy.deepcopy(body[0].value))
                        return ast.copy_location(out, node)
            return node
    out = copy.deepcopy(expr)
    for _ in range(depth):
        out = Inl().visit(out)
    ast.fix_missing_locations(out)
    return out


def rename_locals(func_node: ast.AST, mapping: Dict[str, str]) -> ast.AST:
    """Deep copy of a function in which the local names in `mapping` are replaced (positions kept).  Used to bring a
    function whose locals were discovered *by role* (what they are initialised from / how they are used) back to the
    canonical names the rules are written in, so that no rule depends on what a local happens to be called."""
    import copy
    node = copy.deepcopy(func_node)
    if not mapping or all(k == v for k, v in mapping.items()):
        return node
    clash = set(mapping.values()) - set(mapping)
    present = {n.id for n in ast.walk(node) if isinstance(n, ast.Name)}
    if clash & present:
        raise AnalysisError("cannot canonicalise locals: %s already used for something else" % sorted(clash & present))
    for n in ast.walk(node):
        if isinstance(n, ast.Name) and n.id in mapping:
            n.id = mapping[n.id]
    return node


def discover_locals(func_node: ast.AST, roles) -> Dict[str, str]:
    """roles: [(canonical name, predicate(stmt) -> Optional[actual name])]; each predicate is tried on every statement
    (and every For target) of the function, first hit wins.  -> {actual: canonical} for the roles found."""
    out: Dict[str, str] = {}
    for canon, pred in roles:
        for st in ast.walk(func_node):
            if isinstance(st, (ast.Assign, ast.AugAssign, ast.For)):
                got = pred(st)
                if got:
                    if got not in out:
                        out[got] = canon
                    break
    return out


def membership_test(test: ast.AST, evaluate):
    """`x in (c1, .., cn)` or `x == c1 or .. or x == cn` -> (text of x, frozenset of the constants); else None.
    `evaluate(node)` returns the constant value of a node or raises / returns None."""
    def val(n):
        try:
            return evaluate(n)
        except Exception:       # noqa: BLE001
            return None
    if isinstance(test, ast.Compare) and len(test.ops) == 1 and isinstance(test.ops[0], ast.In):
        v = val(test.comparators[0])
        if isinstance(v, (tuple, list, set, frozenset)):
            return norm(test.left), frozenset(v)
    if isinstance(test, ast.Compare) and len(test.ops) == 1 and isinstance(test.ops[0], ast.Eq):
        v = val(test.comparators[0])
        if v is not None:
            return norm(test.left), frozenset([v])
    if isinstance(test, ast.BoolOp) and isinstance(test.op, ast.Or):
        parts = [membership_test(t, evaluate) for t in test.values]
        if all(p is not None for p in parts) and len({p[0] for p in parts}) == 1:
            return parts[0][0], frozenset().union(*[p[1] for p in parts])
    return None


def lower_conditional_statements(tree: ast.AST) -> int:
    """In place: an assignment or return whose whole value is a conditional expression becomes the if / else statement with the
    same meaning (`t = a if c else b` -> `if c: t = a` / `else: t = b`), when the targets are plain names or attribute chains
    (so evaluating the target before or after the condition makes no difference).  Rules written for statements then see both
    spellings alike.  Returns the number of statements rewritten."""
    import copy
    count = [0]

    def simple_target(t):
        return isinstance(t, ast.Name) or (isinstance(t, ast.Attribute) and attr_chain(t) is not None and not any("[" in a or "(" in a for a in attr_chain(t)))

    def lower(st):
        v = getattr(st, "value", None)
        if not isinstance(v, ast.IfExp):
            return None
        if isinstance(st, ast.Assign) and all(simple_target(t) for t in st.targets):
            mk = lambda val: ast.copy_location(ast.Assign(targets=copy.deepcopy(st.targets), value=val, type_comment=None), st)  # noqa: E731
        elif isinstance(st, ast.Return):
            mk = lambda val: ast.copy_location(ast.Return(value=val), st)  # noqa: E731
        else:
            return None
        count[0] += 1
        return ast.copy_location(ast.If(test=v.test, body=[mk(v.body)], orelse=[mk(v.orelse)]), st)

    def walk_body(body):
        for i, st in enumerate(body):
            for field in ("body", "orelse", "finalbody"):
                sub = getattr(st, field, None)
                if isinstance(sub, list) and sub and isinstance(sub[0], ast.stmt):
                    walk_body(sub)
            for h in getattr(st, "handlers", []) or []:
                walk_body(h.body)
            new = lower(st)
            if new is not None:
                body[i] = new
                walk_body(new.body)
                walk_body(new.orelse)
            # `if not c: A else: B` (a plain two-armed if, not an elif chain) is read as `if c: B else: A`
            st = body[i]
            if isinstance(st, ast.If) and st.orelse and isinstance(st.test, ast.UnaryOp) and isinstance(st.test.op, ast.Not) and \
                    not (len(st.orelse) == 1 and isinstance(st.orelse[0], ast.If)) and not os.environ.get("VERIF_NO_POLARITY"):
                st.test = st.test.operand
                st.body, st.orelse = st.orelse, st.body
                count[0] += 1
    walk_body(tree.body)
    if count[0]:
        ast.fix_missing_locations(tree)
    return count[0]


def split_parallel_assignments(tree: ast.AST) -> int:
    """In place: `a.x, b = v1, v2` becomes `a.x = v1` / `b = v2` when that is the same program: the targets are plain names or
    attribute chains, at least one of them an attribute (pure name swaps and unpackings are left alone), no later value reads an
    earlier target, and a later value contains no call other than a constructor-like `Name(..)` whose arguments mention no target.
    Rules that collect the attribute stores of a function then see both spellings alike.  Returns the number rewritten."""
    count = [0]

    def simple_target(t):
        return isinstance(t, ast.Name) or (isinstance(t, ast.Attribute) and attr_chain(t) is not None and not any("[" in a or "(" in a for a in attr_chain(t)))

    def splittable(st):
        if not (isinstance(st, ast.Assign) and len(st.targets) == 1 and isinstance(st.targets[0], ast.Tuple) and isinstance(st.value, ast.Tuple)):
            return False
        ts, vs = st.targets[0].elts, st.value.elts
        if len(ts) != len(vs) or not all(simple_target(t) for t in ts) or not any(isinstance(t, ast.Attribute) for t in ts):
            return False
        if any(isinstance(v, ast.Starred) for v in vs):
            return False
        tnames = [unparse(t) for t in ts]
        roots = {(attr_chain(t) or [unparse(t)])[0] for t in ts}
        for j, v in enumerate(vs):
            if j == 0:
                continue
            txt = unparse(v)
            if any(tn in txt for tn in tnames[:j]):
                return False
            for c in ast.walk(v):
                if isinstance(c, ast.Call):
                    if not isinstance(c.func, ast.Name):
                        return False
                    if any(isinstance(x, ast.Name) and x.id in roots for a in list(c.args) + [k.value for k in c.keywords] for x in ast.walk(a)):
                        return False
        return True

    def walk_body(body):
        i = 0
        while i < len(body):
            st = body[i]
            for field in ("body", "orelse", "finalbody"):
                sub = getattr(st, field, None)
                if isinstance(sub, list) and sub and isinstance(sub[0], ast.stmt):
                    walk_body(sub)
            for h in getattr(st, "handlers", []) or []:
                walk_body(h.body)
            if splittable(st):
                parts = [ast.copy_location(ast.Assign(targets=[t], value=v, type_comment=None), st) for t, v in zip(st.targets[0].elts, st.value.elts)]
                body[i:i + 1] = parts
                count[0] += 1
                i += len(parts)
                continue
            i += 1
    walk_body(tree.body)
    if count[0]:
        ast.fix_missing_locations(tree)
    return count[0]


_RESET_LIKE = ("__init__", "reset", "_parse")


def inline_stable_aliases(tree: ast.AST) -> int:
    """In place: a local assigned exactly once, at the top level of its function, from a chain `self.a` / `self.a.b` whose
    attributes are *stable in this module* -- never stored to outside __init__ / reset / _parse, whatever the receiver -- is
    replaced by the chain wherever it is read.  `tree = self.tree; tree.insertElement(t)` thus reads `self.tree.insertElement(t)`
    for every rule.  A local that snapshots state (`framesetOK = self.parser.framesetOK`, `originalPhase = self.parser.phase`)
    is left alone: its attribute is stored to by the handlers, so the copy and the chain can differ.  Returns the number of
    aliases written out."""
    import copy
    unstable = set()
    funcs = [n for n in ast.walk(tree) if isinstance(n, (ast.FunctionDef, ast.AsyncFunctionDef))]
    for fn in funcs:
        if fn.name in _RESET_LIKE:
            continue
        for n in ast.walk(fn):
            tg = []
            if isinstance(n, ast.Assign):
                tg = n.targets
            elif isinstance(n, (ast.AugAssign, ast.AnnAssign)):
                tg = [n.target]
            elif isinstance(n, ast.Delete):
                tg = n.targets
            elif isinstance(n, (ast.For, ast.comprehension)):
                tg = [n.target]
            elif isinstance(n, ast.With):
                tg = [i.optional_vars for i in n.items if i.optional_vars is not None]
            for t in tg:
                for x in ast.walk(t):
                    if isinstance(x, ast.Attribute) and isinstance(x.ctx, (ast.Store, ast.Del)):
                        unstable.add(x.attr)
            if isinstance(n, ast.Call) and isinstance(n.func, ast.Name) and n.func.id in ("setattr", "delattr"):
                return 0            # attributes written by name: nothing is known to be stable
    done = 0
    for fn in funcs:
        params = {a.arg for a in fn.args.args + fn.args.kwonlyargs + getattr(fn.args, "posonlyargs", [])}
        if fn.args.vararg:
            params.add(fn.args.vararg.arg)
        if fn.args.kwarg:
            params.add(fn.args.kwarg.arg)
        if not fn.args.args or fn.args.args[0].arg != "self":
            continue
        stores = {}
        for n in ast.walk(fn):
            if isinstance(n, ast.Name) and isinstance(n.ctx, (ast.Store, ast.Del)):
                stores[n.id] = stores.get(n.id, 0) + 1
            elif isinstance(n, (ast.Global, ast.Nonlocal)):
                for nm in n.names:
                    stores[nm] = 99
        alias = {}
        for st in fn.body:
            if isinstance(st, ast.Assign) and len(st.targets) == 1 and isinstance(st.targets[0], ast.Name) and \
                    stores.get(st.targets[0].id) == 1 and st.targets[0].id not in params and isinstance(st.value, ast.Attribute):
                ch = attr_chain(st.value)
                if ch and ch[0] == "self" and 2 <= len(ch) <= 4 and not any(a in unstable or "[" in a for a in ch[1:]):
                    alias[st.targets[0].id] = st.value
        if not alias:
            continue

        class T(ast.NodeTransformer):
            def visit_Name(self, n):
                if isinstance(n.ctx, ast.Load) and n.id in alias:
                    return ast.copy_location(copy.deepcopy(alias[n.id]), n)
                return n

            def visit_Assign(self, n):
                if len(n.targets) == 1 and isinstance(n.targets[0], ast.Name) and n.targets[0].id in alias:
                    return ast.copy_location(ast.Pass(), n)
                return self.generic_visit(n)
        new_body = [T().visit(st) for st in fn.body]
        fn.body = [st for st in new_body if not isinstance(st, ast.Pass)] or [ast.copy_location(ast.Pass(), fn.body[0])]
        ast.fix_missing_locations(fn)
        done += len(alias)
    return done


def inline_self_aliases(func: "FuncInfo") -> "FuncInfo":
    """A copy of the function in which every local that is assigned exactly once, from an attribute chain rooted at `self`
    (`data = self.data`, `name = newEncoding.name` is NOT one: only `self.<..>` chains and `<param>.<attr>` chains of depth one),
    is replaced by that expression wherever it is read, and the assignment is dropped.  Rules that recognise `self.data.skip()`
    thereby also recognise `data = self.data; data.skip()`."""
    import copy
    node = copy.deepcopy(func.node)
    params = set(func.params())
    stores = {}
    for n in ast.walk(node):
        if isinstance(n, ast.Name) and isinstance(n.ctx, (ast.Store, ast.Del)):
            stores[n.id] = stores.get(n.id, 0) + 1
    alias = {}
    for st in ast.walk(node):
        if isinstance(st, ast.Assign) and len(st.targets) == 1 and isinstance(st.targets[0], ast.Name) and stores.get(st.targets[0].id) == 1 \
                and st.targets[0].id not in params:
            ch = attr_chain(st.value)
            if ch and (ch[0] == "self" or (ch[0] in params and len(ch) == 2)) and isinstance(st.value, ast.Attribute):
                alias[st.targets[0].id] = st.value

    class T(ast.NodeTransformer):
        def visit_Name(self, n):
            if isinstance(n.ctx, ast.Load) and n.id in alias:
                return ast.copy_location(copy.deepcopy(alias[n.id]), n)
            return n

        def visit_Assign(self, n):
            if len(n.targets) == 1 and isinstance(n.targets[0], ast.Name) and n.targets[0].id in alias:
                return ast.copy_location(ast.Pass(), n)
            return self.generic_visit(n)
    node = ast.fix_missing_locations(T().visit(node))
    g = copy.copy(func)
    g.node = node
    return g
