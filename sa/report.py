"""Engine component J: reports, evidence files, known findings."""
from __future__ import annotations

import json
import os
import sys
import time
from typing import Any, Dict, List, Optional

from .repo import AnalysisError

VERIF = os.path.dirname(os.path.dirname(os.path.abspath(__file__)))
EVIDENCE_DIR = os.environ.get("VERIF_EVIDENCE_DIR", os.path.join(VERIF, "evidence"))
KNOWN_FILE = os.path.join(VERIF, "known_findings.json")


def load_known() -> List[Dict[str, Any]]:
    if not os.path.exists(KNOWN_FILE):
        return []
    with open(KNOWN_FILE) as f:
        return json.load(f)["findings"]


class Finding:
    def __init__(self, rule, key, where, msg, data=None):
        self.rule, self.key, self.where, self.msg, self.data = rule, key, where, msg, data or {}

    def as_dict(self, pid):
        return {"property": pid, "rule": self.rule, "key": self.key, "where": self.where,
                "what": self.msg, "data": self.data}


class Report:
    """Collects rule instances and violations for one property run."""

    def __init__(self, pid: str, tier: str, quiet: bool = False):
        self.pid = pid
        self.tier = tier
        self.quiet = quiet
        self.t0 = time.time()
        self.rules: Dict[str, Dict[str, Any]] = {}
        self.findings: List[Finding] = []
        self.notes: List[str] = []
        self.samples: List[Any] = []
        self.assumptions: List[str] = []
        self.not_decided: str = ""
        self.extra: Dict[str, Any] = {}
        self.level = "other"
        self.explanation = ""
        self.trusted_base: List[str] = []
        self.positives: Dict[str, bool] = {}
        self.selftest: Dict[str, Any] = {}
        self.undecided: List[tuple] = []

    # -------------------------------------------------------------- recording
    def rule(self, rid: str, desc: str, floor: int = 1):
        self.rules.setdefault(rid, {"desc": desc, "floor": floor, "instances": 0,
                                    "keys": set(), "violations": 0})

    def ok(self, rid: str, key: str, where: str = "", detail: Any = None):
        r = self.rules[rid]
        r["instances"] += 1
        r["keys"].add(key)
        if detail is not None and len([s for s in self.samples if s.get("rule") == rid]) < 3:
            self.samples.append({"rule": rid, "instance": key, "where": where,
                                 "verdict": "holds", "detail": detail})

    def bad(self, rid: str, key: str, where: str, msg: str, data: Optional[dict] = None):
        r = self.rules[rid]
        r["instances"] += 1
        r["keys"].add(key)
        r["violations"] += 1
        self.findings.append(Finding(rid, key, where, msg, data))

    def check(self, rid: str, cond: bool, key: str, where: str, msg: str, data=None, detail=None):
        if cond:
            self.ok(rid, key, where, detail)
        else:
            self.bad(rid, key, where, msg, data)
        return cond

    def idiom(self, rid: str, ok: bool, key: str, where: str, msg: str, wrong=None, data=None, detail=None):
        """A rule instance that depends on recognising an idiom.  ok -> holds.  Otherwise it is a violation only if one
        of the `wrong` variants (pairs (condition, message)) is positively identified; an idiom that is merely not
        recognised is *undecided* (exit 2 unless a genuine violation is reported too) -- never an alarm."""
        if ok:
            self.ok(rid, key, where, detail)
            return True
        for cond, wmsg in (wrong or []):
            if cond:
                self.bad(rid, key, where, wmsg or msg, data)
                return False
        r = self.rules[rid]
        r["instances"] += 1
        r["keys"].add(key)
        self.undecided.append((rid, key, where, msg))
        return False

    def note(self, text: str):
        self.notes.append(text)

    def positive(self, rid: str, fired: bool):
        """A rule's positive example (a mutated in-memory copy that must make it fire)."""
        self.positives[rid] = self.positives.get(rid, True) and bool(fired)

    # -------------------------------------------------------------- finishing
    def new_findings(self):
        known = [k for k in load_known() if k["property"] == self.pid and k.get("status", "known") == "known"]
        return [f for f in self.findings if not any(k["rule"] == f.rule and k["key"] == f.key for k in known)]

    def finish(self, partial: bool = False) -> int:
        known = [k for k in load_known() if k["property"] == self.pid]
        # vacuity / liveness
        has_new = bool(self.new_findings())
        for rid, r in ({} if partial else self.rules).items():
            if r["instances"] < r["floor"]:
                if has_new:
                    # a rule that matched too little gives no verdict of its own, but violations decided elsewhere stand
                    self.notes.append("rule %s matched %d instances, below its floor %d (no verdict from this rule)" % (rid, r["instances"], r["floor"]))
                    continue
                raise AnalysisError("rule %s matched %d instances, below the floor %d confirmed by hand "
                                    "(the extractor no longer recognises the code)"
                                    % (rid, r["instances"], r["floor"]))
        for rid, fired in ({} if partial else self.positives).items():
            if not fired:
                raise AnalysisError("positive example of rule %s did not fire (the rule is dead)" % rid)

        lines: List[str] = []
        new: List[Finding] = []
        matched = []
        for f in self.findings:
            k = next((k for k in known if k["rule"] == f.rule and k["key"] == f.key
                      and k.get("status", "known") == "known"), None)
            if k is not None:
                matched.append(k)
                lines.append("KNOWN-FINDING: property=%s %s [%s %s] %s" % (
                    self.pid, k["fails"], f.rule, f.key, f.where))
            else:
                new.append(f)
        stale = [] if partial else [k for k in known if k.get("status", "known") == "known" and k not in matched]
        for k in stale:
            self.notes.append("known finding %s/%s no longer reproduces on this tree" % (k["rule"], k["key"]))

        os.makedirs(EVIDENCE_DIR, exist_ok=True)
        replay_dir = os.path.join(EVIDENCE_DIR, "replay")
        for i, f in enumerate(new):
            os.makedirs(replay_dir, exist_ok=True)
            path = os.path.join(replay_dir, "%s-%02d.json" % (self.pid, i))
            with open(path, "w") as fh:
                json.dump(f.as_dict(self.pid), fh, indent=1, default=_default)
            lines.append("VIOLATION property=%s replay=%s" % (self.pid, path))
            lines.append("  %s  rule=%s  instance=%s  %s" % (f.where, f.rule, f.key, f.msg))

        evaluations = sum(r["instances"] for r in self.rules.values())
        distinct = sum(len(r["keys"]) for r in self.rules.values())
        cov: Dict[str, Any] = {
            "explanation": self.explanation,
            "evaluations": evaluations,
            "distinct_nontrivial": distinct,
            "rule": "; ".join("%s: %s" % (rid, r["desc"]) for rid, r in self.rules.items())
                    + " -- an instance is one construct of /repo's current source matched by the rule's "
                      "precondition (positive examples and self-test variants are not counted); distinct = "
                      "distinct construct keys.",
            "samples": self.samples[:40] or [{"note": "no sample recorded"}],
            "obligations": evaluations,
            "discharged": evaluations - len(new) - len(matched),
            "rules": {rid: {"instances": r["instances"], "distinct": len(r["keys"]), "floor": r["floor"],
                            "violations": r["violations"]} for rid, r in self.rules.items()},
            "positive_examples": self.positives,
            "known_findings_matched": [{"rule": k["rule"], "key": k["key"], "fails": k["fails"]} for k in matched],
            "new_violations": [f.as_dict(self.pid) for f in new],
            "notes": self.notes,
            "undecided": [{"rule": u[0], "key": u[1], "where": u[2], "why": u[3]} for u in self.undecided],
            "not_decided": self.not_decided,
            "checker_cmd": "/venv/bin/python -m sa.check %s --tier %s" % (self.pid, self.tier),
            "trusted_base": self.trusted_base or [
                "CPython ast / re._parser", "sa.consteval whitelist", "idiom recognisers (fail closed)"],
            "exhaustive": True,
            "exhaustive_over": "the constructs of /repo's current source that the rules' preconditions match (every function, call site, table "
                               "cell, state x character atom): none is sampled.  Rule instances that name an *input* (a token stream, a "
                               "character stream, a name, an attribute list) are verdicts on representative inputs interpreted from the "
                               "source (DESIGN 3.1 E and K): they partition the input space only where the code touches its input "
                               "through comparisons with constants; elsewhere they are necessary conditions on the chosen representatives, "
                               "not a proof for all inputs.",
        }
        if self.selftest:
            cov["selftest"] = self.selftest
        cov.update(self.extra)
        ev = {
            "property_id": self.pid,
            "tier": self.tier,
            "seed": int(os.environ.get("VERIF_SEED", "0") or 0),
            "level": self.level,
            "coverage": cov,
            "assumptions": self.assumptions,
            "wall_s": round(time.time() - self.t0, 3),
            "violations": len(new),
        }
        with open(os.path.join(EVIDENCE_DIR, "%s.json" % self.pid), "w") as fh:
            json.dump(ev, fh, indent=1, sort_keys=False, default=_default)

        if not self.quiet:
            for rid, r in self.rules.items():
                print("rule %-10s instances=%-4d distinct=%-4d violations=%d  %s" % (
                    rid, r["instances"], len(r["keys"]), r["violations"], r["desc"][:90]))
            for n in self.notes:
                print("note: " + n)
            for ln in lines:
                print(ln)
            for u in self.undecided:
                print("UNDECIDED %s  rule=%s  instance=%s  idiom not recognised: %s" % (u[2], u[0], u[1], u[3]))
            verdict = "FAIL" if new else ("UNDECIDED" if self.undecided else "PASS")
            print("%s %s: %s (%d rule instances, %d known findings, %d new violations, %.2fs)" % (
                self.pid, self.tier, verdict, evaluations, len(matched), len(new), time.time() - self.t0))
        if new:
            return 1
        if self.undecided:
            print("ANALYSIS-ERROR property=%s %d rule instance(s) could not be decided because the code no longer has a "
                  "recognised shape (no verdict)" % (self.pid, len(self.undecided)))
            return 2
        return 0


def _default(o):
    if isinstance(o, (set, frozenset)):
        return sorted(o, key=repr)
    if isinstance(o, bytes):
        return o.decode("latin-1")
    return repr(o)
