"""Mutation self-test of the rules (thorough tier).

Variants are in-memory overlays of /repo's current source (nothing is written to
disk): one edit each.  ``mutants()`` of a rule module lists edits that break the
property's structural clause and must make the named rule fire; ``preserving()``
lists behaviour-preserving edits on which the rules must stay silent.

A text anchor that no longer exists in the current source is *skipped* (reported,
never an error): the self-test must not turn a legitimate refactoring into an alarm.
A missed mutant or a noisy preserving variant is exit 2 (the checker is broken), not a
property verdict.
"""
from __future__ import annotations

import ast
import importlib
import os
from concurrent.futures import ProcessPoolExecutor
from typing import Callable, List, Optional

from .repo import AnalysisError, Repo
from .report import Report, load_known


class TextMutant:
    def __init__(self, name, rel, old, new, expect: Optional[str], count=1):
        self.name, self.rel, self.old, self.new, self.expect, self.count = name, rel, old, new, expect, count

    def apply(self, source: str) -> Optional[str]:
        if source.count(self.old) != self.count:
            return None
        return source.replace(self.old, self.new)


class AstMutant:
    """fn(tree) -> bool (True if it changed something); the module is re-generated
    with ast.unparse."""

    def __init__(self, name, rel, fn: Callable[[ast.AST], bool], expect: Optional[str]):
        self.name, self.rel, self.fn, self.expect = name, rel, fn, expect

    def apply(self, source: str) -> Optional[str]:
        tree = ast.parse(source)
        if not self.fn(tree):
            return None
        ast.fix_missing_locations(tree)
        return ast.unparse(tree)


def _run_variant(args):
    pid, root, rel, source = args
    from .check import Ctx
    mod = importlib.import_module("sa.rules.%s" % pid.lower())
    try:
        compile(source, rel, "exec")
    except SyntaxError as e:
        return ("syntax", str(e))
    rep = Report(pid, "quick", quiet=True)
    try:
        ctx = Ctx(Repo(root, overlay={rel: source}), rep, "quick")
        mod.run(ctx)
        for rid, rr in rep.rules.items():
            if rr["instances"] < rr["floor"]:
                raise AnalysisError("rule %s below floor" % rid)
    except AnalysisError as e:
        if not rep.findings:
            return ("analysis-error", str(e))
        # violations decided before the analysis error stand (as in check.run_property); without a *new* one the caller
        # treats the variant as fail-closed
        return ("partial", (sorted({(f.rule, f.key) for f in rep.findings}), str(e)))
    found = sorted({(f.rule, f.key) for f in rep.findings})
    if not found and rep.undecided:
        return ("analysis-error", "undecided: %s" % [u[:2] for u in rep.undecided][:3])
    return ("ok", found)


def run(ctx, rule_module) -> None:
    """Run the module's mutants/preserving variants; record in the report."""
    if os.environ.get("VERIF_NO_SELFTEST"):
        return
    pid = ctx.r.pid
    base = {(f.rule, f.key) for f in ctx.r.findings}
    muts = list(getattr(rule_module, "mutants", lambda: [])())
    pres = list(getattr(rule_module, "preserving", lambda: [])())
    jobs, meta = [], []
    for kind, lst in (("mutant", muts), ("preserving", pres)):
        for m in lst:
            src = ctx.repo.module(m.rel).source if m.rel in ctx.repo.modules else None
            new = m.apply(src) if src is not None else None
            if new is None or new == src:
                meta.append((kind, m, None))
                continue
            meta.append((kind, m, len(jobs)))
            jobs.append((pid, ctx.repo.root, m.rel, new))
    results = []
    if jobs:
        workers = min(16, len(jobs), os.cpu_count() or 1)
        if workers > 1:
            with ProcessPoolExecutor(max_workers=workers) as ex:
                results = list(ex.map(_run_variant, jobs))
        else:
            results = [_run_variant(j) for j in jobs]
    out = {"mutants": [], "preserving": [], "skipped": []}
    failures = []
    for kind, m, j in meta:
        if j is None:
            out["skipped"].append({"name": m.name, "why": "anchor text not found in current source"})
            continue
        status, payload = results[j]
        if status == "partial":
            found_, err_ = payload
            if [k for k in found_ if tuple(k) not in base]:
                status, payload = "ok", found_
            else:
                status, payload = "analysis-error", err_
        if kind == "mutant":
            if status == "ok":
                new = [k for k in payload if tuple(k) not in base]
                hit = [k for k in new if m.expect is None or k[0].startswith(m.expect)]
                verdict = "caught" if hit else ("caught-by-other-rule" if new else "MISSED")
                out["mutants"].append({"name": m.name, "file": m.rel, "expect": m.expect, "verdict": verdict,
                                       "reported": [list(k) for k in new][:4]})
                if not new:
                    failures.append("mutant %s (expected %s) was not reported" % (m.name, m.expect))
            elif status == "analysis-error":
                out["mutants"].append({"name": m.name, "file": m.rel, "expect": m.expect,
                                       "verdict": "fail-closed (analysis error)", "reported": payload[:200]})
            else:
                out["skipped"].append({"name": m.name, "why": "variant does not compile: %s" % payload})
        else:
            if status == "ok":
                new = [k for k in payload if tuple(k) not in base]
                out["preserving"].append({"name": m.name, "file": m.rel,
                                          "verdict": "silent" if not new else "NOISY",
                                          "reported": [list(k) for k in new][:4]})
                if new:
                    failures.append("behaviour-preserving variant %s made rules fire: %s" % (m.name, new[:3]))
            elif status == "analysis-error":
                out["preserving"].append({"name": m.name, "file": m.rel, "verdict": "ANALYSIS-ERROR",
                                          "reported": payload[:200]})
                failures.append("behaviour-preserving variant %s broke the analysis: %s" % (m.name, payload[:200]))
            else:
                out["skipped"].append({"name": m.name, "why": "variant does not compile: %s" % payload})
    out["summary"] = {
        "mutants_run": len(out["mutants"]),
        "caught": sum(1 for x in out["mutants"] if x["verdict"].startswith("caught")),
        "fail_closed": sum(1 for x in out["mutants"] if x["verdict"].startswith("fail-closed")),
        "preserving_run": len(out["preserving"]),
        "silent": sum(1 for x in out["preserving"] if x["verdict"] == "silent"),
        "skipped": len(out["skipped"]),
    }
    ctx.r.selftest = out
    if not ctx.r.quiet:
        print("selftest: %s" % out["summary"])
        for x in out["skipped"]:
            print("selftest: skipped %s (%s)" % (x["name"], x["why"]))
    if failures:
        raise AnalysisError("self-test failed: " + "; ".join(failures))
