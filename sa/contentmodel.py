"""Content-model map of the parser (shared by C01.4, C02.7, C08, C10):

    element name -> {(tokenizer state, condition)}     condition in {"always", "scripting", "not scripting"}

extracted from the start-tag handlers: a handler activation for a tag name sets the
tokenizer state directly (`self.parser.tokenizer.state = self.parser.tokenizer.Xstate`),
through `parseRCDataRawtext(token, "<KIND>")`, or by delegating the same token to another
handler.  Conditions are the dominating tests on `self.parser.scripting`.
"""
from __future__ import annotations

import ast
from typing import Dict, Set, Tuple

from .cfg import CFG, node_calls
from .parsermodel import ParserModel, PARSER_REL, ANY
from .partition import MiniInterp, Opaque
from .repo import AnalysisError, attr_chain, norm


def state_store(node):
    """`<x>.tokenizer.state = <x>.tokenizer.<S>State` -> 'S' (e.g. 'rcdata')"""
    if isinstance(node, ast.Assign) and len(node.targets) == 1:
        t = attr_chain(node.targets[0])
        v = attr_chain(node.value)
        if t and v and t[-1] == "state" and len(t) >= 2 and t[-2] == "tokenizer" and \
                len(v) >= 2 and v[-2] == "tokenizer" and v[-1].endswith("State"):
            return v[-1][:-len("State")]
    return None


def rcdata_rawtext_states(pm: ParserModel, ce) -> Dict[str, str]:
    """parseRCDataRawtext: contentType constant -> state name, by branch partition."""
    f = pm.repo.func(PARSER_REL, "HTMLParser.parseRCDataRawtext")
    params = f.params()
    if len(params) != 3:
        raise AnalysisError("parseRCDataRawtext signature changed")
    out = {}
    consts = {c.value for n in ast.walk(f.node) if isinstance(n, ast.Compare)
              for c in ast.walk(n) if isinstance(c, ast.Constant) and isinstance(c.value, str)}
    if not consts:
        raise AnalysisError("parseRCDataRawtext compares no constant")
    for kind in sorted(consts):
        interp = MiniInterp(ce, f.module)
        res = interp.run(f.node.body, {params[2]: kind, "self": Opaque("self"), params[1]: Opaque("token")})
        states = [state_store(e.node) for e in res.effects if state_store(e.node)]
        if len(states) != 1:
            raise AnalysisError("parseRCDataRawtext(%r) does not set exactly one tokenizer state" % kind)
        out[kind] = states[0]
    return out


def _scripting_condition(cfg: CFG, node) -> str:
    def is_scripting(n):
        return n.kind == "test" and (attr_chain(n.ast) or [""])[-1] == "scripting"
    if cfg.dominated_by_outcome(node, is_scripting, True):
        return "scripting"
    if cfg.dominated_by_outcome(node, is_scripting, False):
        return "not scripting"
    return "always"


def _combine(outer: str, inner: str) -> str:
    if outer == "always":
        return inner
    if inner == "always" or inner == outer:
        return outer
    return "never"


def content_model_map(pm: ParserModel, ce) -> Dict[str, Set[Tuple[str, str]]]:
    kinds = rcdata_rawtext_states(pm, ce)
    cache: Dict[Tuple[str, str], Set[Tuple[str, str]]] = {}

    def visit(f, name, depth=0) -> Set[Tuple[str, str]]:
        key = (f.fq, name)
        if key in cache:
            return cache[key]
        cache[key] = set()
        if depth > 6:
            return set()
        out: Set[Tuple[str, str]] = set()
        cfg = CFG(f.node)
        lt = pm.local_types(f)
        for n in cfg.stmt_nodes():
            if n.kind == "stmt":
                st = state_store(n.ast)
                if st:
                    out.add((st, _scripting_condition(cfg, n)))
            for call in node_calls(n):
                fn = call.func
                if isinstance(fn, ast.Attribute) and fn.attr == "parseRCDataRawtext":
                    if len(call.args) < 2 or not isinstance(call.args[1], ast.Constant) or \
                            call.args[1].value not in kinds:
                        raise AnalysisError("parseRCDataRawtext called with a non-constant kind in %s" % f.fq)
                    out.add((kinds[call.args[1].value], _scripting_condition(cfg, n)))
                    continue
                # delegation of the same token
                if not (call.args and isinstance(call.args[0], ast.Name) and call.args[0].id in f.params()[1:2]):
                    continue
                for g, gn in pm.resolve_call(f, call, name, lt):
                    if g is None or gn != name:
                        continue
                    if g.module.rel != PARSER_REL or g.cls is None or not g.cls.is_subclass_of(pm.Phase):
                        continue
                    cond = _scripting_condition(cfg, n)
                    for st, c2 in visit(g, name, depth + 1):
                        c = _combine(cond, c2)
                        if c != "never":
                            out.add((st, c))
        cache[key] = out
        return out

    result: Dict[str, Set[Tuple[str, str]]] = {}
    inbody = pm.phases.get("inBody")
    inhead = pm.phases.get("inHead")
    if inbody is None or inhead is None:
        raise AnalysisError("inBody/inHead phases vanished")
    for name in pm.domain:
        acc: Set[Tuple[str, str]] = set()
        for ph in (inbody, inhead):
            h, how = pm.handler(ph, "StartTag", name)
            if h is not None:
                got = visit(h, name)
                if ph is inhead and how == "default":
                    continue     # inHead's "anything else" leaves the head; not a content-model switch
                acc |= got
        if acc:
            result[name] = acc
    return result
