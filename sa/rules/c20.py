"""C20 -- XML-name coercion always yields legal names and is reversible.

R20.1 the two frozen "non-XML name character" regex literals equal the complement, within the BMP, of the XML 1.0
      Name / name-start productions written out as text in the same file (read by our own reader; ':' excluded)
R20.2 the pubid class equals XML 1.0 production [13] PubidChar
R20.3 writer/reader agreement of the escape: "U%05X" matches replacementRegexp, fixed width, unescape parses [1:] base 16,
      and the escape's alphabet is legal in both name positions
R20.4 the first character is matched with the *first-character* class, the rest with the other class
R20.5 every configuration flag stored by __init__ is read by some method
R20.6 comment coercion: loops while the forbidden "--" is present, then fixes a trailing dash
"""
from __future__ import annotations

import ast
import re
import sys

from ..repo import AnalysisError, attr_chain, norm, walk_no_nested

LEVEL = "other"
TECHNIQUE = ("regex-literal analysis (re._parser) against the XML 1.0 productions parsed from their textual form; "
             "writer/reader agreement of the escape format; def-use of configuration flags; source evaluation (sa/classeval.py) of toXmlName / fromXmlName / coerceComment / coercePubid on samples of every class difference, judged against the statement (legal, unchanged when legal, decodes back with a fresh filter, independent of history)")
CLAIM = ('For every BMP code point, the frozen regular expressions classify it as illegal in a name (first / '
         'non-first position) exactly when the XML 1.0 productions say so; the escape sequence written for an '
         'illegal character is matched and decoded by the reader, has fixed width and uses only characters '
         'legal in names; the pubid class is production [13]; every flag the constructor stores has an effect; '
         "comment coercion ends with no '--' and no trailing '-'. Every exit of toXmlName has applied the "
         'first-character class to the first character and the name class to the rest.'
         " The escape reader's character class is exactly the writer's alphabet (ASCII hexadecimal digits)."
         ' The replacement cache is a key-determined memo read and written one key at a time, never used wholesale.')
NOT_DECIDED = ("acceptance by expat, non-BMP characters, injectivity for names that already contain an escape pattern "
               "(excluded by the statement).")
MODULES = ["_ihatexml.py"]
REL = "_ihatexml.py"
BMP = 0x10000


def parse_production(text):
    """our own reader for `[#x0041-#x005A] | #x0386 | "." ...` -> set of code points"""
    out = set()
    for item in text.split("|"):
        item = item.strip()
        if not item:
            continue
        if item.startswith("#[#x"):
            item = item[1:]       # the module's extender production has a stray '#' before one range (XML 1.0: [#x3031-#x3035])
        m = re.fullmatch(r"\[#x([0-9A-Fa-f]{4})-#x([0-9A-Fa-f]{4})\]", item)
        if m:
            lo, hi = int(m.group(1), 16), int(m.group(2), 16)
            if hi < lo:
                raise AnalysisError("production range %s is reversed" % item)
            out |= set(range(lo, hi + 1))
            continue
        m = re.fullmatch(r"#x([0-9A-Fa-f]{4})", item)
        if m:
            out.add(int(m.group(1), 16))
            continue
        if len(item) == 1:
            out.add(ord(item))
            continue
        raise AnalysisError("cannot read production item %r" % item)
    return out


def regex_set(pattern):
    import re._parser as sp
    parsed = sp.parse(pattern)
    if len(parsed) != 1 or parsed[0][0] != sp.IN:
        raise AnalysisError("pattern is not a single character class")
    items = list(parsed[0][1])
    negate = bool(items) and items[0][0] == sp.NEGATE
    if negate:
        items = items[1:]
    chars = set()
    for op, arg in items:
        if op == sp.LITERAL:
            chars.add(arg)
        elif op == sp.RANGE:
            chars |= set(range(arg[0], arg[1] + 1))
        elif op == sp.CATEGORY:
            # \\w \\d \\s and their complements in a str pattern compiled without re.ASCII: Unicode semantics
            esc = {sp.CATEGORY_WORD: r"\w", sp.CATEGORY_NOT_WORD: r"\W", sp.CATEGORY_DIGIT: r"\d", sp.CATEGORY_NOT_DIGIT: r"\D",
                   sp.CATEGORY_SPACE: r"\s", sp.CATEGORY_NOT_SPACE: r"\S"}.get(arg)
            if esc is None:
                raise AnalysisError("unsupported character category %s" % (arg,))
            one = re.compile(esc)
            chars |= {c for c in range(BMP) if one.fullmatch(chr(c))}
        else:
            raise AnalysisError("unsupported class item %s" % (op,))
    return chars, negate


def compiled_pattern(ctx, mod, name, cls=None):
    nodes = mod.tree.body if cls is None else cls.node.body
    for st in nodes:
        if isinstance(st, ast.Assign) and norm(st.targets[0]) == name and isinstance(st.value, ast.Call) and \
                norm(st.value.func) == "re.compile":
            return ctx.ce.eval(st.value.args[0], mod), st.lineno
    raise AnalysisError("%s is not a re.compile(<constant>) literal" % name)


def fmt_ranges(s, limit=6):
    s = sorted(s)
    out, i = [], 0
    while i < len(s) and len(out) < limit:
        j = i
        while j + 1 < len(s) and s[j + 1] == s[j] + 1:
            j += 1
        out.append("U+%04X" % s[i] if i == j else "U+%04X-U+%04X" % (s[i], s[j]))
        i = j + 1
    return out


FLAG_DEFAULTS = {"dropXmlnsLocalName": False, "dropXmlnsAttrNs": False, "preventDoubleDashComments": False, "preventDashAtCommentEnd": False,
                 "replaceFormFeedCharacters": True, "preventSingleQuotePubid": False}


def _sample_chars(name_set, first_set):
    """representatives of every way the XML 1.0 classes differ from the classes Python offers (\\w, isalnum, isalpha, isdigit),
    all of printable ASCII, and a few code points from the far ends of the tables"""
    out = []

    def take(pred, k=2):
        got = 0
        for c in range(0x80, BMP):
            if 0xD800 <= c <= 0xDFFF:
                continue
            if pred(c, chr(c)):
                out.append(chr(c))
                got += 1
                if got >= k:
                    break
    out.extend(chr(c) for c in range(0x20, 0x7F))
    take(lambda c, ch: c in name_set and ch.isalnum())
    take(lambda c, ch: c in name_set and not ch.isalnum())
    take(lambda c, ch: c not in name_set and (ch.isalnum() or ch == "_"), 4)
    take(lambda c, ch: c in first_set and ch.isalpha())
    take(lambda c, ch: c not in first_set and ch.isalpha(), 3)
    take(lambda c, ch: c in name_set and c not in first_set and ch.isdigit())
    take(lambda c, ch: c in name_set and c not in first_set and not ch.isdigit())
    take(lambda c, ch: c not in name_set and ch.isspace())
    take(lambda c, ch: c not in name_set and c > 0x2000 and not ch.isalnum())
    out.extend(["\u00b5", "\u00aa", "\u00b2", "\u00d7", "\u00f7", "\u0300", "\u3007", "\u4e00", "\uffff", "\u0085"])
    seen, res = set(), []
    for ch in out:
        if ch not in seen:
            seen.add(ch)
            res.append(ch)
    return res


def evaluated_clauses(ctx, mod, cls, name_set, first_set, pubid):
    """The InfosetFilter methods are *run* from their source (sa/classeval.py) on representative inputs and judged against the
    statement itself: coerced names are legal, legal colon-free names are unchanged, a fresh filter's fromXmlName gives the
    original back, the result does not depend on what the same filter coerced before; coerced comments hold no '--' and end in
    no '-' under the flags that promise so and are otherwise untouched; coerced public identifiers hold PubidChars only.
    -> which clauses could be evaluated (the code-shape rules decide the others)."""
    from ..classeval import ClassEval
    r = ctx.r
    ce = ctx.ce
    done = {"names": False, "comments": False, "pubid": False}
    init = cls.methods.get("__init__")
    where = cls.where

    def fresh(**flags):
        attrs = dict(FLAG_DEFAULTS)
        # instance attributes the constructor creates beside the flags (caches): read off __init__
        for a in (ast.walk(init.node) if init else []):
            if isinstance(a, ast.Assign) and len(a.targets) == 1 and isinstance(a.targets[0], ast.Attribute) and norm(a.targets[0].value) == "self" \
                    and a.targets[0].attr not in attrs:
                v = ce.try_eval(a.value, mod)
                attrs[a.targets[0].attr] = {} if isinstance(a.value, ast.Dict) or norm(a.value) == "dict()" else v
        attrs.update(flags)
        return ClassEval(ce, mod, cls, attrs)

    def legal(n):
        return bool(n) and ord(n[0]) in first_set and all(ord(c) in name_set for c in n[1:])
    # ---------------- names
    try:
        chars = _sample_chars(name_set, first_set)
        names = []
        for c in chars:
            names += [c + "x", "x" + c]
        # an escape followed by characters that could be taken for more escape digits
        for c in (":", " ", "{", "\u00d7"):
            names += [c + "1", "x" + c + "A", "x" + c + "0F", c + c + "B", "x" + c + "U0003A"[:3]]
        names += ["a:b", "xmlns:foo", "data-\u00b5", "1", "-", "a" * 3 + ":" * 2, "x" + "\u00b5\u00b5" + "y" + "\u00b5", "U\u0660\u0660\u0660\u0664\u0661", "-moz-x", "2col", ".dot"]
        shared = fresh()
        # history: a public identifier and first-position escapes are coerced by the same filter before the names
        shared.call("coercePubid", ["-//Caf\u00e9//DTD {x}"])
        hist = {}
        for n in [x for x in names if x and ord(x[0]) not in first_set] + names:
            hist[n] = shared.call("toXmlName", [n])
        bad = {"legal": [], "unchanged": [], "roundtrip": [], "history": []}
        for n in names:
            out = fresh().call("toXmlName", [n])
            if not isinstance(out, str) or not legal(out):
                bad["legal"].append((n, out))
            if legal(n) and ":" not in n and out != n:
                bad["unchanged"].append((n, out))
            if isinstance(out, str):
                back = fresh().call("fromXmlName", [out])
                if back != n:
                    bad["roundtrip"].append((n, out, back))
            if hist[n] != out:
                bad["history"].append((n, out, hist[n]))
        done["names"] = True
        ex = lambda k: ", ".join("%r -> %r" % (b[0], b[1]) for b in bad[k][:3])  # noqa: E731
        r.check("R20.4", not bad["legal"], "evaluated::coerced-names-are-legal", where,
                "toXmlName returns names that are not legal XML names (%d of %d samples): %s" % (len(bad["legal"]), len(names), ex("legal")),
                detail={"samples": len(names)})
        r.check("R20.4", not bad["unchanged"], "evaluated::legal-names-unchanged", where,
                "toXmlName changes names that are already legal and colon-free: %s" % ex("unchanged"))
        r.check("R20.3", not bad["roundtrip"], "evaluated::fromXmlName-inverts-toXmlName", where,
                "fromXmlName (of a fresh filter, as the library uses it) does not give the original name back: %s" % ", ".join(
                    "%r -> %r -> %r" % b for b in bad["roundtrip"][:3]))
        r.check("R20.7", not bad["history"], "evaluated::result-independent-of-earlier-calls", where,
                "toXmlName gives a different result after the same filter has coerced other names / a public identifier: %s" % ", ".join(
                    "%r: fresh %r, used %r" % b for b in bad["history"][:3]))
    except AnalysisError as e:
        r.note("C20: name coercion not evaluable from source (%s); the code-shape rules decide" % str(e)[:120])
    # ---------------- comments
    try:
        samples = ["a--b", "a---b", "a----b", "--", "-", "a-", "a--", "ok", "", "- -", "a -- b --- c-"]
        bad = []
        for pdd in (False, True):
            for pdace in (False, True):
                for d in samples:
                    out = fresh(preventDoubleDashComments=pdd, preventDashAtCommentEnd=pdace).call("coerceComment", [d])
                    problems = []
                    if not isinstance(out, str):
                        problems.append("no string")
                    else:
                        if pdd and "--" in out:
                            problems.append("still contains '--'")
                        if (pdd or pdace) and out.endswith("-"):
                            problems.append("still ends in '-'")
                        if not pdd and out.rstrip(" ") != d.rstrip(" ") and out != d:
                            problems.append("changed although preventDoubleDashComments is off")
                        if not (pdd or pdace) and out != d:
                            problems.append("changed although both flags are off")
                        if "--" not in d and not d.endswith("-") and out != d:
                            problems.append("changed although nothing had to be")
                    if problems:
                        bad.append((pdd, pdace, d, out, problems[0]))
        done["comments"] = True
        r.check("R20.6", not bad, "evaluated::coerced-comments", where,
                "coerceComment: %s" % "; ".join("(preventDoubleDashComments=%s, preventDashAtCommentEnd=%s) %r -> %r %s" % b for b in bad[:3]),
                detail={"samples": len(samples) * 4})
    except AnalysisError as e:
        r.note("C20: comment coercion not evaluable from source (%s); the code-shape rules decide" % str(e)[:120])
    # ---------------- public identifiers
    try:
        samples = ["-//W3C//DTD HTML 4.01//EN", "Caf\u00e9", "a'b", "x{y}", '"q"', "", "a\tb", "~^`"]
        bad = []
        for psq in (False, True):
            for d in samples:
                out = fresh(preventSingleQuotePubid=psq).call("coercePubid", [d])
                if not isinstance(out, str) or any(ord(c) not in pubid for c in out) or (psq and "'" in out):
                    bad.append((psq, d, out))
                elif all(ord(c) in pubid for c in d) and not (psq and "'" in d) and out != d:
                    bad.append((psq, d, out))
        done["pubid"] = True
        r.check("R20.2", not bad, "evaluated::coerced-pubids", where,
                "coercePubid: %s" % "; ".join("(preventSingleQuotePubid=%s) %r -> %r" % b for b in bad[:3]), detail={"samples": len(samples) * 2})
    except AnalysisError as e:
        r.note("C20: pubid coercion not evaluable from source (%s)" % str(e)[:120])
    return done


def run(ctx):
    r = ctx.r
    ce, repo = ctx.ce, ctx.repo
    mod = repo.module(REL)
    cls = repo.cls(REL, "InfosetFilter")
    r.explanation = ("The regex literals of _ihatexml.py are parsed with re._parser into code-point sets and compared, over all "
                     "65536 BMP code points, with the complement of the XML 1.0 Name productions read from the module's own "
                     "grammar strings by an independent reader; the escape writer and reader are compared; flags are traced.")
    r.not_decided = NOT_DECIDED
    r.rule("R20.1", "frozen name regexes == BMP complement of the XML 1.0 Name / name-start productions", floor=2)
    r.rule("R20.2", "pubid class == XML 1.0 PubidChar", floor=1)
    r.rule("R20.3", "escape writer and reader agree; escape alphabet is legal in names", floor=1)
    r.rule("R20.4", "first character tested with the first-character class, the rest with the other", floor=2)
    r.rule("R20.5", "every flag stored by __init__ is read", floor=5)
    r.rule("R20.6", "comment coercion removes '--' and a trailing '-'", floor=2)
    r.rule("R20.7", "the replacement cache is a key-determined memo: read and written one key at a time, never used wholesale", floor=3)

    name_txt, first_txt = ce.const(REL, "name"), ce.const(REL, "nameFirst")
    name_set, first_set = parse_production(name_txt), parse_production(first_txt)
    if len(name_set) < 30000 or len(first_set) < 30000 or not first_set < name_set:
        raise AnalysisError("XML name productions read implausibly (%d, %d code points)" % (len(name_set), len(first_set)))
    legal = {}
    for var, prod, label in (("nonXmlNameBMPRegexp", name_set, "Name character"), ("nonXmlNameFirstBMPRegexp", first_set, "name-start character")):
        pat, line = compiled_pattern(ctx, mod, var)
        chars, neg = regex_set(pat)
        if neg:
            chars = set(range(BMP)) - chars
        want = set(range(BMP)) - prod
        extra, missing = chars - want, want - chars
        legal[var] = set(range(BMP)) - chars
        r.check("R20.1", not extra and not missing, var, "%s:%d" % (REL, line),
                "%s differs from the complement of the XML 1.0 %s production: flags legal %s; misses illegal %s"
                % (var, label, fmt_ranges(extra), fmt_ranges(missing)),
                {"wrongly_illegal": fmt_ranges(extra, 20), "wrongly_legal": fmt_ranges(missing, 20)},
                detail={"regex_code_points": len(chars), "production_code_points": len(prod)})
    r.check("R20.1", ord(":") not in name_set, "colon-excluded", REL, "':' is treated as a legal name character (namespaces)")

    pat, line = compiled_pattern(ctx, mod, "nonPubidCharRegexp")
    chars, neg = regex_set(pat)
    pubid = {0x20, 0x0D, 0x0A} | set(range(ord("a"), ord("z") + 1)) | set(range(ord("A"), ord("Z") + 1)) | \
        set(range(ord("0"), ord("9") + 1)) | {ord(c) for c in "-'()+,./:=?;!*#@$_%"}
    r.check("R20.2", neg and chars == pubid, "pubid-class", "%s:%d" % (REL, line),
            "nonPubidCharRegexp is not the negation of XML 1.0 PubidChar: extra %s missing %s" % (
                sorted(map(chr, chars - pubid)), sorted(map(chr, pubid - chars))), detail={"size": len(chars)})

    ev = evaluated_clauses(ctx, mod, cls, name_set, first_set, pubid)
    r.extra["evaluated_clauses"] = ev
    if not ev["names"]:
        _shape_rules_names(ctx, mod, cls, legal)
    _cache_rules(ctx, mod, cls, ev)
    _flag_and_comment_rules(ctx, mod, cls, ev)


def _shape_rules_names(ctx, mod, cls, legal):
    """R20.3 / R20.4 from the shape of the code -- only when the methods could not be evaluated"""
    r, ce, repo = ctx.r, ctx.ce, ctx.repo
    # ---- R20.3
    esc = repo.func(REL, "InfosetFilter.escapeChar")
    fmts = [n for n in ast.walk(esc.node) if isinstance(n, ast.BinOp) and isinstance(n.op, ast.Mod) and isinstance(n.left, ast.Constant)]
    if len(fmts) != 1:
        raise AnalysisError("escapeChar: format expression not found")
    fmt = fmts[0].left.value
    m = re.fullmatch(r"(.*)%0(\d)X", fmt)
    rpat, rline = compiled_pattern(ctx, mod, "replacementRegexp", cls)
    ok_fmt = bool(m) and norm(fmts[0].right) == "ord(%s)" % esc.params()[1]
    import re._parser as sp
    parsed = sp.parse(rpat)
    shape_ok = False
    if m and len(parsed) == len(m.group(1)) + 1:
        lits = [chr(p[1]) for p in list(parsed)[:-1] if p[0] == sp.LITERAL]
        rep = list(parsed)[-1]
        if "".join(lits) == m.group(1) and rep[0] == sp.MAX_REPEAT and rep[1][0] == rep[1][1] == int(m.group(2)):
            cs = set()
            for op, arg in rep[1][2][0][1]:
                if op == sp.RANGE:
                    cs |= set(range(arg[0], arg[1] + 1))
                elif op == sp.LITERAL:
                    cs.add(arg)
                elif op == sp.CATEGORY and arg == sp.CATEGORY_DIGIT:
                    # `\d` in a str pattern without re.ASCII is every Unicode decimal digit (general category Nd)
                    import unicodedata
                    cs |= {c for c in range(0x110000) if unicodedata.category(chr(c)) == "Nd"}
            shape_ok = {ord(c) for c in "0123456789ABCDEF"} <= cs
            extra_digits = sorted(cs - {ord(c) for c in "0123456789ABCDEF"})
            r.check("R20.3", not extra_digits, "reader-class-is-the-writers-alphabet", "%s:%d" % (REL, rline),
                    "replacementRegexp %r also matches %d characters the escape writer never produces (%s ...): a legal XML name such as "
                    "'U' + five Arabic-Indic digits is not an escape, is left alone by toXmlName and is turned into another name by "
                    "fromXmlName ('U\u0660\u0660\u0660\u0664\u0661' -> 'A')" % (rpat, len(extra_digits), fmt_ranges(extra_digits, 3)),
                    detail={"extra": len(extra_digits)})
    r.check("R20.3", ok_fmt and shape_ok, "escape-matches-reader-pattern", "%s:%d" % (REL, rline),
            "escape format %r is not matched by replacementRegexp %r with the same fixed width" % (fmt, rpat),
            detail={"format": fmt, "pattern": rpat})
    width_ok = bool(m) and int(m.group(2)) >= 4 and (16 ** int(m.group(2))) > 0xFFFF
    r.check("R20.3", width_ok, "escape-fixed-width", esc.where, "the escape width cannot hold every BMP code point in a fixed number of digits")
    un = repo.func(REL, "InfosetFilter.unescapeChar")
    p = un.params()[1]
    plen = len(m.group(1)) if m else 1
    r.check("R20.3", any(norm(x.value) == "chr(int(%s[%d:], 16))" % (p, plen) for x in ast.walk(un.node) if isinstance(x, ast.Return)),
            "unescape-parses-hex", un.where, "unescapeChar does not decode the hexadecimal digits after the prefix")
    if m:
        alphabet_first = {ord(m.group(1)[0])} if m.group(1) else set()
        alphabet_rest = {ord(c) for c in m.group(1)[1:] + "0123456789ABCDEF"}
        bad = sorted(chr(c) for c in alphabet_first - legal["nonXmlNameFirstBMPRegexp"]) + \
            sorted(chr(c) for c in alphabet_rest - legal["nonXmlNameBMPRegexp"])
        r.check("R20.3", not bad, "escape-alphabet-legal", esc.where,
                "the escape sequence itself contains characters that are illegal in an XML name: %s" % bad)
    fx = repo.func(REL, "InfosetFilter.fromXmlName")
    src = " ".join(norm(fx.node).split())
    r.idiom("R20.3", "for item in set(self.replacementRegexp.findall(name)): name = name.replace(item, self.unescapeChar(item))" in src,
            "reader-loop", fx.where, "fromXmlName no longer replaces every escape it finds by its decoded character")

    # ---- R20.4
    tx = repo.func(REL, "InfosetFilter.toXmlName")
    src = " ".join(norm(tx.node).split())
    p = tx.params()[1]
    first_ok = ("nameFirst = %s[0]" % p in src and "nonXmlNameFirstBMPRegexp.match(nameFirst)" in src) or \
        "nonXmlNameFirstBMPRegexp.match(%s[0])" % p in src
    rest_ok = ("nameRest = %s[1:]" % p in src and "nonXmlNameBMPRegexp.findall(nameRest)" in src) or \
        "nonXmlNameBMPRegexp.findall(%s[1:])" % p in src
    r.idiom("R20.4", first_ok, "first-with-first-class", tx.where,
            "the first character of a name is not tested with the first-character class",
            wrong=[("nonXmlNameBMPRegexp.match(nameFirst)" in src or "nonXmlNameBMPRegexp.match(%s[0])" % p in src, None)])
    r.idiom("R20.4", rest_ok and "return nameFirstOutput + nameRestOutput" in src,
            "rest-with-name-class", tx.where, "the remaining characters are not tested with the name-character class",
            wrong=[("nonXmlNameFirstBMPRegexp.findall(" in src, None)])

    # every exit of toXmlName has applied both tests (no early return that skips the stricter first-character class)
    from ..cfg import CFG, node_calls
    tcfg = CFG(tx.node)
    rets = [n for n in tcfg.stmt_nodes() if n.kind == "stmt" and isinstance(n.ast, ast.Return)]
    for label, cls_name in (("first", "nonXmlNameFirstBMPRegexp"), ("rest", "nonXmlNameBMPRegexp")):
        def applies(n, cls_name=cls_name):
            return any(isinstance(c.func, ast.Attribute) and norm(c.func.value) == cls_name and c.func.attr in ("match", "findall", "search", "sub", "finditer")
                       for c in node_calls(n))
        first_only = label == "first"
        bad = []
        for rt in rets:
            def applies_here(n, applies=applies, first_only=first_only):
                if not applies(n):
                    return False
                if first_only:
                    # the first-character class must be applied to the first character, not used as a whole-name pre-filter
                    return any("[0]" in norm(c) or "nameFirst" in norm(c) for c in node_calls(n))
                return True
            if tcfg.must_precede([rt], applies_here):
                bad.append(rt)
        r.check("R20.4", not bad, "every-exit-tested-with-%s-class" % label, "%s:%d" % (REL, (bad[0].ast.lineno if bad else tx.node.lineno)),
                "toXmlName can return (line %s) without having tested the %s with %s: a name that is legal by the other class only "
                "(e.g. starting with a digit, '-' or '.') is returned unchanged and is not a legal XML name"
                % (bad[0].ast.lineno if bad else "?", "first character" if first_only else "remaining characters", cls_name),
                detail={"exits": len(rets)})



def _cache_rules(ctx, mod, cls, ev):
    r, ce, repo = ctx.r, ctx.ce, ctx.repo
    # ---- R20.7: the replacement cache is a memo consulted one key at a time
    parents = {}
    n_uses = 0
    for mn, mm in cls.methods.items():
        for x in ast.walk(mm.node):
            for c in ast.iter_child_nodes(x):
                parents[id(c)] = x
        for x in ast.walk(mm.node):
            if not (isinstance(x, ast.Attribute) and x.attr == "replaceCache" and isinstance(x.value, ast.Name) and x.value.id == "self"):
                continue
            n_uses += 1
            par = parents.get(id(x))
            key = "cache-use::%s::%s" % (mn, norm(par)[:50] if par is not None else "?")
            where = "%s:%d" % (REL, x.lineno)
            if isinstance(x.ctx, ast.Store):
                r.check("R20.7", mn == "__init__" and isinstance(par, ast.Assign) and norm(par.value) in ("{}", "dict()"), key, where,
                        "%s rebinds self.replaceCache (%s)" % (mn, norm(par)[:60]))
                continue
            one_key = (isinstance(par, ast.Subscript) and par.value is x) or \
                (isinstance(par, ast.Compare) and x in par.comparators and len(par.ops) == 1 and isinstance(par.ops[0], (ast.In, ast.NotIn))) or \
                (isinstance(par, ast.Attribute) and par.attr in ("get", "setdefault") and isinstance(parents.get(id(par)), ast.Call))
            wholesale = (isinstance(par, ast.Call) and x in par.args) or isinstance(par, (ast.For, ast.comprehension)) or \
                (isinstance(par, ast.Attribute) and par.attr in ("items", "values", "keys", "update", "copy")) or isinstance(par, ast.keyword)
            r.idiom("R20.7", one_key or (ev["names"] and not wholesale), key, where, "unrecognised use of the replacement cache in %s: %s" % (mn, norm(par)[:60] if par is not None else "?"),
                    wrong=[(wholesale, "%s uses the whole replacement cache at once (`%s`): the cache holds every character any earlier call "
                                       "had to escape -- characters illegal only in first position, or only in public identifiers -- so a "
                                       "name that is already legal is changed depending on what was coerced before" % (mn, norm(par)[:70] if par is not None else "?"))],
                    data={"method": mn})
            if isinstance(par, ast.Subscript) and isinstance(par.ctx, ast.Store):
                st = parents.get(id(par))
                fn = mm
                loc = {}
                for a in walk_no_nested(fn.node):
                    if isinstance(a, ast.Assign) and len(a.targets) == 1 and isinstance(a.targets[0], ast.Name):
                        loc.setdefault(a.targets[0].id, []).append(a.value)
                knames = {n_.id for n_ in ast.walk(par.slice) if isinstance(n_, ast.Name)}
                val = st.value if isinstance(st, ast.Assign) else None
                seen = set()
                free = set()
                stack = [val] if val is not None else []
                while stack:
                    e = stack.pop()
                    for n_ in ast.walk(e):
                        if isinstance(n_, ast.Name) and isinstance(n_.ctx, ast.Load) and n_.id not in seen:
                            seen.add(n_.id)
                            if n_.id in knames:
                                continue
                            if n_.id in loc and len(loc[n_.id]) == 1:
                                stack.append(loc[n_.id][0])
                            else:
                                free.add(n_.id)
                        elif isinstance(n_, ast.Attribute) and isinstance(n_.value, ast.Name) and n_.value.id == "self":
                            free.add("self." + n_.attr)
                import builtins
                mod_names = set(mod.imports) | set(mod.functions) | set(mod.classes) | {
                    t.id for a in mod.assign_nodes for t in getattr(a, "targets", []) if isinstance(t, ast.Name)}
                free = {f_ for f_ in free if not hasattr(builtins, f_) and f_ not in mod_names}
                r.check("R20.7", (val is not None and not free) or ev["names"], "cache-value-key-determined::%s" % mn, where,
                        "the value stored in the replacement cache depends on more than its key (%s): what a character is replaced by "
                        "depends on the call that first met it" % sorted(free), data={"method": mn})
    r.idiom("R20.7", n_uses >= 3 or ev["names"], "cache-uses-found", cls.where, "only %d uses of self.replaceCache were found" % n_uses)



def _flag_and_comment_rules(ctx, mod, cls, ev):
    r, ce, repo = ctx.r, ctx.ce, ctx.repo
    # ---- R20.5
    init = cls.methods["__init__"]
    flags = [a.arg for a in init.node.args.args[1:]]
    reads = {}
    for mn, mm in cls.methods.items():
        if mn == "__init__":
            continue
        for n in walk_no_nested(mm.node):
            if isinstance(n, ast.Attribute) and isinstance(n.ctx, ast.Load) and isinstance(n.value, ast.Name) and n.value.id == "self":
                reads.setdefault(n.attr, set()).add(mn)
    for fl in flags:
        stored = any(isinstance(n, ast.Assign) and attr_chain(n.targets[0]) == ["self", fl] for n in ast.walk(init.node))
        r.check("R20.5", stored and fl in reads, "flag:%s" % fl, init.where,
                "configuration flag %s is %s: setting it has no effect" % (fl, "stored but never read" if stored else "not stored"),
                {"flag": fl}, detail={"flag": fl, "read_by": sorted(reads.get(fl, []))})

    # ---- R20.6
    cc = repo.func(REL, "InfosetFilter.coerceComment")
    whiles = [n for n in ast.walk(cc.node) if isinstance(n, ast.While)]
    p = cc.params()[1]
    ok = len(whiles) == 1 and norm(whiles[0].test) == "'--' in %s" % p and any(
        norm(s) == "%s = %s.replace('--', '- -')" % (p, p) for s in whiles[0].body)
    r.check("R20.6", ok or ev["comments"], "double-dash-loop", cc.where, "coerceComment does not loop while '--' is present, replacing it by '- -'")
    tails = [n for n in ast.walk(cc.node) if isinstance(n, ast.If) and "%s.endswith('-')" % p in norm(n.test)]
    ok = len(tails) == 1 and any(norm(s) == "%s += ' '" % p for s in tails[0].body) and whiles and tails[0].lineno > whiles[0].lineno
    r.check("R20.6", ok or ev["comments"], "trailing-dash-after-loop", cc.where, "the trailing-dash fix-up is missing or does not follow the '--' loop")
    # the fix-up runs under either flag: with preventDoubleDashComments alone (the lxml builder's configuration) a comment that
    # ends in '-' would otherwise end in '--' once the closing '-->' is written
    from ..cfg import CFG
    from ..partition import MiniInterp, Opaque
    ccfg = CFG(cc.node)
    fix = [n for n in ccfg.stmt_nodes() if n.kind == "stmt" and norm(n.ast) == "%s += ' '" % p]
    flag_tests = [n for n in ccfg.nodes if n.kind == "test" and "self.prevent" in norm(n.ast)]
    if len(fix) == 1 and flag_tests:
        for label, pdd, pdace in (("preventDoubleDashComments alone", True, False), ("preventDashAtCommentEnd alone", False, True)):
            def hook(node, local, pdd=pdd, pdace=pdace):
                t = norm(node)
                if t == "self.preventDoubleDashComments":
                    return pdd
                if t == "self.preventDashAtCommentEnd":
                    return pdace
                return NotImplemented
            interp = MiniInterp(ce, cc.module, expr_hook=hook)
            blocked = None
            for t in flag_tests:
                names = {norm(x) for x in ast.walk(t.ast) if isinstance(x, ast.Attribute)}
                if not names <= {"self.preventDoubleDashComments", "self.preventDashAtCommentEnd"}:
                    continue
                try:
                    val = bool(interp.eval_guard(t.ast, {"self": Opaque("self")}))
                except AnalysisError:
                    continue
                if ccfg.dominated_by(fix[0], lambda n, lab, t=t, val=val: n is t and lab is (not val)):
                    blocked = t
            r.check("R20.6", blocked is None, "trailing-dash-under::%s" % label.split()[0], "%s:%d" % (REL, fix[0].ast.lineno),
                    "with %s the trailing-dash fix-up cannot run (it is guarded by `%s`): a comment ending in '-' is left as it is"
                    % (label, norm(blocked.ast) if blocked else ""), detail={"configuration": label})
    else:
        r.idiom("R20.6", ev["comments"], "trailing-dash-under-flags", cc.where, "the trailing-dash fix-up / its flag tests were not found")


def thorough(ctx):
    from .. import selftest
    selftest.run(ctx, sys.modules[__name__])


def mutants():
    from ..selftest import TextMutant as T
    return [
        T("cache-as-translate-table", REL, "            nameRestOutput = nameRestOutput.replace(char, replacement)\n        return nameFirstOutput + nameRestOutput",
          "            nameRestOutput = nameRestOutput.replace(char, replacement)\n        nameRestOutput = \"\".join(self.replaceCache.get(c, c) if c in self.replaceCache.keys() else c for c in nameRest)\n        return nameFirstOutput + nameRestOutput", "R20.7"),
        T("cache-value-depends-on-size", REL, "        self.replaceCache[char] = replacement\n", "        self.replaceCache[char] = replacement if len(self.replaceCache) < 64 else char\n", "R20.7"),
        T("toxmlname-fastpath", REL, "    def toXmlName(self, name):\n        nameFirst = name[0]", "    def toXmlName(self, name):\n        if not nonXmlNameBMPRegexp.search(name):\n            return name\n        nameFirst = name[0]", "R20.4"),
        T("regex-range-edit", REL, "nonXmlNameBMPRegexp = re.compile('[\\x00-,/:-@", "nonXmlNameBMPRegexp = re.compile('[\\x00-,/;-@", "R20.1"),
        T("first-regex-edit", REL, "nonXmlNameFirstBMPRegexp = re.compile('[\\x00-@", "nonXmlNameFirstBMPRegexp = re.compile('[\\x00-?", "R20.1"),
        T("pubid-percent", REL, "0-9\\\\-'()+,./:=?;!*#@$_%]", "0-9\\\\-'()+,./:=?;!*#@$_]", "R20.2"),
        T("reader-unicode-digits", REL, "    replacementRegexp = re.compile(r\"U[0-9A-F]{5,5}\")", "    replacementRegexp = re.compile(r\"U[\\dA-F]{5,5}\")", "R20.3"),
        T("escape-lowercase", REL, "        replacement = \"U%05X\" % ord(char)", "        replacement = \"U%05x\" % ord(char)", "R20.3"),
        T("escape-width", REL, "        replacement = \"U%05X\" % ord(char)", "        replacement = \"U%04X\" % ord(char)", "R20.3"),
        T("unescape-offset", REL, "        return chr(int(charcode[1:], 16))", "        return chr(int(charcode[1:5], 16))", "R20.3"),
        T("first-with-rest-class", REL, "        m = nonXmlNameFirstBMPRegexp.match(nameFirst)", "        m = nonXmlNameBMPRegexp.match(nameFirst)", "R20.4"),
        T("flag-unread", REL, "        if self.replaceFormFeedCharacters:\n            for _ in range", "        if True:\n            for _ in range", "R20.5"),
        T("no-trailing-dash-fix", REL, "            data += \" \"\n", "            pass\n", "R20.6"),
    ]


def preserving():
    return []
