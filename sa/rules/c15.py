"""C15 -- encoded serializations declare their encoding (wiring of the filter and of the encoders).

R15.1 the meta-injection filter is applied iff an encoding is requested (and the documented option is on), first in the pipeline
R15.2 in the filter: on the </head> path the meta is yielded iff none was found and buffered head tokens are flushed; an
      empty head gets head+meta+/head; existing charset / http-equiv declarations are rewritten to the requested encoding;
      no source token is dropped
R15.3 text and attribute values reach the output only through encode() (character-reference-replacing error handler),
      names and markup through encodeStrict(); the handler is registered under the name encode() uses
R15.4 every named reference the handler can emit decodes back to the same character (= R14.5)
"""
from __future__ import annotations

import ast
import sys

from ..repo import AnalysisError, attr_chain, norm, walk_no_nested
from ..cfg import CFG, node_calls

LEVEL = "other"
TECHNIQUE = ('pipeline-order and CFG dominance checks on the injection filter; evaluation of its meta arm on attribute lists in both orders; classification of every yield of the serializer by the encoder it passes through (handlers resolved through helpers); constant folding of the reverse entity map')
CLAIM = ('Whenever an output encoding is requested the declaration filter runs first; on every path through it '
         'a document head ends up with a meta declaring the requested encoding (injected iff none was '
         'rewritten) and no token is lost; every piece of text or attribute value is encoded with the handler '
         'that replaces unencodable characters by references that decode back to them, and markup is encoded '
         'strictly. A declaration is recorded as found only on paths that rewrote or injected one; the http- '
         'equiv flag is reset for every meta token.'
         " The meta arm is evaluated on attribute lists in both orders; the declared label is the one passed in, unmodified; tokens the filter makes up carry a namespace. Known findings: the bytes come from Python's codec of the label as passed, chunk by chunk (a BOM per chunk for utf-16), and raw-text elements get references that no reader decodes.")
NOT_DECIDED = ("that the bytes decode to the same tree (prescan, re-parse, codecs); streams without a head end tag; labels "
               "that codecs.lookup and the reading side resolve differently.")
MODULES = ["filters/inject_meta_charset.py", "serializer.py", "constants.py"]
REL = "filters/inject_meta_charset.py"


def _canonical_filter(f):
    """The filter's locals are found by role and renamed to the names the rules below are written in."""
    import copy
    from ..repo import discover_locals, rename_locals

    def name_of(t):
        return t.id if isinstance(t, ast.Name) else None

    def simple(st):
        return isinstance(st, ast.Assign) and len(st.targets) == 1 and isinstance(st.targets[0], ast.Name)
    loop = next((s for s in f.node.body if isinstance(s, ast.For)), None)
    tokv = name_of(loop.target) if loop is not None else None
    roles = [
        ("meta_found", lambda st: st.targets[0].id if simple(st) and "self.encoding is None" in norm(st.value) else None),
        ("state", lambda st: st.targets[0].id if simple(st) and isinstance(st.value, ast.Constant) and st.value.value == "pre_head" else None),
        ("token", lambda st: tokv if st is loop else None),
        ("type", lambda st: st.targets[0].id if simple(st) and tokv and norm(st.value) == "%s['type']" % tokv else None),
        ("pending", lambda st: st.targets[0].id if simple(st) and isinstance(st.value, ast.List) and not st.value.elts and any(
            isinstance(c, ast.Call) and isinstance(c.func, ast.Attribute) and c.func.attr == "append" and
            norm(c.func.value) == st.targets[0].id and c.args and norm(c.args[0]) == tokv for c in ast.walk(f.node)) else None),
        ("has_http_equiv_content_type", lambda st: st.targets[0].id if simple(st) and isinstance(st.value, ast.Constant) and st.value.value is False else None),
    ]
    mapping = discover_locals(f.node, roles)
    for lp in ast.walk(f.node):
        if isinstance(lp, ast.For) and isinstance(lp.target, ast.Tuple) and len(lp.target.elts) == 2 and \
                isinstance(lp.target.elts[0], ast.Tuple) and len(lp.target.elts[0].elts) == 2 and ".items()" in norm(lp.iter):
            (a, b), c = lp.target.elts[0].elts, lp.target.elts[1]
            if all(isinstance(x, ast.Name) for x in (a, b, c)):
                mapping.update({a.id: "namespace", b.id: "name", c.id: "value"})
    g = copy.copy(f)
    g.node = rename_locals(f.node, mapping)
    return g


def _evaluate_meta_rewrite(ctx, f):
    """Run the filter's handling of one `<meta ...>` EmptyTag token for representative attribute lists (a charset attribute; the
    http-equiv / content pair in both orders and in mixed case; look-alikes that declare nothing) and compare what is left in the
    token and in the found-flag with what the statement asks for: an existing declaration is rewritten to the requested encoding
    and counted, anything else is left alone and not counted.  Returns True when every case could be decided."""
    from collections import OrderedDict
    from ..partition import MiniInterp, Opaque
    r = ctx.r
    ce = ctx.ce
    arm = None
    for n in ast.walk(f.node):
        if isinstance(n, ast.If) and "'meta'" in norm(n.test) and "token['name']" in norm(n.test):
            arm = n
            break
    if arm is None:
        return False
    flags = sorted({x.id for st in arm.body for x in ast.walk(st) if isinstance(x, ast.Name) and isinstance(x.ctx, ast.Store)})
    found_flag = next((x for x in flags if "found" in x), None)
    if found_flag is None:
        return False
    CASES = [
        ("charset", [((None, "charset"), "old")], {(None, "charset"): "NEW"}, True),
        ("charset-upper", [((None, "CHARSET"), "old")], {(None, "CHARSET"): "NEW"}, True),
        ("pragma", [((None, "http-equiv"), "Content-Type"), ((None, "content"), "text/html; charset=old")],
         {(None, "http-equiv"): "Content-Type", (None, "content"): "text/html; charset=NEW"}, True),
        ("pragma-content-first", [((None, "content"), "text/html; charset=old"), ((None, "http-equiv"), "content-type")],
         {(None, "content"): "text/html; charset=NEW", (None, "http-equiv"): "content-type"}, True),
        ("pragma-with-other-attrs", [((None, "id"), "x"), ((None, "content"), "text/html; charset=old"), ((None, "name"), "y"), ((None, "http-equiv"), "content-type")],
         {(None, "id"): "x", (None, "content"): "text/html; charset=NEW", (None, "name"): "y", (None, "http-equiv"): "content-type"}, True),
        ("refresh", [((None, "http-equiv"), "refresh"), ((None, "content"), "5; url=x")], {(None, "http-equiv"): "refresh", (None, "content"): "5; url=x"}, False),
        ("content-only", [((None, "content"), "text/html; charset=old")], {(None, "content"): "text/html; charset=old"}, False),
        ("name-description", [((None, "name"), "description"), ((None, "content"), "charset")], {(None, "name"): "description", (None, "content"): "charset"}, False),
        ("namespaced-charset", [(("ns", "charset"), "old")], {("ns", "charset"): "old"}, False),
    ]
    decided = True
    for label, attrs, want, want_found in CASES:
        data = OrderedDict(attrs)
        token = {"type": "EmptyTag", "name": "meta", "namespace": None, "data": data}

        def expr_hook(node, env):
            if norm(node) == "self.encoding":
                return "NEW"
            return NotImplemented

        def stmt_hook(st, o, interp):
            if isinstance(st, ast.Assign) and len(st.targets) == 1 and isinstance(st.targets[0], ast.Subscript) and \
                    norm(st.targets[0].value) == "token['data']":
                o.env["token"]["data"][interp.eval_expr(st.targets[0].slice, o.env)] = interp.eval_expr(st.value, o.env)
                return False
            if isinstance(st, ast.For):
                if isinstance(st.iter, ast.Call) and isinstance(st.iter.func, ast.Attribute) and st.iter.func.attr in ("items", "keys", "values") and not st.iter.args:
                    seq = list(getattr(interp.eval_expr(st.iter.func.value, o.env), st.iter.func.attr)())
                else:
                    seq = list(interp.eval_expr(st.iter, o.env))
                broke = False
                for item in seq:
                    tgt = st.target
                    def bind(t, v):
                        if isinstance(t, ast.Name):
                            o.env[t.id] = v
                        else:
                            for tt, vv in zip(t.elts, v):
                                bind(tt, vv)
                    bind(tgt, item)
                    left = interp._block(st.body, o)
                    if o.returned or o.raised:
                        return True
                    if left and o.flow == "break":
                        o.flow = None
                        broke = True
                        break
                    o.flow = None
                if not broke:
                    return interp._block(st.orelse, o)
                return False
            return NotImplemented
        key = "meta-rewrite[%s]" % label
        env = {"token": token, "self": Opaque("self"), "type": "EmptyTag"}
        for fl in flags:
            env.setdefault(fl, False)
        try:
            res = MiniInterp(ce, f.module, expr_hook=expr_hook, stmt_hook=stmt_hook).run(arm.body, env)
        except Exception as e:      # noqa: BLE001
            decided = False
            r.note("meta-rewrite[%s] not evaluated: %s: %s" % (label, type(e).__name__, str(e)[:120]))
            continue
        got, got_found = dict(token["data"]), bool(res.env.get(found_flag))
        r.check("R15.2", got == want and got_found == want_found, key, "%s:%d" % (REL, arm.lineno),
                "<meta %s> with the requested encoding NEW: the filter leaves %s and %s it as a declaration; expected %s, %s" % (
                    " ".join("%s=%r" % (k[1], v) for k, v in attrs), got, "counts" if got_found else "does not count", want,
                    "counted" if want_found else "not counted"), detail={"found": got_found})
    return decided


def codec_agreement(ctx):
    """R15.6: the bytes have to be produced by the encoder of the encoding that a *reader* resolves the declared label to (the
    reader goes through webencodings / the Encoding standard: `latin1` means windows-1252, `big5` means Big5-HKSCS, ...).
    Encoding with `str.encode(<the label as passed>)` uses Python's codec of that name instead, which differs for these labels.
    R15.7: the output is encoded chunk by chunk; a codec that writes a signature (BOM) at the start of every call -- Python's
    `utf-16` / `utf-32` -- or keeps shift state between calls therefore needs one incremental encoder for the whole output."""
    r = ctx.r
    r.rule("R15.6", "output bytes come from the encoder of the encoding the declared label resolves to for a reader", floor=1)
    r.rule("R15.7", "chunk-wise encoding uses one incremental encoder (no per-chunk signature / shift state)", floor=1)
    cls = ctx.repo.cls("serializer.py", "HTMLSerializer")
    ser = cls.find_method("serialize")
    stores = [a for a in ast.walk(ser.node) if isinstance(a, ast.Assign) and norm(a.targets[0]) == "self.encoding"]
    raw_label = len(stores) == 1 and isinstance(stores[0].value, ast.Name) and stores[0].value.id in ser.params()
    encs = []
    for nm in ("encode", "encodeStrict"):
        if cls.find_method(nm) is None:
            raise AnalysisError("HTMLSerializer.%s vanished" % nm)
    # the str.encode calls of the class (in encode / encodeStrict or in a helper they share)
    for m in cls.methods.values():
        for c in ast.walk(m.node):
            if isinstance(c, ast.Call) and isinstance(c.func, ast.Attribute) and c.func.attr == "encode" and c.args and \
                    isinstance(c.func.value, ast.Name) and c.func.value.id in m.params()[1:]:
                encs.append((m.name, c))
    by_label = [(nm, c) for nm, c in encs if norm(c.args[0]) == "self.encoding"]
    resolved = any("lookup" in norm(n) for n in ast.walk(ser.node) if isinstance(n, ast.Call)) or \
        any("codec_info" in norm(c) or "incrementalencoder" in norm(c) for _, c in encs)
    r.idiom("R15.6", bool(encs) and resolved and not by_label, "encoder-of-declared-label", ser.where,
            "how the serializer picks its encoder was not recognised",
            wrong=[(raw_label and len(by_label) == len(encs) and not resolved,
                    "text is encoded with str.encode(<label as passed>), i.e. Python's codec of that name, while a reader resolves the declared "
                    "label through the Encoding standard: serialize(parse('<p>\\x85</p>'), encoding='latin1') writes the byte 0x85 under "
                    "<meta charset=latin1>, which is read back as windows-1252 (U+2026); shift_jis writes U+00A5 as 0x5C")])
    # R15.8: inside raw-text elements (script, style, ...) a reader decodes no character references, so replacing an
    # unencodable character by `&name;` there silently changes the text
    from .c08 import _text_arm
    r.rule("R15.8", "raw text is not passed through the reference-replacing encoder without a report", floor=1)
    arm = _text_arm(ser)
    raw_yields = []
    if arm is not None:
        for st in arm.body:
            for y in ast.walk(st):
                if isinstance(y, ast.Yield) and y.value is not None and norm(y.value) == "self.encode(token['data'])":
                    raw_yields.append(y)
    reports = arm is not None and any("encod" in norm(c).lower() and "serializeError" in norm(c) for st in arm.body for c in ast.walk(st) if isinstance(c, ast.Call))
    r.idiom("R15.8", arm is not None and not raw_yields, "raw-text-encoder", ser.where, "how raw text is encoded was not recognised",
            wrong=[(bool(raw_yields) and not reports,
                    "the text of script / style / xmp / ... is written through encode(), whose error handler replaces an unencodable character "
                    "by a character reference; a reader does not decode references there: a script whose text is `s = 'caf\\xe9'`, rendered as "
                    "ascii, becomes `s = 'caf&eacute;'` and stays that way, and no error is reported")])
    incremental = any("incrementalencoder" in norm(n) for n in ast.walk(cls.node))
    r.idiom("R15.7", incremental, "one-encoder-for-all-chunks", ser.where, "chunk-wise encoding: no incremental encoder found",
            wrong=[(bool(by_label) and not incremental,
                    "every chunk is encoded by a separate str.encode() call: with encoding='utf-16' each chunk starts with a byte-order mark "
                    "(b'\\xff\\xfe<\\x00h\\x00...\\xff\\xfe>\\x00'), read back as U+FEFF inside tag names")])


def run(ctx):
    r = ctx.r
    ce, repo = ctx.ce, ctx.repo
    r.explanation = ("HTMLSerializer.serialize's filter wiring and yields, the injection filter's CFG and the encode helpers are "
                     "checked structurally; the reverse entity map is re-used from C14.")
    r.not_decided = NOT_DECIDED
    r.rule("R15.1", "injection filter applied iff an encoding is requested, before every other filter", floor=2)
    r.rule("R15.2", "injection filter: inject iff not found, flush buffered head, rewrite existing declarations, drop nothing", floor=8)
    r.rule("R15.3", "data through encode() / markup through encodeStrict(); handler registered under the name used", floor=10)
    ser = repo.func("serializer.py", "HTMLSerializer.serialize")
    # ---- R15.1
    ifs = [s for s in ser.node.body if isinstance(s, ast.If)]
    first = ifs[0] if ifs else None
    ok = first is not None and norm(first.test) == "encoding and self.inject_meta_charset" and \
        any(norm(s) == "treewalker = Filter(treewalker, encoding)" for s in first.body) and \
        any(isinstance(s, ast.ImportFrom) and s.module == "filters.inject_meta_charset" for s in first.body)
    r.check("R15.1", ok, "applied-iff-encoding", ser.where,
            "the meta-charset filter is not applied exactly when an encoding is requested (first filter test: %s)" % (norm(first.test) if first else None))
    stores = [s for s in ser.node.body if isinstance(s, ast.Assign) and norm(s.targets[0]) == "self.encoding"]
    r.check("R15.1", len(stores) == 1 and norm(stores[0].value) == "encoding" and stores[0].lineno < first.lineno, "encoding-stored-first",
            ser.where, "self.encoding is not set from the argument before the pipeline is built")

    # ---- R15.2
    f = repo.func(REL, "Filter.__iter__")
    f = _canonical_filter(f)
    cfg = CFG(f.node)
    src = " ".join(norm(f.node).split())

    def is_meta_expr(e, depth=0):
        t = norm(e)
        if "'name': 'meta'" in t and "(None, 'charset')" in t and "encoding" in t:
            return True
        # a helper that builds the token
        if depth == 0 and isinstance(e, ast.Call):
            fn = e.func
            nm = fn.attr if isinstance(fn, ast.Attribute) else fn.id if isinstance(fn, ast.Name) else None
            for h in f.module.all_functions:
                if h.name == nm:
                    return any(isinstance(x, ast.Return) and x.value is not None and is_meta_expr(x.value, 1) for x in ast.walk(h.node))
        return False

    def yields_meta(n):
        return n.kind == "stmt" and isinstance(n.ast, ast.Expr) and isinstance(n.ast.value, ast.Yield) and \
            n.ast.value.value is not None and is_meta_expr(n.ast.value.value)
    metas = [n for n in cfg.stmt_nodes() if yields_meta(n)]
    r.idiom("R15.2", len(metas) == 2, "two-injection-sites", f.where, "expected an injection for an empty head and one at </head>; found %d" % len(metas),
            wrong=[(len(metas) == 1 and "meta" in src, "only one of the two injection sites (empty head / </head>) is left")])
    for m in metas:
        dom = cfg.dominated_by(m, lambda n, lab: n.kind == "test" and norm(n.ast) == "meta_found" and lab is False)
        r.check("R15.2", dom, "inject-only-if-not-found@%d" % metas.index(m), "%s:%d" % (REL, m.lineno),
                "a meta declaration is injected although one was already found (duplicate declarations)")
    # at </head>: when not found the injection happens on every path before the flush loop ends
    end_arm = [n for n in cfg.nodes if n.kind == "test" and norm(n.ast) == "pending"]
    flush = [n for n in cfg.stmt_nodes() if n.kind == "stmt" and norm(n.ast) == "yield pending.pop(0)"]
    r.idiom("R15.2", len(flush) == 2 and "while pending: yield pending.pop(0)" in src, "flush-pending", f.where,
            "buffered head tokens are not flushed completely at </head>",
            wrong=[("while pending" not in src and "for " + "x in pending" not in src and len(flush) <= 1, None)])
    after = [n for n in cfg.stmt_nodes() if n.kind == "stmt" and norm(n.ast) == "state = 'post_head'"]
    if after:
        bad = cfg.must_precede(after, lambda n: n.kind == "test" and norm(n.ast) == "meta_found")
        r.check("R15.2", not bad, "head-end-considers-injection", "%s:%d" % (REL, after[0].lineno),
                "the </head> path can finish without considering whether a meta must be injected")
    else:
        raise AnalysisError("inject_meta_charset: post_head transition not found")
    # rewrite of existing declarations: the arm that handles a meta EmptyTag is *evaluated* on attribute lists in both orders
    evaluated = _evaluate_meta_rewrite(ctx, f)
    rew = [n for n in cfg.stmt_nodes() if n.kind == "stmt" and isinstance(n.ast, ast.Assign) and norm(n.ast.targets[0]).startswith("token['data'][")]
    texts = sorted(norm(n.ast) for n in rew)
    r.idiom("R15.2", evaluated or texts == ["token['data'][None, 'content'] = 'text/html; charset=%s' % self.encoding",
                               "token['data'][namespace, name] = self.encoding"], "rewrites", f.where,
            "existing declarations are not rewritten to the requested encoding: %s" % texts,
            wrong=[(len(texts) < 2, None),
                   (any(isinstance(n.ast.value, ast.Call) and isinstance(n.ast.value.func, ast.Attribute) and n.ast.value.func.attr in ("sub", "replace", "subn")
                        for n in rew),
                    "the content= value of an existing pragma is rewritten by substituting inside the old value: when the old value has no "
                    "charset parameter (content=\"text/html\") nothing is substituted, yet the declaration counts as found and none is "
                    "injected -- the output declares no encoding")])
    for n in rew:
        if "charset=%s" in norm(n.ast):
            dom = cfg.dominated_by(n, lambda m, lab: m.kind == "test" and norm(m.ast) == "has_http_equiv_content_type" and lab is True)
            r.check("R15.2", dom, "http-equiv-rewrite-guard", "%s:%d" % (REL, n.lineno), "content= is rewritten without an http-equiv=content-type test")
        else:
            dom = cfg.dominated_by(n, lambda m, lab: m.kind == "test" and norm(m.ast) == "name.lower() == 'charset'" and lab is True)
            r.check("R15.2", dom, "charset-rewrite-guard", "%s:%d" % (REL, n.lineno), "an attribute other than charset is overwritten")
        # a rewrite marks the declaration as found
        bad = cfg.must_follow([n], lambda m: m.kind == "stmt" and norm(m.ast) == "meta_found = True")
        r.check("R15.2", not bad, "rewrite-sets-found@%d" % rew.index(n), "%s:%d" % (REL, n.lineno),
                "a rewritten declaration is not recorded as found: a second one would be injected")
    # "found" means a declaration of the requested encoding is in the output: every path to a `meta_found = True` store has
    # written the encoding into a token / injected one, or had found one before
    founds = [n for n in cfg.stmt_nodes() if n.kind == "stmt" and norm(n.ast) == "meta_found = True"]
    if len(founds) < 3:
        r.idiom("R15.2", False, "found-means-declared", f.where, "expected >= 3 `meta_found = True` stores, found %d" % len(founds))

    def declares(n, lab):
        if n.kind == "stmt" and isinstance(n.ast, ast.Assign) and norm(n.ast.targets[0]).startswith("token['data'][") and "self.encoding" in norm(n.ast.value):
            return True
        if yields_meta(n):
            return True
        if n.kind == "test" and norm(n.ast) == "meta_found" and lab is True:
            return True
        return False
    for fn_ in founds:
        dom = cfg.dominated_by(fn_, declares)
        r.check("R15.2", dom, "found-means-declared@%d" % founds.index(fn_), "%s:%d" % (REL, fn_.lineno),
                "a declaration is recorded as found on a path on which nothing was rewritten or injected (for example an "
                "http-equiv=content-type meta without a content attribute): the output then carries no declaration of the encoding",
                detail={"line": fn_.lineno})
    # the pragma flag describes the current meta token: it is reset for every token before it is read
    flag_sets = [n for n in cfg.stmt_nodes() if n.kind == "stmt" and isinstance(n.ast, ast.Assign) and isinstance(n.ast.targets[0], ast.Name)
                 and isinstance(n.ast.value, ast.Constant) and n.ast.value.value is True and
                 cfg.dominated_by(n, lambda m, lab: m.kind == "test" and "'content-type'" in norm(m.ast) and lab is True)]
    outer = [n for n in cfg.nodes if n.kind == "loopiter" and "base.Filter.__iter__" in norm(n.ast.iter)]
    if len(flag_sets) == 1 and len(outer) == 1:
        flag = flag_sets[0].ast.targets[0].id
        uses = [n for n in cfg.nodes if n.kind == "test" and norm(n.ast) == flag]
        resets = [n for n in cfg.stmt_nodes() if n.kind == "stmt" and isinstance(n.ast, ast.Assign) and norm(n.ast.targets[0]) == flag
                  and isinstance(n.ast.value, ast.Constant) and n.ast.value.value is False]
        for u in uses:
            par = cfg.reach_backward([u], lambda m: m in resets)
            r.check("R15.2", outer[0].id not in par, "pragma-flag-per-token@%d" % uses.index(u), "%s:%d" % (REL, u.ast.lineno),
                    "the flag `%s` (this meta has http-equiv=content-type) can be read without having been reset for the current token: "
                    "after one pragma every later meta with a content attribute is rewritten to a charset declaration" % flag,
                    detail={"flag": flag})
    else:
        r.idiom("R15.2", False, "pragma-flag-per-token", f.where, "http-equiv flag / token loop not recognised")
    # recognition of existing declarations is as case-insensitive as the reading side (the parser lower-cases the
    # http-equiv value; attribute and element names reach the filter lower-cased for HTML but not for foreign content)
    insens = lambda e: isinstance(e, ast.Call) and isinstance(e.func, ast.Attribute) and e.func.attr in ("lower", "casefold", "translate")  # noqa: E731
    for lit, what in (("content-type", "the http-equiv value"), ("charset", "the charset attribute name")):
        tests = [n for n in ast.walk(f.node) if isinstance(n, ast.Compare) and len(n.ops) == 1 and isinstance(n.ops[0], ast.Eq)
                 and isinstance(n.comparators[0], ast.Constant) and n.comparators[0].value == lit]
        ok = len(tests) == 1 and insens(tests[0].left)
        r.check("R15.2", ok, "case-insensitive:%s" % lit, f.where,
                "%s is compared case-sensitively with %r: a declaration spelt `Content-Type` / `CHARSET` is not recognised, the "
                "stale one stays and a second one is injected" % (what, lit), detail={"literal": lit})
    reader = repo.func("html5parser.py", "InHeadPhase.startTagMeta")
    rtests = [n for n in ast.walk(reader.node) if isinstance(n, ast.Compare) and len(n.ops) == 1 and isinstance(n.ops[0], ast.Eq)
              and isinstance(n.comparators[0], ast.Constant) and n.comparators[0].value == "content-type"]
    # (when the reader is not written as one comparison, C06.7 decides its case-insensitivity by running it: pragma-mixed-case)
    from .c06 import late_meta_evaluated
    reader_evaluated = False
    if not (len(rtests) == 1):
        class _Quiet:
            failed = []

            def check(self, rid, cond, key, *a, **k):
                if not cond and "pragma-mixed-case" in key and "tentative" in key:
                    self.failed.append(key)
                return cond

            def __getattr__(self, _):
                return lambda *a, **k: True
        q = _Quiet()
        q.failed = []
        qctx = type("Q", (), {"r": q, "ce": ctx.ce, "repo": ctx.repo})()
        mixed = [("pragma-mixed-case", {"http-equiv": "Content-Type", "content": "text/html; charset=x"}, True)]
        reader_evaluated = late_meta_evaluated(qctx, reader, mixed)
        if reader_evaluated and q.failed:
            r.bad("R15.2", "reader-is-case-insensitive", reader.where,
                  "the tree builder's <meta> handler does not recognise `http-equiv=Content-Type` (mixed case) as an encoding declaration (decided by "
                  "running it): the declaration the serializer's filter writes or keeps is not honoured by the reading side")
            reader_evaluated = None
    if reader_evaluated is not None:
        r.idiom("R15.2", reader_evaluated or len(rtests) == 1 and insens(rtests[0].left) and "'http-equiv'" in norm(rtests[0].left), "reader-is-case-insensitive", reader.where,
            "the reading side's http-equiv test was not recognised (writer/reader agreement basis changed)",
            wrong=[(len(rtests) == 1 and not insens(rtests[0].left), "the reading side no longer lower-cases the http-equiv value: the "
                    "writer recognises `Content-Type`, the reader does not (judged by C06.7)")])
    # no token dropped: the loop body ends with `if state == "in_head": pending.append(token) else: yield token`,
    # and the only `continue` follows the replacement of an empty head
    loop = next((s for s in f.node.body if isinstance(s, ast.For)), None)
    if loop is None:
        raise AnalysisError("inject_meta_charset: token loop not found")
    last = loop.body[-1]
    ok = isinstance(last, ast.If) and norm(last.test) == "state == 'in_head'" and [norm(s) for s in last.body] == ["pending.append(token)"] \
        and [norm(s) for s in last.orelse] == ["yield token"]
    r.idiom("R15.2", ok, "every-token-kept", "%s:%d" % (REL, last.lineno), "a source token can be dropped: the loop does not end with buffer-or-yield",
            wrong=[(isinstance(last, ast.If) and norm(last.test) == "state == 'in_head'" and not ok, None)])
    conts = [n for n in cfg.stmt_nodes() if n.kind == "stmt" and False]
    n_cont = sum(1 for n in ast.walk(loop) if isinstance(n, ast.Continue) and not any(
        isinstance(a, ast.For) and a is not loop and any(x is n for x in ast.walk(a)) for a in ast.walk(loop)))
    import re as _re
    r.idiom("R15.2", n_cont == 1 and _re.search(r"yield \{'type': 'EndTag', 'name': 'head'[^}]*\} meta_found = True continue", src) is not None, "continue-only-after-replacement",
            f.where, "a `continue` skips the buffer-or-yield step other than after replacing an empty head (%d)" % n_cont)
    init = repo.func(REL, "Filter.__init__")
    rewrites = [norm(a) for a in ast.walk(init.node) if isinstance(a, (ast.Assign, ast.AugAssign)) and
                any(isinstance(t, ast.Name) and t.id == "encoding" for t in (a.targets if isinstance(a, ast.Assign) else [a.target]))]
    r.check("R15.2", any(norm(s) == "self.encoding = encoding" for s in init.node.body) and not rewrites, "encoding-stored", init.where,
            "the filter does not declare the label it was asked for%s" % (
                ": it rewrites it first (`%s`) -- the name Python's codec registry gives (euc_jp, mac-roman, iso2022_jp, ...) is not a label "
                "the Encoding standard knows, so the declaration is unreadable and the bytes are decoded with the fallback" % rewrites[0] if rewrites else ""))

    # ---- R15.3
    from .c08 import serialize_cfg, yields
    sf, scfg = serialize_cfg(ctx)
    data_exprs = ("token['data']", "escape(token['data'])", "v")
    for y in yields(scfg):
        val = y.ast.value.value
        key = "yield@%s" % norm(val)[:50]
        if not (isinstance(val, ast.Call) and norm(val.func) in ("self.encode", "self.encodeStrict") and len(val.args) == 1):
            r.bad("R15.3", key, "%s:%d" % ("serializer.py", y.lineno), "output that does not pass through encode()/encodeStrict(): %s" % norm(val))
            continue
        arg = norm(val.args[0])
        # document data: the token's text, an attribute value (`v`, `attr_value`) or anything computed from them
        is_data = arg in data_exprs or any(
            (isinstance(x, ast.Name) and x.id in ("v", "attr_value")) or
            (isinstance(x, ast.Subscript) and norm(x) == "token['data']") for x in ast.walk(val.args[0]))
        if is_data:
            r.check("R15.3", norm(val.func) == "self.encode", key, "serializer.py:%d" % y.lineno,
                    "document text / attribute value `%s` is encoded strictly: an unencodable character raises instead of being "
                    "written as a character reference" % arg, detail={"kind": "data", "via": norm(val.func)})
        else:
            r.ok("R15.3", key, "serializer.py:%d" % y.lineno, detail={"kind": "markup", "via": norm(val.func)})
    enc = repo.func("serializer.py", "HTMLSerializer.encode")
    encs = repo.func("serializer.py", "HTMLSerializer.encodeStrict")
    def handler_of(m, depth=0):
        """the error-handler name with which the method encodes its argument (through one helper method at most)"""
        found = set()
        for c in ast.walk(m.node):
            if isinstance(c, ast.Call) and isinstance(c.func, ast.Attribute) and c.func.attr == "encode" and len(c.args) == 2 and \
                    norm(c.func.value) != "self":
                v = ce.try_eval(c.args[1], m.module)
                found.add(v if isinstance(v, str) else ("param", norm(c.args[1])))
            elif depth == 0 and isinstance(c, ast.Call) and isinstance(c.func, ast.Attribute) and norm(c.func.value) == "self" and m.cls is not None:
                h = m.cls.find_method(c.func.attr)
                if h is not None and h is not m:
                    for x in handler_of(h, 1):
                        if isinstance(x, tuple) and x[1] in h.params():
                            k = h.params()[1:].index(x[1])
                            if k < len(c.args):
                                v = ce.try_eval(c.args[k], m.module)
                                found.add(v if isinstance(v, str) else ("param", norm(c.args[k])))
                        else:
                            found.add(x)
        return found
    he, hs = handler_of(enc), handler_of(encs)
    r.idiom("R15.3", he == {"htmlentityreplace"} and hs == {"strict"}, "encoder-error-handlers", enc.where,
            "the error handlers of encode() / encodeStrict() were not recognised (%s / %s)" % (sorted(map(str, he)), sorted(map(str, hs))),
            wrong=[(bool(he) and all(isinstance(x, str) for x in he) and he != {"htmlentityreplace"},
                    "encode() encodes with the error handler %s, not htmlentityreplace: unencodable text is not written as character references" % sorted(he)),
                   (bool(hs) and all(isinstance(x, str) for x in hs) and hs != {"strict"},
                    "encodeStrict() encodes with the error handler %s, not strict: markup that cannot be encoded is silently altered" % sorted(hs))])
    mod = repo.module("serializer.py")
    reg = [norm(s) for s in mod.tree.body if isinstance(s, ast.Expr) and isinstance(s.value, ast.Call) and norm(s.value.func) == "register_error"]
    r.check("R15.3", reg == ["register_error('htmlentityreplace', htmlentityreplace_errors)"], "handler-registered", "serializer.py",
            "the reference-replacing handler is not registered under the name encode() uses: %s" % reg)
    rend = repo.func("serializer.py", "HTMLSerializer.render")
    r.check("R15.3", "b''.join(list(self.serialize(treewalker, encoding)))" in norm(rend.node), "render-passes-encoding", rend.where,
            "render() does not pass the encoding on to serialize()")
    # ---- R15.4
    from . import c14
    r.rule("R14.5", "every named reference the encoder emits decodes back to the same character; form is &name; or &#x..;", floor=1000)
    c14.reverse_map(ctx, ce.const("constants.py", "entities"))
    codec_agreement(ctx)
    # R15.9: the tokens the filter makes up itself (the re-built <head> / </head> and the injected <meta>) have the shape of the
    # tokens a tree walker emits -- in particular a "namespace" entry; the filters that run after it (sanitizer, Lint) index it
    r.rule("R15.9", "tokens created by the injection filter carry a namespace like every walker token", floor=2)
    made = [d for d in ast.walk(f.node) if isinstance(d, ast.Dict) and any(isinstance(k, ast.Constant) and k.value == "type" for k in d.keys)
            and any(isinstance(k, ast.Constant) and k.value == "name" for k in d.keys)]
    for h in f.module.all_functions:
        if h.name != "__iter__" and h.cls is None:
            made += [d for d in ast.walk(h.node) if isinstance(d, ast.Dict) and any(isinstance(k, ast.Constant) and k.value == "type" for k in d.keys)
                     and any(isinstance(k, ast.Constant) and k.value == "name" for k in d.keys)]
    if not made:
        r.idiom("R15.9", False, "made-up-tokens-have-namespace", f.where, "the tokens the filter creates were not found")
    for d in made:
        keys = {k.value for k in d.keys if isinstance(k, ast.Constant)}
        ty = next((norm(v) for k, v in zip(d.keys, d.values) if isinstance(k, ast.Constant) and k.value == "type"), "?")
        r.check("R15.9", "namespace" in keys, "made-up-tokens-have-namespace::%s@%d" % (ty.strip("'"), made.index(d)), "%s:%d" % (REL, d.lineno),
                "the filter yields a %s token without a \"namespace\" entry: every token of a tree walker has one and the filters after it rely "
                "on it -- HTMLSerializer(sanitize=True).render(walker(parse('<p>x')), 'koi8-r') raises KeyError: 'namespace' (and Lint "
                "rejects the stream)" % ty, detail={"keys": sorted(keys)})


def thorough(ctx):
    from .. import selftest
    selftest.run(ctx, sys.modules[__name__])


def mutants():
    from ..selftest import TextMutant as T
    S = "serializer.py"
    return [
        T("injected-meta-without-namespace", REL, "                        yield {\"type\": \"EmptyTag\", \"name\": \"meta\",\n                               \"namespace\": token.get(\"namespace\"),\n", "                        yield {\"type\": \"EmptyTag\", \"name\": \"meta\",\n", "R15.9"),
        T("pragma-substitute", REL, "                            token[\"data\"][(None, \"content\")] = 'text/html; charset=%s' % self.encoding", "                            token[\"data\"][(None, \"content\")] = token[\"data\"][(None, \"content\")].replace(\"charset=x\", 'charset=%s' % self.encoding)", "R15.2"),
        T("flag-never-reset", REL, "                    # replace charset with actual encoding\n                    has_http_equiv_content_type = False\n",
          "                    # replace charset with actual encoding\n", "R15.2"),
        T("found-without-content", REL, "                        if has_http_equiv_content_type and (None, \"content\") in token[\"data\"]:\n                            token[\"data\"][(None, \"content\")] = 'text/html; charset=%s' % self.encoding\n                            meta_found = True",
          "                        if has_http_equiv_content_type:\n                            if (None, \"content\") in token[\"data\"]:\n                                token[\"data\"][(None, \"content\")] = 'text/html; charset=%s' % self.encoding\n                            meta_found = True", "R15.2"),
        T("always-inject", S, "        if encoding and self.inject_meta_charset:", "        if self.inject_meta_charset:", "R15.1"),
        T("inject-after-sanitize", S, "        if encoding and self.inject_meta_charset:\n            from .filters.inject_meta_charset import Filter\n            treewalker = Filter(treewalker, encoding)\n", "", "R15.1"),
        T("inject-even-if-found", REL, "                    if not meta_found:\n                        yield {\"type\": \"EmptyTag\", \"name\": \"meta\",", "                    if True:\n                        yield {\"type\": \"EmptyTag\", \"name\": \"meta\",", "R15.2"),
        T("no-flush", REL, "                    while pending:\n                        yield pending.pop(0)\n", "", "R15.2"),
        T("charset-not-rewritten", REL, "                            token[\"data\"][(namespace, name)] = self.encoding\n", "", "R15.2"),
        T("found-not-set", REL, "                            token[\"data\"][(None, \"content\")] = 'text/html; charset=%s' % self.encoding\n                            meta_found = True",
          "                            token[\"data\"][(None, \"content\")] = 'text/html; charset=%s' % self.encoding", "R15.2"),
        T("http-equiv-case", REL, "elif name == 'http-equiv' and value.lower() == 'content-type':", "elif name == 'http-equiv' and value == 'content-type':", "R15.2"),
        T("text-strict", S, "                    yield self.encode(escape(token[\"data\"]))", "                    yield self.encodeStrict(escape(token[\"data\"]))", "R15.3"),
        T("attr-strict", S, "                            yield self.encode(v)\n                            yield self.encodeStrict(quote_char)", "                            yield self.encodeStrict(v)\n                            yield self.encodeStrict(quote_char)", "R15.3"),
        T("handler-name", S, "register_error(\"htmlentityreplace\", htmlentityreplace_errors)", "register_error(\"htmlentityreplace2\", htmlentityreplace_errors)", "R15.3"),
        T("drop-in-head", REL, "            if state == \"in_head\":\n                pending.append(token)\n            else:\n                yield token",
          "            if state == \"in_head\":\n                if type != \"Comment\":\n                    pending.append(token)\n            else:\n                yield token", "R15.2"),
    ]


def preserving():
    from ..selftest import TextMutant as T
    return [
        T("flag-also-initialised-before-loop", REL, "        pending = []\n", "        pending = []\n        has_http_equiv_content_type = False\n", None),
    ]
