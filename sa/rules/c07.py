"""C07 -- serialize-then-parse identity on conforming documents (reader/writer agreement clauses only).

C07.1 OMISSION vs IMPLIED END  = R13.4 (optional-tag filter vs. parser handlers)
Q2    QUOTING   both "needs quotes" classes contain every character that is special in an unquoted value (computed
                from the tokenizer model); the empty value is always quoted
Q3    FOLLOW    whatever can follow an unquoted value in the output starts with a character that ends the value
Q4    ESCAPING  '&' is replaced on every path before emission; the delimiter used is replaced in the value
Q5    MINIMISE  dropping `=value` is lossless only if the value is what the parser gives a value-less attribute ('')
"""
from __future__ import annotations

import ast
import re
import sys

from ..repo import AnalysisError, norm
from ..cfg import node_calls
from .c02 import tokmodel

LEVEL = "other"
TECHNIQUE = ("reader/writer agreement between serializer.py / filters/optionaltags.py and the extracted tokenizer model and "
             "parser dispatch tables; CFG dominance and follow-set computation on HTMLSerializer.serialize")
CLAIM = ("Necessary conditions of the round trip: characters special in an unquoted attribute value (computed from the "
         "tokenizer model) force quoting under both quoting policies; the empty value is quoted; what follows an unquoted value "
         "terminates it; & and the chosen delimiter are escaped on every path; attribute minimisation is flagged where it "
         "changes the value; each tag omission the filter allows is re-implied by the parser handler that sees the next token.")
NOT_DECIDED = ("round-trip equality itself over all conforming trees and option combinations: content-model conformance, text "
               "placement, encodings, white-space stripping.")
MODULES = ["serializer.py", "filters/optionaltags.py", "constants.py", "_tokenizer.py", "html5parser.py"]
REL = "serializer.py"


def declare(ctx):
    r = ctx.r
    if "Q2" in r.rules:
        return
    r.rule("Q2", "both needs-quotes classes contain the characters special in an unquoted value; empty value is quoted", floor=3)
    r.rule("Q3", "every continuation after an unquoted attribute value begins with a character that ends the value", floor=3)
    r.rule("Q4", "'&' and the delimiter in use are escaped in attribute values on every path", floor=3)


def quoting(ctx):
    from .c08 import regex_class, unquoted_special, serialize_cfg
    r = ctx.r
    tm = tokmodel(ctx)
    D, END = unquoted_special(tm)
    D_eff = D - {"&", "\x00"}          # '&' is escaped (Q4); a parsed tree contains no NUL
    f, cfg = serialize_cfg(ctx)
    # the quoting decision of each policy, evaluated on values that contain one character that is special in an unquoted value
    # (at the start, in the middle, at the end): every such value must be quoted
    import re as _re
    compiled = {}
    for st_ in f.module.tree.body:
        if isinstance(st_, ast.Assign) and isinstance(st_.targets[0], ast.Name) and isinstance(st_.value, ast.Call) and \
                norm(st_.value.func) == "re.compile" and st_.value.args:
            pat_ = ctx.ce.try_eval(st_.value.args[0], f.module)
            if isinstance(pat_, str):
                try:
                    compiled[st_.targets[0].id] = _re.compile(pat_)
                except _re.error:
                    pass
    for policy in ("spec", "legacy"):
        decs = []
        # in serialize() itself (`quote_attr = <decision>`) or in a helper of the module that returns the decision
        for fn_ in [f] + [x for x in f.module.all_functions if x.qual != f.qual]:
            for n_ in ast.walk(fn_.node):
                if isinstance(n_, ast.If) and norm(n_.test) in ("self.quote_attr_values == '%s'" % policy,):
                    decs += [s_ for s_ in n_.body if (isinstance(s_, ast.Assign) and norm(s_.targets[0]) == "quote_attr") or
                             (fn_ is not f and isinstance(s_, ast.Return) and s_.value is not None)]
        key = "quote-decision::%s" % policy
        if len(decs) != 1:
            r.idiom("Q2", False, key, f.where, "the quoting decision of policy %r was not found" % policy)
            continue
        e = decs[0].value
        shape = (isinstance(e, ast.Compare) and len(e.ops) == 1 and isinstance(e.ops[0], (ast.Is, ast.IsNot)) and
                 isinstance(e.comparators[0], ast.Constant) and e.comparators[0].value is None and isinstance(e.left, ast.Call) and
                 isinstance(e.left.func, ast.Attribute) and e.left.func.attr in ("search", "match", "fullmatch") and
                 isinstance(e.left.func.value, ast.Name) and e.left.func.value.id in compiled and len(e.left.args) == 1
                 and isinstance(e.left.args[0], ast.Name))
        if not shape:
            r.idiom("Q2", False, key, "%s:%d" % (REL, decs[0].lineno), "quoting decision `%s` not recognised" % norm(e)[:80])
            continue
        rx, meth, positive = compiled[e.left.func.value.id], e.left.func.attr, isinstance(e.ops[0], ast.IsNot)
        unquoted = []
        for c in sorted(D_eff):
            for sample in ("a" + c + "b", c + "b", "a" + c, "ab" + c + "cd e"):
                hit = getattr(rx, meth)(sample) is not None
                quoted = hit if positive else not hit
                if not quoted:
                    unquoted.append(sample)
        r.check("Q2", not unquoted, key, "%s:%d" % (REL, decs[0].lineno),
                "with quote_attr_values=%r the value %r is written without quotes (decision `%s`) although it contains a character that "
                "ends or changes an unquoted attribute value: title=\"home onmouseover=alert(1)\" becomes two attributes on re-parse"
                % (policy, unquoted[0] if unquoted else "", norm(e)[:70]), {"policy": policy, "unquoted": unquoted[:5]},
                detail={"policy": policy, "decision": norm(e)[:80], "samples": 4 * len(D_eff)})
    for name in ("_quoteAttributeSpec", "_quoteAttributeLegacy"):
        try:
            cls = regex_class(ctx, name)
        except AnalysisError:
            continue            # the pattern was renamed / reshaped: the decision-based instances above judge it
        missing = sorted(D_eff - cls)
        r.check("Q2", not missing, "needs-quotes::%s" % name, REL,
                "%s does not contain %s, which %s in an unquoted attribute value: such a value is written unquoted and read "
                "back differently" % (name, [repr(c) for c in missing], "ends or changes the value"),
                {"missing": missing}, detail={"class_size": len(cls), "special_in_unquoted_value": sorted(D_eff)})
    # the empty value is always quoted: an emptiness test whose true outcome selects quoting -- in serialize() itself or
    # in a helper of the serializer module that computes the decision
    from ..cfg import CFG as _CFG
    decided_in = None
    has_policy_without_empty = False
    for fn in list(f.module.all_functions):
        fsrc = " ".join(norm(fn.node).split())
        if "quote_attr_values" not in fsrc:
            continue
        c2 = cfg if fn is f else _CFG(fn.node)
        for t in [n for n in c2.nodes if n.kind == "test"]:
            tt = norm(t.ast)
            if re.fullmatch(r"len\((\w+)\) == 0|not (\w+)|(\w+) == ''", tt):
                for m, lab in t.succ:
                    positive = lab is True
                    if positive and m.kind == "stmt" and (norm(m.ast) in ("quote_attr = True", "return True")):
                        decided_in = fn.qual
        if decided_in is None and "== 'always'" in fsrc:
            has_policy_without_empty = True
    r.idiom("Q2", decided_in is not None, "empty-value-quoted", f.where,
            "an empty attribute value is not always quoted: `a=` followed by `>` or another attribute is read differently",
            wrong=[(has_policy_without_empty and not _tests_emptiness(f.module), None)],
            detail={"decided_in": decided_in})
    # the policies map to the classes
    allsrc = " ".join(" ".join(norm(fn.node).split()) for fn in f.module.all_functions)
    r.idiom("Q2", "== 'spec'" in allsrc and "_quoteAttributeSpec.search(" in allsrc and "== 'legacy'" in allsrc and "_quoteAttributeLegacy.search(" in allsrc,
            "policy-wiring", f.where, "the quoting policies no longer consult their regular expressions",
            wrong=[("_quoteAttributeSpec.search(" not in allsrc or "_quoteAttributeLegacy.search(" not in allsrc, None)])


def _tests_emptiness(mod):
    """does any function that implements the quoting policy test the value it hands to the quoting regexes for emptiness?"""
    vars_ = set()
    fns = [fn for fn in mod.all_functions if "quote_attr_values" in norm(fn.node)]
    for fn in fns:
        for c in ast.walk(fn.node):
            if isinstance(c, ast.Call) and isinstance(c.func, ast.Attribute) and c.func.attr == "search" and "_quoteAttribute" in norm(c.func.value) and c.args:
                vars_.add(norm(c.args[0]))
    pats = set()
    for v in vars_:
        pats |= {"len(%s) == 0" % v, "not %s" % v, "%s == ''" % v, "len(%s) < 1" % v, "not len(%s)" % v, "0 == len(%s)" % v, "'' == %s" % v}
    return any(norm(n) in pats for fn in fns for n in ast.walk(fn.node) if isinstance(n, (ast.Compare, ast.UnaryOp)))


def follow(ctx):
    from .c08 import unquoted_special, serialize_cfg, yields
    r = ctx.r
    tm = tokmodel(ctx)
    D, END = unquoted_special(tm)
    f, cfg = serialize_cfg(ctx)
    ys = yields(cfg)
    # the unquoted emission: `yield self.encode(v)` on the false edge of `quote_attr`
    unq = []
    for y in ys:
        if any(isinstance(x, ast.Name) and x.id == "v" for x in ast.walk(y.ast.value.value)):
            def pred(n, lab):
                return n.kind == "test" and norm(n.ast) == "quote_attr" and lab is False
            if cfg.dominated_by(y, pred):
                unq.append(y)
    if len(unq) != 1:
        raise AnalysisError("serialize: unquoted attribute value emission not found")
    par = cfg.reach_forward(unq, lambda n: n in ys)
    # the yields directly reachable (first yield on each path)
    nexts = set()
    for y in ys:
        if any((p.id in par or p in unq) for p, _ in y.pred):
            nexts.add(y)
    if not nexts:
        raise AnalysisError("serialize: nothing follows the unquoted value")
    for y in sorted(nexts, key=lambda n: n.lineno):
        arg = y.ast.value.value
        lit = None
        if isinstance(arg, ast.Call) and arg.args and isinstance(arg.args[0], ast.Constant) and isinstance(arg.args[0].value, str):
            lit = arg.args[0].value
        if lit is None:
            raise AnalysisError("serialize: a non-literal emission can follow an unquoted value: %s" % norm(y.ast))
        first = lit[:1]
        r.check("Q3", first in END, "follow::%r" % lit, "%s:%d" % (REL, y.lineno),
                "%r can be written directly after an unquoted attribute value, but %r does not end an unquoted value in the "
                "tokenizer (it is appended to it): <input value=x/> is read back with the value 'x/'" % (lit, first),
                {"emitted": lit}, detail={"emitted": lit, "terminators": sorted(END)})


def escaping(ctx):
    from .c08 import serialize_cfg, yields
    r = ctx.r
    f, cfg = serialize_cfg(ctx)
    def mentions_v(y):
        return any(isinstance(x, ast.Name) and x.id == "v" for x in ast.walk(y.ast.value.value))
    ys = [y for y in yields(cfg) if mentions_v(y)]
    if len(ys) != 2:
        raise AnalysisError("serialize: expected two attribute value emissions, found %d" % len(ys))

    def repl(old, new):
        def p(n):
            return n.kind == "stmt" and isinstance(n.ast, ast.Assign) and norm(n.ast.targets[0]) == "v" and \
                norm(n.ast.value) == "v.replace(%r, %r)" % (old, new)
        return p
    bad = cfg.must_precede(ys, repl("&", "&amp;"))
    r.check("Q4", not bad, "amp-escaped", f.where,
            "an attribute value can be emitted without replacing '&' (path %s): 'a&amp;b' would come back as 'a&b'"
            % (bad[0][1][:5] if bad else ""), detail={"on_every_path": True})
    quoted = [y for y in ys if cfg.dominated_by(y, lambda n, lab: n.kind == "test" and norm(n.ast) == "quote_attr" and lab is True)]
    if len(quoted) != 1:
        raise AnalysisError("serialize: quoted attribute value emission not found")
    q = quoted[0]
    qexpr = norm(q.ast.value.value)
    tests = [n for n in cfg.nodes if n.kind == "test" and norm(n.ast) in ("quote_char == \"'\"", "quote_char == '\\''", 'quote_char == "\'"')]
    tests = [n for n in cfg.nodes if n.kind == "test" and isinstance(n.ast, ast.Compare) and norm(n.ast.left) == "quote_char"
             and isinstance(n.ast.comparators[0], ast.Constant) and n.ast.comparators[0].value in ("'", '"')]
    ok = False
    why = "no test of quote_char before the value is written"
    for t in tests:
        qc = t.ast.comparators[0].value
        other = '"' if qc == "'" else "'"
        ent = {"'": "&#39;", '"': "&quot;"}
        t_true = [m for m, lab in t.succ if lab is True]
        t_false = [m for m, lab in t.succ if lab is False]
        ok = any(repl(qc, ent[qc])(m) for m in t_true) and any(repl(other, ent[other])(m) for m in t_false) and \
            not cfg.must_precede([q], lambda n, t=t: n is t)
        why = "arms of `%s` do not replace the respective delimiter" % norm(t.ast)
        if ok:
            break
    # the delimiter written is the variable tested
    around = [y for y in yields(cfg) if norm(y.ast.value.value) == "self.encodeStrict(quote_char)"]
    inline = "quote_char + v + quote_char" in qexpr
    r.check("Q4", ok and (len(around) == 2 or inline), "delimiter-escaped", "%s:%d" % (REL, q.lineno),
            "the quoted attribute value is written without escaping the delimiter in use (%s)" % why,
            detail={"delimiter_variable": "quote_char"})
    src = " ".join(norm(f.node).split())
    allsrc = " ".join(" ".join(norm(fn.node).split()) for fn in f.module.all_functions)
    r.idiom("Q4", re.search(r"""if "'" in (\w+) and '"' not in \1: quote_char = '"' elif '"' in \1 and "'" not in \1: quote_char = "'\"""", allsrc) is not None,
            "best-quote", f.where, "use_best_quote_char no longer picks the delimiter that does not occur in the value")


# The (element, attribute) pairs whose value the default minimisation drops on today's tree.  Each is an instance of the known
# finding Q5 minimise-value (`disabled="disabled"` is read back as ""); a pair that is not listed is a *new* instance of the
# same defect (another attribute starts losing its value) and is reported.
MINIMISED_TODAY = {
    '': ['irrelevant', 'itemscope'],
    'audio': ['autoplay', 'controls'],
    'button': ['autofocus', 'disabled'],
    'command': ['checked', 'default', 'disabled', 'hidden'],
    'datagrid': ['disabled', 'multiple'],
    'details': ['open'],
    'fieldset': ['disabled', 'readonly'],
    'hr': ['noshade'],
    'iframe': ['seamless'],
    'img': ['ismap'],
    'input': ['autofocus', 'checked', 'disabled', 'ismap', 'readonly', 'required'],
    'menu': ['autosubmit'],
    'ol': ['reversed'],
    'optgroup': ['disabled', 'readonly'],
    'option': ['disabled', 'readonly', 'selected'],
    'output': ['disabled', 'readonly'],
    'script': ['async', 'defer'],
    'select': ['autofocus', 'disabled', 'multiple', 'readonly'],
    'style': ['scoped'],
    'video': ['autoplay', 'controls'],
}


def minimise(ctx):
    from .c08 import serialize_cfg, yields
    r = ctx.r
    f, cfg = serialize_cfg(ctx)
    eq = [y for y in yields(cfg) if norm(y.ast.value.value) == "self.encodeStrict('=')"]
    if len(eq) != 1:
        raise AnalysisError("serialize: `=` emission not found")
    # the paths that skip `=value`: false edge of the minimisation guard.  Lossless only if v == ''.
    # which (element, attribute) pairs are minimised: decided by evaluating the guard of the `=` emission
    from ..partition import MiniInterp, Opaque
    ba = ctx.ce.const("constants.py", "booleanAttributes")
    gifs = [n for n in ast.walk(f.node) if isinstance(n, ast.If) and "minimize_boolean_attributes" in norm(n.test)
            and any(isinstance(y, ast.Yield) and norm(y.value) == "self.encodeStrict('=')" for s_ in n.body for y in ast.walk(s_))]
    if len(gifs) == 1:
        def hook(node, local):
            if norm(node) == "self.minimize_boolean_attributes":
                return True
            return NotImplemented
        interp = MiniInterp(ctx.ce, f.module, expr_hook=hook)
        elems = sorted(k for k in ba if k)[:6] + ["div", "my-element"]
        attrs = sorted({a for v in ba.values() for a in v})
        for el in elems:
            for at in attrs:
                keeps = None
                try:
                    keeps = interp.eval_guard(gifs[0].test, {"name": el, "k": at, "self": Opaque("self")})
                except AnalysisError:
                    pass
                boolean_here = at in ba.get(el, ()) or at in ba.get("", ())
                key = "minimise-scope[%s %s]" % (el, at)
                if keeps is None:
                    r.idiom("Q5", False, key, "%s:%d" % (REL, gifs[0].lineno), "the minimisation guard is not evaluable")
                    break
                r.check("Q5", keeps == (not boolean_here), key, "%s:%d" % (REL, gifs[0].lineno),
                        "with minimize_boolean_attributes, <%s %s=...> %s its value although `%s` is %sa boolean attribute of <%s>: "
                        "attributes that merely share a name with some element's boolean attribute lose their value (hidden=\"until-found\", "
                        "a custom element's checked=\"mixed\")" % (el, at, "keeps" if keeps else "loses", at, "" if boolean_here else "not ", el),
                        {"element": el, "attribute": at}, detail={"element": el, "attribute": at, "minimised": not keeps})
    else:
        r.idiom("Q5", False, "minimise-scope", f.where, "the guard of the `=` emission was not found")
    for el, attrs_ in sorted(ba.items()):
        for at in sorted(attrs_):
            r.check("Q5", at in MINIMISED_TODAY.get(el, ()), "minimise-table[%s %s]" % (el or "*", at), ctx.ce.provenance(ctx.repo.module("constants.py"), "booleanAttributes"),
                    "booleanAttributes now lists `%s` for %s: with the default minimize_boolean_attributes its value is dropped "
                    "(%s=\"until-found\" is written as a bare `%s` and read back as \"\") -- a new instance of the value-dropping defect"
                    % (at, ("<%s>" % el) if el else "every element", at, at), {"element": el, "attribute": at})
    guard_tests = [n for n in cfg.nodes if n.kind == "test" and ("booleanAttributes" in norm(n.ast) or (
        len(gifs) == 1 and any(x is n.ast for x in ast.walk(gifs[0].test)) and "minimize_boolean_attributes" not in norm(n.ast)))]
    if not guard_tests:
        raise AnalysisError("serialize: boolean-attribute guard not found")
    value_tested = any(n.kind == "test" and norm(n.ast) in ("not v", "v == ''", "len(v) == 0", "v == k", "not attr_value")
                       and any(m is eq[0] or True for m, _ in n.succ)
                       for n in cfg.nodes if n.lineno <= eq[0].lineno and n.lineno >= guard_tests[0].lineno - 2 and n.kind == "test"
                       and "booleanAttributes" not in norm(n.ast) and "minimize" not in norm(n.ast))
    r.check("Q5", value_tested, "minimise-value", "%s:%d" % (REL, guard_tests[0].lineno),
            "with minimize_boolean_attributes the `=value` of a boolean attribute is dropped whatever the value: "
            "disabled=\"disabled\" is written as `disabled` and read back with the value ''",
            detail={"value_tested_before_dropping": value_tested})


def run(ctx):
    r = ctx.r
    r.explanation = (
        "Reader/writer agreement clauses between the serializer (and its optional-tags filter) and the tokenizer/parser models: "
        "quoting classes vs. characters special in unquoted values, follow set after an unquoted value, escaping of & and the "
        "delimiter, losslessness of attribute minimisation, and each tag omission vs. the parser handler that must re-imply it.")
    r.not_decided = NOT_DECIDED
    declare(ctx)
    r.rule("Q5", "attribute minimisation drops the value only when that is lossless, and only for the element's own boolean attributes", floor=50)
    quoting(ctx)
    follow(ctx)
    escaping(ctx)
    from .c08 import cr_and_leading_lf
    cr_and_leading_lf(ctx)
    minimise(ctx)
    from . import c13, c13_parser
    c13_parser.run(ctx)


def thorough(ctx):
    from .. import selftest
    selftest.run(ctx, sys.modules[__name__])


def mutants():
    from ..selftest import TextMutant as T
    return [
        T("boolean-any-element", "serializer.py", "                        (k not in booleanAttributes.get(name, tuple()) and\n                         k not in booleanAttributes.get(\"\", tuple())):", "                        not any(k in v for v in booleanAttributes.values()):", "Q5"),
        T("legacy-class-no-quote", REL, "_quoteAttributeLegacy = re.compile(\"[\" + _quoteAttributeSpecChars +", "_quoteAttributeLegacy = re.compile(\"[\" + \"=<>`\" +", "Q2"),
        T("amp-after-quote-choice", REL, "                        v = v.replace(\"&\", \"&amp;\")\n                        if self.escape_lt_in_attrs:",
          "                        if self.escape_lt_in_attrs:", "Q4"),
        T("solidus-after-value", REL, "                        yield self.encodeStrict(\" /\")", "                        yield self.encodeStrict(\"\\xa0/\")", "Q3"),
        T("wrong-delimiter-entity", REL, "                                v = v.replace(\"'\", \"&#39;\")", "                                v = v.replace('\"', \"&#39;\")", "Q4"),
    ]


def preserving():
    return []
