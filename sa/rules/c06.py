"""C06 -- byte input is decoded with the encoding the documented precedence selects.

C06.1 PRECEDENCE   ordered early returns of determineEncoding = the documented order, confidences and guards
C06.2 UTF16->UTF8  on both declaration paths the mapped value is the one used
C06.3 RESTART      seek(0) < store (new, certain) < reset() < raise _ReparseException; _parse re-runs reset+mainLoop
C06.4 CERTAIN      charEncoding is stored only by the constructors and changeEncoding; changeEncoding only when tentative
C06.5 SNIFF        every detection read of rawStream is followed by a seek on every exit; prescan reads numBytesMeta=1024
C06.6 REPORTED     documentEncoding and the decoder both read charEncoding[0]
"""
from __future__ import annotations

import ast
import sys

from ..repo import AnalysisError, attr_chain, norm, walk_no_nested
from ..consteval import NotConstant
from ..cfg import CFG, node_calls

LEVEL = "other"
TECHNIQUE = ("syntax-directed extraction of the precedence chain; CFG must-follow / must-precede / def-use (dead store) queries on the encoding-change and sniffing functions; evaluation of the pre-scan's byte classes and of handleMeta on every attribute list of length <= 3 against a transcription of the standard; decoder end-of-input contract read off codecs.StreamReader's source; source evaluation (sa/classeval.py) of determineEncoding and of the late <meta> handler on models of the stream, the BOM / pre-scan results and the Encoding Standard's label table")
CLAIM = ('The order, confidence and guards of the encoding sources in determineEncoding equal the documented '
         'precedence; a declared UTF-16 is mapped to UTF-8 and the mapped value is the one that takes effect '
         'on both declaration paths; a late declaration restarts the parse in the right order and only while '
         'the encoding is tentative, and every accepted declaration makes the encoding certain; sniffing '
         'always restores the stream position; the reported encoding is the one the decoder uses. The tree '
         "builder's late-<meta> decision table (charset / http-equiv=content-type case-insensitively with "
         "content / nothing else, only while tentative) equals the standard's; the prescan ends a quoted "
         'attribute value at the quote that opened it; the content-attribute extractor skips white space after '
         '`charset=`. The prescan parses the attributes of start and end tags alike and tests the first byte '
         'of a tag name; the BOM table holds exactly utf-8, utf-16le and utf-16be; BOM sniffing completes short '
         'reads and seeks by the length of the BOM matched; byte labels are decoded as strict ASCII; an unquoted '
         'charset value ends at white space or `;`; no exception leaves the content= extractor (it would end the '
         'whole pre-scan).'
         " A declared x-user-defined means windows-1252; the pre-scan's byte classes and resumption points equal the standard's (after `<meta`, tag-name end, unquoted-value end, comment end, lone `<`, `<meta` + name character, end of buffer inside a tag); what one meta element declares equals the standard's processing for every attribute list of length <= 3 over 8 attribute kinds; the decoder is told when the input ends; the pre-scan buffer is completed across short reads; a late meta whose charset names no encoding falls back to its pragma. determineEncoding, run on models of its sources, returns the documented winner and confidence for every pair of sources, skips labels that name nothing and never inherits a parent encoding given under any UTF-16 label; the late <meta> handler, run with its helpers, asks for the standard's encoding change and no other.")
NOT_DECIDED = ('attribute-name / quoted-value scanning of the pre-scan beyond the clauses above (an independent transcription agreed with it on '
               '100 000 generated inputs after the repairs, which is testing, not part of the check); chardet; '
               'equality of the tree with the tree of the decoded bytes.')
MODULES = ["_inputstream.py", "html5parser.py"]
REL = "_inputstream.py"

EXPECTED_ORDER = [
    ("bom", "certain"), ("override_encoding", "certain"), ("transport_encoding", "certain"),
    ("meta-prescan", "tentative"), ("same_origin_parent_encoding", "tentative"), ("likely_encoding", "tentative"),
    ("chardet", "tentative"), ("default_encoding", "tentative"), ("literal:windows-1252", "tentative"),
]


def classify_source(expr) -> str:
    t = norm(expr)
    if t == "self.detectBOM()":
        return "bom"
    if t == "self.detectEncodingMeta()":
        return "meta-prescan"
    if isinstance(expr, ast.Call) and norm(expr.func) == "lookupEncoding" and len(expr.args) == 1:
        a = expr.args[0]
        ch = attr_chain(a)
        if ch and ch[0] == "self" and len(ch) == 2:
            return ch[1]
        if isinstance(a, ast.Constant):
            return "literal:%s" % a.value
        if "detector" in norm(a):
            return "chardet"
    if isinstance(expr, ast.Name):
        return "name:" + expr.id
    return "?:" + t[:40]


def extract_chain(f):
    """-> list of (source, confidence, guard text) in precedence order"""
    chain = []
    cur = None      # (source, confidence) of the value currently in `charEncoding`
    var = None

    def conf_of(e):
        return e.value if isinstance(e, ast.Constant) and isinstance(e.value, str) else "?"

    def handle(stmts, local_defs):
        nonlocal cur, var
        for st in stmts:
            if isinstance(st, ast.Expr) and isinstance(st.value, ast.Constant):
                continue
            if isinstance(st, ast.Assign) and len(st.targets) == 1 and isinstance(st.targets[0], ast.Name) \
                    and isinstance(st.value, ast.Tuple) and len(st.value.elts) == 2:
                var = st.targets[0].id
                cur = (classify_source(st.value.elts[0]), conf_of(st.value.elts[1]))
                continue
            if isinstance(st, ast.If) and not st.orelse and len(st.body) == 1 and isinstance(st.body[0], ast.Return) \
                    and isinstance(st.body[0].value, ast.Name) and st.body[0].value.id == var and cur is not None:
                guard = norm(st.test)
                base = "%s[0] is not None" % var
                if not guard.startswith(base):
                    raise AnalysisError("determineEncoding: guard `%s` does not test that the source gave an encoding" % guard)
                chain.append((cur[0], cur[1], guard[len(base):].strip()))
                cur = None
                continue
            if isinstance(st, ast.If) and norm(st.test) in ("chardet", "useChardet") and not st.orelse:
                # optional third-party guess: a return of (<lookup of detector result>, conf) inside
                rets = [n for n in ast.walk(st) if isinstance(n, ast.Return)]
                if len(rets) != 1 or not isinstance(rets[0].value, ast.Tuple):
                    raise AnalysisError("determineEncoding: chardet block not recognised")
                src = rets[0].value.elts[0]
                defs = [n.value for n in ast.walk(st) if isinstance(n, ast.Assign) and isinstance(src, ast.Name)
                        and any(isinstance(t, ast.Name) and t.id == src.id for t in n.targets)]
                kind = classify_source(defs[0]) if defs else classify_source(src)
                chain.append((kind, conf_of(rets[0].value.elts[1]), "if chardet importable and result is not None"))
                continue
            if isinstance(st, ast.Return) and isinstance(st.value, ast.Tuple) and len(st.value.elts) == 2:
                chain.append((classify_source(st.value.elts[0]), conf_of(st.value.elts[1]), ""))
                continue
            raise AnalysisError("determineEncoding: statement outside the recognised chain idiom: `%s`" % norm(st)[:80])
    handle(f.node.body, {})
    return chain


def run(ctx):
    r = ctx.r
    repo = ctx.repo
    r.explanation = (
        "determineEncoding is read as an ordered chain of (source, confidence, guard) early returns and compared with the "
        "documented precedence; changeEncoding / detectEncodingMeta / detectBOM / _parse are checked on their CFGs for the "
        "UTF-16 mapping taking effect (def-use), restart ordering, confidence finality and position restoring.")
    r.not_decided = NOT_DECIDED
    r.rule("C06.1", "precedence chain of determineEncoding equals the documented order, confidences and guards", floor=12)
    r.rule("C06.2", "a declared UTF-16 is mapped to UTF-8 and the mapped value reaches its use", floor=2)
    r.rule("C06.3", "restart: seek(0) < store (new, certain) < reset() < raise; _parse catches exactly _ReparseException and re-runs", floor=4)
    r.rule("C06.4", "charEncoding is stored only by constructors/changeEncoding; changeEncoding is called only while tentative", floor=5)
    r.rule("C06.5", "detection reads of rawStream are followed by a seek on every exit; prescan length is numBytesMeta = 1024", floor=4)
    r.rule("C06.6", "documentEncoding and the decoder read the same charEncoding[0]", floor=2)

    binary = repo.cls(REL, "HTMLBinaryInputStream")
    det = repo.func(REL, "HTMLBinaryInputStream.determineEncoding")

    # ---- C06.1
    evaluated = precedence_evaluated(ctx, det, binary)
    try:
        chain = extract_chain(det)
    except AnalysisError:
        if not evaluated:
            raise
        r.note("C06: determineEncoding is not written as the recognised chain of early returns; its precedence was decided by running it")
        chain = None
    if chain is not None and evaluated and any(str(s_).startswith("?:") for s_, c_, g_ in chain):
        # a link of the chain goes through a helper the chain reader does not classify (the optional chardet guess moved into a
        # method): the evaluation above has decided the documented sources
        r.note("C06: determineEncoding's chain has a link through a helper (%s); the precedence was decided by running it" % [s_ for s_, c_, g_ in chain if str(s_).startswith("?:")])
        chain = None
    if chain is None:
        _after_chain(ctx, repo, binary, det, r)
        return
    got = [(s, c) for s, c, g in chain]
    exp = list(EXPECTED_ORDER)
    if ("chardet", "tentative") not in got:
        exp.remove(("chardet", "tentative"))     # the optional guess may be removed altogether
    for i, e in enumerate(exp):
        g = got[i] if i < len(got) else None
        r.check("C06.1", g == e, "precedence[%d]=%s" % (i, e[0]), det.where,
                "position %d of the encoding precedence is %s, documented is %s (full chain: %s)" % (i, g, e, got),
                {"chain": got}, detail={"position": i, "source": e[0], "confidence": e[1]})
    r.check("C06.1", len(got) == len(exp), "precedence-length", det.where,
            "determineEncoding has %d sources, documented %d: %s" % (len(got), len(exp), got))
    for s, c, g in chain:
        if s == "same_origin_parent_encoding":
            r.check("C06.1", "utf-16" in g and "not" in g, "parent-not-utf16", det.where,
                    "same_origin_parent_encoding is accepted without the not-UTF-16 guard (guard: %r)" % g)
        elif s not in ("chardet",):
            r.check("C06.1", g == "", "guard:%s" % s, det.where, "source %s has an extra guard %r" % (s, g))
    _after_chain(ctx, repo, binary, det, r)


ENCODING_LABELS = {
    "utf-8": ("utf-8", "utf8", "unicode-1-1-utf-8"), "koi8-r": ("koi8-r", "koi8_r", "koi", "koi8", "cskoi8r"),
    "windows-1252": ("windows-1252", "latin1", "iso-8859-1", "ascii", "us-ascii", "cp1252"), "iso-8859-2": ("iso-8859-2", "latin2"),
    "utf-16le": ("utf-16le", "utf-16", "unicode", "ucs-2", "csunicode", "iso-10646-ucs-2", "unicodefeff"), "utf-16be": ("utf-16be", "unicodefffe"),
    "shift_jis": ("shift_jis", "sjis", "ms_kanji"), "euc-jp": ("euc-jp",), "big5": ("big5",),
}


def _change_encoding_evaluated(ctx, ch, binary):
    """changeEncoding run from its source with the label table as model: -> True (utf-16le / utf-16be end up as utf-8,
    x-user-defined as windows-1252, koi8-r as itself) / False (they do not) / None (not evaluable)"""
    from ..classeval import ClassEval, Record
    labels = dict(ENCODING_LABELS)
    labels["x-user-defined"] = ("x-user-defined",)
    encs = {name: Record(name=name) for name in labels}
    by_label = {lab: encs[name] for name, labs in labels.items() for lab in labs}

    def lookup(x):
        if isinstance(x, Record) or x is None:
            return x
        if isinstance(x, bytes):
            x = x.decode("ascii", "replace")
        return by_label.get(x.strip().lower())
    want = {"utf-16le": "utf-8", "utf-16be": "utf-8", "x-user-defined": "windows-1252", "koi8-r": "koi8-r"}
    try:
        for label, exp in want.items():
            attrs = {"charEncoding": (encs["iso-8859-2"], "tentative"), "rawStream": Record(seek=lambda *a: None)}
            evl = ClassEval(ctx.ce, ch.module, binary, attrs, repo=ctx.repo)
            evl.function_models = {"lookupEncoding": lookup, "_ReparseException": lambda *a: Record(isa=("_ReparseException",))}
            evl.method_models = {"reset": lambda: None}
            evl.allow_raise = True
            evl.call(ch.name, [label])
            got = attrs["charEncoding"]
            if not (isinstance(got, tuple) and isinstance(got[0], Record) and got[0].name == exp and got[1] == "certain"):
                return False
    except AnalysisError:
        return None
    return True


def precedence_evaluated(ctx, det, binary) -> bool:
    """C06.1 by running determineEncoding from its source (sa/classeval.py) with models of its inputs: detectBOM and
    detectEncodingMeta return what the scenario says, lookupEncoding is the Encoding Standard's label table (a few encodings, all
    the UTF-16 aliases).  For every pair of sources the documented one wins with the documented confidence; a label that names
    no encoding falls through; a parent encoding in the UTF-16 family -- under any of its labels -- is not inherited."""
    from ..classeval import ClassEval, Record
    r = ctx.r
    encs = {name: Record(name=name) for name in ENCODING_LABELS}
    by_label = {lab: encs[name] for name, labs in ENCODING_LABELS.items() for lab in labs}

    def lookup(x):
        if x is None:
            return None
        if isinstance(x, Record):
            return x
        if isinstance(x, bytes):
            try:
                x = x.decode("ascii")
            except UnicodeDecodeError:
                return None
        if not isinstance(x, str):
            return None
        return by_label.get(x.strip("\t\n\x0c\r ").lower())
    order = ["bom", "override_encoding", "transport_encoding", "meta", "same_origin_parent_encoding", "likely_encoding", "default_encoding"]
    conf = {"bom": "certain", "override_encoding": "certain", "transport_encoding": "certain"}
    labels = ["koi8-r", "iso-8859-2", "shift_jis", "euc-jp", "big5", "utf-8", "windows-1252"]

    def run(sc):
        attrs = {k: sc.get(k) for k in order if k not in ("bom", "meta")}
        attrs.setdefault("default_encoding", None)
        evl = ClassEval(ctx.ce, det.module, binary, attrs, repo=ctx.repo)
        evl.method_models = {"detectBOM": lambda: lookup(sc.get("bom")), "detectEncodingMeta": lambda: lookup(sc.get("meta"))}
        evl.function_models = {"lookupEncoding": lookup}
        return evl.call(det.name, [False] if len(det.params()) > 1 else [])
    cases = []
    for i, a in enumerate(order):
        cases.append(("only %s" % a, {a: labels[i]}, (labels[i], conf.get(a, "tentative"))))
        cases.append(("%s names no encoding" % a, {a: "x-bogus", "default_encoding": "koi8-r"} if a != "default_encoding" else {a: "x-bogus"},
                      ("koi8-r", "tentative") if a != "default_encoding" else ("windows-1252", "tentative")))
        for j in range(i + 1, len(order)):
            b = order[j]
            cases.append(("%s and %s" % (a, b), {a: labels[i], b: labels[j]}, (labels[i], conf.get(a, "tentative"))))
    cases.append(("nothing given", {}, ("windows-1252", "tentative")))
    for lab in ("utf-16le", "utf-16be", "utf-16", "unicode", "ucs-2", "csunicode", "iso-10646-ucs-2", "unicodefeff", "unicodefffe", " UTF-16 ", b"utf-16"):
        cases.append(("parent %r" % (lab,), {"same_origin_parent_encoding": lab, "likely_encoding": "koi8-r"}, ("koi8-r", "tentative")))
    cases.append(("parent b'koi8-r'", {"same_origin_parent_encoding": b"koi8-r", "likely_encoding": "big5"}, ("koi8-r", "tentative")))
    # the UTF-16 exception is the parent's alone: a likely / default / transport / override encoding in the UTF-16 family is used
    for src in ("likely_encoding", "default_encoding", "transport_encoding", "override_encoding"):
        for lab, name in (("utf-16le", "utf-16le"), ("utf-16", "utf-16le"), ("utf-16be", "utf-16be")):
            cases.append(("%s %s" % (src, lab), {src: lab}, (name, conf.get(src, "tentative"))))
    n = 0
    try:
        for label, sc, want in cases:
            got = run(sc)
            ok = isinstance(got, tuple) and len(got) == 2 and isinstance(got[0], Record) and (got[0].name, got[1]) == want
            n += 1
            r.check("C06.1", ok, "evaluated::%s" % label, det.where,
                    "determineEncoding with %s returns %s; the documented precedence (BOM > override > transport > <meta> pre-scan > parent, never "
                    "UTF-16 > likely > default > windows-1252; the first three certain) gives %s" % (
                        {k: v for k, v in sc.items()}, (got[0].name, got[1]) if isinstance(got, tuple) and isinstance(got[0], Record) else got, want),
                    {"scenario": label}, detail={"scenario": label})
    except AnalysisError as e:
        r.note("C06: determineEncoding not evaluable as a whole (%s); its chain of early returns is read instead" % str(e)[:120])
        return False
    return True


def _after_chain(ctx, repo, binary, det, r):
    # constructor wiring: parameters are stored under their own names; default_encoding defaults to windows-1252
    init = repo.func(REL, "HTMLBinaryInputStream.__init__")
    params = init.params()
    for p in ("override_encoding", "transport_encoding", "same_origin_parent_encoding", "likely_encoding", "default_encoding"):
        ok = p in params and any(isinstance(n, ast.Assign) and attr_chain(n.targets[0]) == ["self", p]
                                 and isinstance(n.value, ast.Name) and n.value.id == p for n in ast.walk(init.node))
        r.idiom("C06.1", ok, "wiring:%s" % p, init.where, "constructor does not store the %s argument under self.%s" % (p, p),
                wrong=[(p not in params, "the documented %s argument vanished from the constructor" % p)])
    a = init.node.args
    defaults = dict(zip([x.arg for x in a.args][-len(a.defaults):], a.defaults))
    r.check("C06.1", isinstance(defaults.get("default_encoding"), ast.Constant) and defaults["default_encoding"].value == "windows-1252",
            "default:windows-1252", init.where, "default_encoding no longer defaults to windows-1252")
    # BOM result goes through lookupEncoding
    bom = repo.func(REL, "HTMLBinaryInputStream.detectBOM")
    rets = [n for n in ast.walk(bom.node) if isinstance(n, ast.Return) and n.value is not None]
    r.idiom("C06.1", all(norm(x.value) == "None" or norm(x.value).startswith("lookupEncoding(") for x in rets) and rets,
            "bom-through-lookup", bom.where, "detectBOM returns a label that did not pass through lookupEncoding")

    # ---- C06.2
    meta = repo.func(REL, "HTMLBinaryInputStream.detectEncodingMeta")
    cfg = CFG(meta.node)
    rets = [n for n in cfg.stmt_nodes() if n.kind == "stmt" and isinstance(n.ast, ast.Return)]

    # locals that hold an encoding's name (`name = newEncoding.name`)
    name_aliases = {a.targets[0].id for fq in ("HTMLBinaryInputStream.detectEncodingMeta", "HTMLBinaryInputStream.changeEncoding")
                    for a in ast.walk(repo.func(REL, fq).node) if isinstance(a, ast.Assign) and len(a.targets) == 1 and
                    isinstance(a.targets[0], ast.Name) and isinstance(a.value, ast.Attribute) and a.value.attr == "name"}

    def utf16_test(n):
        # `x.name in ("utf-16be", "utf-16le")`, or one disjunct of the equivalent chain of equalities
        t = norm(n.ast) if n.kind == "test" else ""
        return ("utf-16be" in t or "utf-16le" in t) and (".name" in t or any(isinstance(x, ast.Name) and x.id in name_aliases for x in ast.walk(n.ast)))
    def maps_utf8(n):
        return n.kind == "stmt" and isinstance(n.ast, ast.Assign) and norm(n.ast.value) == "lookupEncoding('utf-8')"
    tests = [n for n in cfg.nodes if utf16_test(n)]
    ok = bool(tests) and bool(rets) and all(cfg.dominated_by(
        rt, lambda n, lab: utf16_test(n) or (n.kind == "test" and norm(n.ast).endswith("is not None") and lab is False))
        for rt in rets)
    # on the true edge of the test the mapping is stored to the returned name
    ok = ok and all(any(maps_utf8(m) for m, lab in t.succ if lab is True) for t in tests)
    r.check("C06.2", ok, "prescan-utf16", meta.where,
            "the prescan result is returned without mapping utf-16be/utf-16le to utf-8 on every path")
    ch = repo.func(REL, "HTMLBinaryInputStream.changeEncoding")
    cfg = CFG(ch.node)
    tests = [n for n in cfg.nodes if utf16_test(n)]
    late_eval = _change_encoding_evaluated(ctx, ch, binary)
    r.idiom("C06.2", bool(tests) or late_eval is True, "late-utf16-test", ch.where, "changeEncoding's test for utf-16be/utf-16le was not recognised",
            wrong=[(late_eval is False, "changeEncoding keeps a declared UTF-16 (a document that contains an ASCII-readable <meta> cannot be UTF-16): "
                                        "the standard maps it to UTF-8 (decided by running the method)")])
    for t in tests:
        for m, lab in t.succ:
            if lab is True and maps_utf8(m):
                var = m.ast.targets[0].id if isinstance(m.ast.targets[0], ast.Name) else None
                # def-use: the mapped value must reach a read of `var` that is not an assert
                def reads(n):
                    if n.ast is None or n is m or (n.kind == "stmt" and isinstance(n.ast, ast.Assert)):
                        return False
                    root = n.ast.target if n.kind == "loopiter" else n.ast
                    return any(isinstance(x, ast.Name) and x.id == var and isinstance(x.ctx, ast.Load) for x in ast.walk(root))
                def redefines(n):
                    return n.kind == "stmt" and isinstance(n.ast, ast.Assign) and any(
                        isinstance(tg, ast.Name) and tg.id == var for tg in n.ast.targets) and n is not m
                par = cfg.reach_forward([m], redefines)
                used = any(reads(cfg.nodes[i]) for i in par)
                # and on every path to an exit that keeps the old encoding nothing... (use is required)
                r.check("C06.2", used, "late-utf16-dead-store", "%s:%d" % (REL, m.lineno),
                        "in changeEncoding the UTF-16 -> UTF-8 mapping is a dead store: no path from it reads `%s` again, so a "
                        "late <meta charset=utf-16> leaves the tentative encoding in force" % var,
                        detail={"mapped_value_reaches_use": True})
            elif lab is True:
                r.bad("C06.2", "late-utf16-map", ch.where, "the utf-16 arm of changeEncoding does not map to utf-8")

    # ---- C06.3
    def call_is(n, text):
        return any(norm(c.func) == text for c in node_calls(n))
    # locals that hold the current encoding (`current = self.charEncoding[0]`): confirming it is not a restart store
    cur_aliases = {a.targets[0].id for a in ast.walk(ch.node) if isinstance(a, ast.Assign) and len(a.targets) == 1 and isinstance(a.targets[0], ast.Name)
                   and norm(a.value) == "self.charEncoding[0]"}
    raises = [n for n in cfg.stmt_nodes() if n.kind == "stmt" and isinstance(n.ast, ast.Raise) and "_ReparseException" in norm(n.ast)]
    r.check("C06.3", len(raises) == 1, "one-restart", ch.where, "changeEncoding has %d restart sites" % len(raises))
    if raises:
        seek = lambda n: call_is(n, "self.rawStream.seek") and any(norm(c) == "self.rawStream.seek(0)" for c in node_calls(n))  # noqa: E731
        store = lambda n: n.kind == "stmt" and isinstance(n.ast, ast.Assign) and attr_chain(n.ast.targets[0]) == ["self", "charEncoding"] \
            and isinstance(n.ast.value, ast.Tuple) and norm(n.ast.value.elts[1]) == "'certain'" \
            and norm(n.ast.value.elts[0]) != "self.charEncoding[0]" and norm(n.ast.value.elts[0]) not in cur_aliases  # noqa: E731
        reset = lambda n: call_is(n, "self.reset")  # noqa: E731
        order_ok = True
        why = []
        for name, pred in (("rawStream.seek(0)", seek), ("store (new, 'certain')", store), ("self.reset()", reset)):
            if cfg.must_precede(raises, pred):
                order_ok = False
                why.append("%s does not precede the restart" % name)
        stores = [n for n in cfg.stmt_nodes() if store(n)]
        resets = [n for n in cfg.stmt_nodes() if reset(n)]
        if stores and cfg.must_precede(stores, seek):
            order_ok = False
            why.append("seek(0) does not precede the charEncoding store")
        if resets and cfg.must_precede(resets, store):
            order_ok = False
            why.append("the charEncoding store does not precede reset() (the decoder would be rebuilt for the old encoding)")
        r.check("C06.3", order_ok, "restart-order", ch.where, "restart sequence broken: %s" % "; ".join(why),
                detail={"order": "seek(0) < store < reset < raise"})
    parse = repo.func("html5parser.py", "HTMLParser._parse")
    tries = [n for n in ast.walk(parse.node) if isinstance(n, ast.Try)]
    okp = False
    if len(tries) == 1:
        t = tries[0]
        body_calls = [norm(c.func) for s in t.body for c in ast.walk(s) if isinstance(c, ast.Call)]
        if len(t.handlers) == 1 and norm(t.handlers[0].type) == "_ReparseException" and "self.mainLoop" in body_calls:
            hc = [norm(c.func) for s in t.handlers[0].body for c in ast.walk(s) if isinstance(c, ast.Call)]
            okp = hc == ["self.reset", "self.mainLoop"]
    hc_all = [norm(c.func) for t in tries for h in t.handlers for s in h.body for c in ast.walk(s) if isinstance(c, ast.Call)]
    r.idiom("C06.3", okp, "_parse-rerun", parse.where,
            "_parse must catch exactly _ReparseException around mainLoop() and re-run reset(); mainLoop()",
            wrong=[(len(tries) == 1 and "self.mainLoop" in hc_all and "self.reset" not in hc_all,
                    "the re-parse after an encoding change does not reset the parser first: the tree of the first pass is kept"),
                   (len(tries) == 1 and "self.mainLoop" not in hc_all, "the _ReparseException handler does not run the main loop again")])
    imp = repo.module("html5parser.py").imports.get("_ReparseException")
    imp2 = repo.module(REL).imports.get("_ReparseException")
    r.check("C06.3", imp == imp2 == ("html5lib.constants", "_ReparseException"), "same-exception", parse.where,
            "the exception raised by changeEncoding is not the one _parse catches")

    # ---- C06.4
    storers = set()
    for f in repo.all_functions():
        for n in walk_no_nested(f.node):
            if isinstance(n, (ast.Assign, ast.AugAssign)):
                for t in (n.targets if isinstance(n, ast.Assign) else [n.target]):
                    c = attr_chain(t)
                    if c and len(c) >= 2 and c[-1] == "charEncoding":
                        storers.add(f.qual)
    allowed = {"HTMLUnicodeInputStream.__init__", "HTMLBinaryInputStream.__init__", "HTMLBinaryInputStream.changeEncoding"}
    r.check("C06.4", storers <= allowed and "HTMLBinaryInputStream.changeEncoding" in storers, "charEncoding-writers", REL,
            "charEncoding is stored outside the constructors / changeEncoding: %s" % sorted(storers - allowed),
            {"writers": sorted(storers)}, detail={"writers": sorted(storers)})
    binit = [n for n in ast.walk(init.node) if isinstance(n, ast.Assign) and attr_chain(n.targets[0]) == ["self", "charEncoding"]]
    r.idiom("C06.4", len(binit) == 1 and norm(binit[0].value).startswith("self.determineEncoding("), "init-from-determine",
            init.where, "the binary stream's encoding is not the result of determineEncoding")
    n_calls = 0
    for f in repo.all_functions():
        cf = None
        for c in walk_no_nested(f.node):
            if isinstance(c, ast.Call) and isinstance(c.func, ast.Attribute) and c.func.attr == "changeEncoding":
                n_calls += 1
                cf = cf or CFG(f.node)
                def tentative(n, lab):
                    # `== "tentative"` on its true edge, `!= "tentative"` on its false edge (early return), `== "certain"` on its false edge
                    if n.kind != "test":
                        return False
                    t = norm(n.ast)
                    return (lab is True and "charEncoding[1] == 'tentative'" in t) or (lab is False and "charEncoding[1] != 'tentative'" in t) or \
                        (lab is False and "charEncoding[1] == 'certain'" in t and " or " not in t and " and " not in t)
                okc = all(cf.dominated_by(s, tentative) for s in cf.locate(c))
                r.check("C06.4", okc, "%s::changeEncoding-call@%s" % (f.qual, norm(c.args[0])[:30] if c.args else ""),
                        "%s:%d" % (f.module.rel, c.lineno),
                        "changeEncoding is called without a dominating test that the confidence is 'tentative': document "
                        "content could change a certain encoding")
    if n_calls < 1:
        raise AnalysisError("found %d changeEncoding call sites (expected >= 1)" % n_calls)

    # accepting a declaration makes the encoding certain: every path of changeEncoding that does not leave through the
    # "label unknown" return or the restart stores (<encoding>, 'certain')
    ch_cfg = CFG(ch.node)

    def certain_store(n):
        return n.kind == "stmt" and isinstance(n.ast, ast.Assign) and attr_chain(n.ast.targets[0]) == ["self", "charEncoding"] \
            and isinstance(n.ast.value, ast.Tuple) and norm(n.ast.value.elts[1]) == "'certain'"

    def unknown_label_return(src, dst, lab):
        # the early return under `newEncoding is None`
        return not (src.kind == "test" and norm(src.ast) == "newEncoding is None" and lab is True)
    par = ch_cfg.reach_forward([ch_cfg.entry], certain_store, unknown_label_return)
    r.check("C06.4", ch_cfg.exit.id not in par, "declaration-accepted-means-certain", ch.where,
            "changeEncoding can return after recognising the declared label without making the encoding certain (path %s): a "
            "second declaration later in the document can then switch the encoding" % (
                " -> ".join(reversed(ch_cfg.witness(par, ch_cfg.exit)))[:200] if ch_cfg.exit.id in par else ""),
            detail={"every_accepting_path_stores_certain": ch_cfg.exit.id not in par})

    # ---- C06.5
    n_reads = 0
    for q in ("HTMLBinaryInputStream.detectBOM", "HTMLBinaryInputStream.detectEncodingMeta", "HTMLBinaryInputStream.determineEncoding"):
        f = repo.func(REL, q)
        cf = CFG(f.node)
        reads = [n for n in cf.stmt_nodes() if any(norm(c.func) == "self.rawStream.read" for c in node_calls(n))]
        if q != "HTMLBinaryInputStream.determineEncoding" and not reads:
            raise AnalysisError("%s no longer reads rawStream" % q)
        for rd in reads:
            n_reads += 1
            bad = cf.must_follow([rd], lambda n: any(norm(c.func) == "self.rawStream.seek" for c in node_calls(n)))
            r.check("C06.5", not bad, "%s::read@%d" % (q, reads.index(rd)), "%s:%d" % (REL, rd.lineno),
                    "a detection read of rawStream can reach the function's exit without a seek (path %s): the decoder would "
                    "start in the middle of the input" % (bad[0][1][:5] if bad else ""), detail={"function": q})
    rd = [c for c in walk_no_nested(meta.node) if isinstance(c, ast.Call) and norm(c.func) == "self.rawStream.read"]
    # first read asks for numBytesMeta; further reads (completing a short one) ask for what is still missing
    first_ok = bool(rd) and norm(sorted(rd, key=lambda c: c.lineno)[0].args[0]) == "self.numBytesMeta"
    rest_ok = all(norm(c.args[0]).startswith("self.numBytesMeta - len(") for c in sorted(rd, key=lambda c: c.lineno)[1:])
    r.idiom("C06.5", first_ok and rest_ok, "prescan-length-expr", meta.where,
            "the prescan does not read exactly self.numBytesMeta bytes")
    nb = [n for n in ast.walk(init.node) if isinstance(n, ast.Assign) and attr_chain(n.targets[0]) == ["self", "numBytesMeta"]]
    r.idiom("C06.5", len(nb) == 1 and isinstance(nb[0].value, ast.Constant) and nb[0].value.value == 1024, "prescan-1024",
            init.where, "numBytesMeta is not 1024",
            wrong=[(len(nb) == 1 and isinstance(nb[0].value, ast.Constant) and nb[0].value.value != 1024, None)])

    # ---- C06.6
    de = repo.func("html5parser.py", "HTMLParser.documentEncoding")
    rets = [norm(n.value) for n in ast.walk(de.node) if isinstance(n, ast.Return) and n.value is not None]
    r.idiom("C06.6", "self.tokenizer.stream.charEncoding[0].name" in rets, "documentEncoding", de.where,
            "documentEncoding does not report stream.charEncoding[0].name: %s" % rets,
            wrong=[(bool(rets) and not any("charEncoding" in x for x in rets if x != "None"), None)])
    decoder_rule(ctx, "C06.6")
    meta_rules(ctx)
    prescan_tag_rules(ctx)
    prescan_dispatch_position(ctx)
    bom_table(ctx)
    label_decoding(ctx)
    bom_read_and_seek(ctx)
    content_charset_grammar(ctx)
    user_defined_mapping(ctx)
    prescan_byte_sets(ctx)
    prescan_meta_table(ctx)
    decoder_end_of_input(ctx)
    prescan_buffer_complete(ctx)
    # C06.15: the content= extraction returns "nothing" or a label; an exception leaving it would be taken by getEncoding's
    # bracket for the end of the buffer and end the whole pre-scan, hiding every later <meta>
    r.rule("C06.15", "no StopIteration / ValueError leaves ContentAttrParser.parse (it would end the pre-scan instead of moving to the next attribute)", floor=1)
    from .c03 import prescan_exception_flow
    prescan_exception_flow(ctx, "C06.15", entries=(("ContentAttrParser", "parse"),), floor_sites=1)


def user_defined_mapping(ctx):
    """C06.16: the pre-scan ("If charset is x-user-defined, then set charset to windows-1252") and "change the encoding" for a
    late <meta> both map a declared x-user-defined to windows-1252, next to the UTF-16 -> UTF-8 mapping (C06.2)."""
    r = ctx.r
    r.rule("C06.16", "a declared x-user-defined is mapped to windows-1252 on both declaration paths", floor=2)
    for qual, key in (("HTMLBinaryInputStream.detectEncodingMeta", "prescan-x-user-defined"),
                      ("HTMLBinaryInputStream.changeEncoding", "late-x-user-defined")):
        f = ctx.repo.func(REL, qual)
        cfg = CFG(f.node)
        nal = {a.targets[0].id for a in ast.walk(f.node) if isinstance(a, ast.Assign) and len(a.targets) == 1 and isinstance(a.targets[0], ast.Name)
               and isinstance(a.value, ast.Attribute) and a.value.attr == "name"}
        tests = [n for n in cfg.nodes if n.kind == "test" and "x-user-defined" in norm(n.ast) and
                 (".name" in norm(n.ast) or any(isinstance(x, ast.Name) and x.id in nal for x in ast.walk(n.ast)))]
        mapped = [t for t in tests if any(lab is True and m.kind == "stmt" and isinstance(m.ast, ast.Assign) and
                                          norm(m.ast.value) in ("lookupEncoding('windows-1252')", "lookupEncoding('cp1252')")
                                          for m, lab in t.succ)]
        utf16 = any("utf-16be" in norm(n.ast) for n in cfg.nodes if n.kind == "test")
        r.idiom("C06.16", bool(mapped), key, f.where, "%s: the x-user-defined mapping was not recognised" % qual,
                wrong=[(not tests and utf16 and "x-user-defined" not in norm(f.node),
                        "%s maps a declared UTF-16 to UTF-8 but uses a declared x-user-defined as it stands; the standard maps it to "
                        "windows-1252: parse(b'<meta charset=x-user-defined><p>\\xe9') reports x-user-defined" % qual)])


def prescan_byte_sets(ctx):
    """C06.17: the byte classes of "prescan a byte stream to determine its encoding", evaluated from the code's own constants:
    `<meta` must be followed by white space or `/`; a tag name runs to white space or `>` (a `<` inside it is part of the name);
    an unquoted attribute value ends at white space or `>`; before an attribute name white space and `/` are skipped; a comment
    ends at the first `-->` whose dashes may be the two dashes of `<!--` itself (`<!-->` is a complete comment)."""
    from ..repo import membership_test
    r = ctx.r
    ce = ctx.ce
    r.rule("C06.17", "prescan byte classes and resumption points: after `<meta`, tag-name end, unquoted-value end, pre-attribute skip, comment end, `<meta`+other, lone `<`", floor=7)
    mod = ctx.repo.module(REL)
    SP = {b"\t", b"\n", b"\x0c", b"\r", b" "}

    def show(x):
        return sorted(v.decode("latin-1") for v in x)

    def judge(key, where, got, want, what, consequence):
        if got is None:
            r.idiom("C06.17", False, key, where, "%s: the byte class was not found" % what)
            return
        got = set(got)
        r.check("C06.17", got == want, key, where,
                "%s is %s in html5lib; the standard has %s (extra %s, missing %s): %s"
                % (what, show(got), show(want), show(got - want), show(want - got), consequence),
                {"extra": show(got - want), "missing": show(want - got)}, detail={"set": show(got)})
    # (a) after `<meta`
    hm = ctx.repo.func(REL, "EncodingParser.handleMeta")
    env = ce.local_env(hm.node, mod)
    got = None
    first = next((st for st in hm.node.body if isinstance(st, ast.If)), None)
    if first is not None:
        t = first.test
        if isinstance(t, ast.UnaryOp) and isinstance(t.op, ast.Not):
            t = t.operand
        elif isinstance(t, ast.Compare) and len(t.ops) == 1 and isinstance(t.ops[0], ast.NotIn):
            t = ast.Compare(left=t.left, ops=[ast.In()], comparators=t.comparators)
        elif isinstance(t, ast.BoolOp) and isinstance(t.op, ast.And) and all(
                isinstance(v, ast.Compare) and len(v.ops) == 1 and isinstance(v.ops[0], ast.NotEq) for v in t.values):
            t = ast.BoolOp(op=ast.Or(), values=[ast.Compare(left=v.left, ops=[ast.Eq()], comparators=v.comparators) for v in t.values])
        mt = membership_test(t, lambda x: ce.try_eval(x, mod, env))
        if mt is not None and "currentByte" in mt[0]:
            got = mt[1]
    judge("after-meta", hm.where, got, SP | {b"/"}, "the byte class accepted directly after `<meta`",
          "`<meta/charset=utf-8>` is a meta element for the standard (and for the tokenizer) but is skipped by the pre-scan, which "
          "matters where the tree builder cannot see it later (inside title, script, style, textarea)")
    # (b) tag-name end
    tag_entries = _tag_entries(ctx)
    hp = tag_entries["start"][0]
    env = ce.local_env(hp.node, mod)
    sk = [c for c in ast.walk(hp.node) if isinstance(c, ast.Call) and norm(c.func).endswith("skipUntil") and c.args]
    got = ce.try_eval(sk[0].args[0], mod, env) if len(sk) == 1 else None
    judge("tag-name-end", hp.where, got, SP | {b">"}, "the byte class that ends a tag name",
          "`<a<meta charset=utf-8>` is one tag named `a<meta` for the standard and the tokenizer; the pre-scan restarts at the inner `<` "
          "and takes the encoding from a meta element nobody else sees")
    # (c) unquoted value end, (d) pre-attribute skip
    ga = ctx.repo.func(REL, "EncodingParser.getAttribute")
    env = ce.local_env(ga.node, mod)
    loops = [w for w in ga.node.body if isinstance(w, ast.While)]
    got = None
    if loops:
        last = loops[-1]
        for st in last.body:
            if isinstance(st, ast.If):
                mt = membership_test(st.test, lambda x: ce.try_eval(x, mod, env))
                if mt is not None and any(isinstance(x, ast.Return) for x in st.body):
                    got = mt[1]
                break
    judge("unquoted-value-end", ga.where, got, SP | {b">"}, "the byte class that ends an unquoted attribute value",
          "`<meta charset=utf-8<x>` declares the (unknown) label `utf-8<x` for the standard and the tokenizer; the pre-scan stops at `<` "
          "and reads `utf-8`")
    sk = [c for c in ast.walk(ga.node) if isinstance(c, ast.Call) and norm(c.func).endswith(".skip") and c.args]
    got = ce.try_eval(sk[0].args[0], mod, env) if sk else None
    judge("pre-attribute-skip", ga.where, got, SP | {b"/"}, "the byte class skipped before an attribute name", "attributes after `/` are misread")
    # (f) `<meta` followed by any other byte is the beginning of an ordinary tag (`<metadata ...>`): its name and attributes are
    # skipped like any tag's, not scanned as markup
    early = first.body if first is not None else []
    hands_over = any(isinstance(c, ast.Call) and norm(c.func) in {"self." + n_ for _, _, ch_ in tag_entries.values() for n_ in ch_} for st in early for c in ast.walk(st))
    steps_back = any(isinstance(a, ast.AugAssign) and isinstance(a.op, ast.Sub) and norm(a.target).endswith(".position") and
                     ce.try_eval(a.value, mod, {}) == 4 for st in early for a in ast.walk(st))
    plain_return = len(early) == 1 and isinstance(early[0], ast.Return)
    r.idiom("C06.17", hands_over and steps_back, "meta-prefix-is-a-tag", hm.where, "handleMeta: what happens to `<meta` + another byte was not recognised",
            wrong=[(plain_return, "`<meta` followed by a byte other than white space or `/` is dropped and scanning resumes inside the tag: "
                                  "`<metadata a=\"<meta charset=koi8-r>\">` yields koi8-r from inside an attribute value; for the standard it is an "
                                  "ordinary tag whose attributes are skipped")])
    # (g) a `<` that starts no tag consumes nothing else: the byte after it is examined again.  Decided by running the handler the
    # dispatch table maps `<` to on "the byte at the position is not a letter" and looking for the step back.
    from ..partition import MiniInterp, Opaque
    sf, sbound, _ = tag_entries["start"]

    def _hook(node, local):
        if norm(node) in ("data.currentByte", "self.data.currentByte"):
            return b"1"
        return NotImplemented

    def _stmt_hook(st, out, interp):
        if isinstance(st, ast.Assign) and norm(st.value) == "self.data":
            out.env[norm(st.targets[0])] = Opaque("data")
            return False
        return NotImplemented
    try:
        res = MiniInterp(ce, mod, expr_hook=_hook, stmt_hook=_stmt_hook).run(sf.node.body, dict(sbound, self=Opaque("self")))
        back = [e for e in res.effects if norm(e.node).endswith(".previous()")]
        fwd = [e for e in res.effects if "next(" in norm(e.node) or ".skip" in norm(e.node) or "jumpTo" in norm(e.node)]
        r.idiom("C06.17", len(back) == 1 and not fwd and res.returned, "lone-lt-keeps-next-byte", sf.where,
                "%s: what happens after a `<` that is not followed by a letter was not recognised" % sf.qual,
                wrong=[(not back and not fwd and res.returned,
                        "after a `<` that is not followed by a letter the pre-scan resumes one byte too far (matchBytes has stepped past the `<`, the "
                        "main loop steps once more): in `<<meta charset=koi8-r>` the second `<` is never examined and the declaration is missed "
                        "(visible where the tree builder cannot see the element either: `<title><<meta charset=koi8-r></title>`)")])
    except AnalysisError as e:
        r.idiom("C06.17", False, "lone-lt-keeps-next-byte", sf.where, "%s not decidable (%s)" % (sf.qual, str(e)[:80]))
    # (h) running off the end of the buffer inside a tag aborts the pre-scan ("... the algorithm is aborted, returning nothing"): the
    # end-of-buffer outcome of the skip before an attribute name must not be taken for the `>` that ends the tag
    firsts = [st for st in ga.node.body if isinstance(st, ast.If)]
    eob = None
    for st in firsts[:2]:
        mt = membership_test(st.test, lambda x: ce.try_eval(x, mod, env) if not (isinstance(x, ast.Constant) and x.value is None) else "<None>")
        if mt is not None and any(isinstance(x, ast.Return) for x in st.body):
            eob = (st, set(mt[1]))
            break
    raises_on_none = any(isinstance(st, ast.If) and "is None" in norm(st.test) and any(isinstance(x, ast.Raise) for x in st.body) for st in firsts[:3])
    if eob is None:
        r.idiom("C06.17", raises_on_none, "end-of-buffer-in-tag-aborts", ga.where, "getAttribute: what ends the attribute list was not recognised")
    else:
        r.check("C06.17", "<None>" not in eob[1] and None not in eob[1], "end-of-buffer-in-tag-aborts", "%s:%d" % (REL, eob[0].lineno),
                "getAttribute returns \"no more attributes\" when the buffer ends before an attribute name, exactly as for `>`: a <meta> tag cut off by the "
                "end of the input is taken for complete -- parse(b'<!DOCTYPE html><meta charset=koi8-r ') reports koi8-r although no complete "
                "declaration exists (the standard aborts the pre-scan, and the tokenizer emits no meta element either)")
    # (e) comment end: the search for `-->` starts two bytes before the position matchBytes(b"<!--") left
    hc = ctx.repo.func(REL, "EncodingParser.handleComment")
    jt = [c for c in ast.walk(hc.node) if isinstance(c, ast.Call) and norm(c.func).endswith("jumpTo") and c.args and ce.try_eval(c.args[0], mod, {}) == b"-->"]
    back = [a for a in ast.walk(hc.node) if isinstance(a, ast.AugAssign) and isinstance(a.op, ast.Sub) and norm(a.target).endswith(".position")
            and ce.try_eval(a.value, mod, {}) == 2]
    r.idiom("C06.17", len(jt) == 1 and len(back) == 1 and back[0].lineno < jt[0].lineno, "comment-end-shares-dashes", hc.where,
            "handleComment: the search for `-->` was not recognised",
            wrong=[(len(jt) == 1 and not back and len([x for x in ast.walk(hc.node) if isinstance(x, ast.Call)]) == 1,
                    "the pre-scan looks for `-->` only behind the four bytes `<!--`; for the standard the two dashes of `<!--` may be the "
                    "dashes of `-->` (`<!-->` and `<!--->` are complete comments), so `<!--><meta charset=utf-8>` loses its declaration: "
                    "the pre-scan finds no `-->` and gives up")])


def _std_meta(attrs, labels, contents):
    """The standard's processing of one meta element in the pre-scan, transcribed: `attrs` is the list of (name, value) pairs in
    source order; labels: value -> encoding or None (get an encoding); contents: value -> label or None (the extraction
    algorithm).  Returns the encoding the element declares, or None."""
    seen = set()
    got_pragma, need_pragma, charset, failed = False, None, None, False
    for name, value in attrs:
        if name in seen:
            continue
        seen.add(name)
        if name == b"http-equiv":
            if value == b"content-type":
                got_pragma = True
        elif name == b"content":
            lab = contents.get(value)
            enc = labels.get(lab) if lab is not None else None
            if enc is not None and charset is None and not failed:
                charset, need_pragma = enc, True
        elif name == b"charset":
            charset = labels.get(value)
            failed = charset is None
            need_pragma = False
    if need_pragma is None or (need_pragma and not got_pragma) or charset is None:
        return None
    return charset


def prescan_meta_table(ctx):
    """C06.18: what one `<meta ...>` declares in the pre-scan is a function of its attribute list; handleMeta is evaluated (the
    attribute reader, the label lookup and the content= extractor replaced by tables) on every attribute list of length <= 3 over
    a seven-letter alphabet and compared with the standard's processing: duplicates ignored, `charset` wins over `content`, a
    `charset` that names no encoding makes the element declare nothing, `content` needs http-equiv=content-type anywhere in the tag."""
    import itertools
    from ..partition import MiniInterp, Opaque
    r = ctx.r
    ce = ctx.ce
    r.rule("C06.18", "pre-scan: the encoding a meta element declares, for every attribute list of length <= 3 over 7 attribute kinds", floor=300)
    f = ctx.repo.func(REL, "EncodingParser.handleMeta")
    mod = f.module
    labels = {b"a": "ENC-A", b"b": "ENC-B", b"bogus": None}
    contents = {b"c=b": b"b", b"c=bogus": b"bogus", b"none": None}
    alphabet = [(b"charset", b"a"), (b"charset", b"bogus"), (b"content", b"c=b"), (b"content", b"none"), (b"content", b"c=bogus"),
                (b"http-equiv", b"content-type"), (b"http-equiv", b"refresh"), (b"name", b"x")]
    lists = [()] + [t for n in (1, 2, 3) for t in itertools.product(alphabet, repeat=n)]
    undecided = 0
    for attrs in lists:
        queue = list(attrs)
        state = {"encoding": "unset"}

        def hook(node, local):
            t = norm(node)
            if t.endswith(".currentByte"):
                return b" "
            if isinstance(node, ast.Call):
                fn = norm(node.func)
                if fn == "self.getAttribute":
                    return queue.pop(0) if queue else None
                if fn == "lookupEncoding" and len(node.args) == 1:
                    v = ce.eval(node.args[0], mod, local)
                    return labels.get(v)
                if fn == "EncodingBytes" and len(node.args) == 1:
                    return ce.eval(node.args[0], mod, local)
                if fn == "ContentAttrParser" and len(node.args) == 1:
                    return ("content-parser", ce.eval(node.args[0], mod, local))
                if isinstance(node.func, ast.Attribute) and node.func.attr == "parse" and not node.args:
                    v = ce.eval(node.func.value, mod, local)
                    if isinstance(v, tuple) and v and v[0] == "content-parser":
                        return contents.get(v[1])
            return NotImplemented

        def stmt_hook(st, out, interp):
            if isinstance(st, ast.While):
                for _ in range(12):
                    if not interp.eval_guard(st.test, out.env):
                        return False
                    left = interp._block(st.body, out)
                    if out.returned or out.raised:
                        return True
                    if left and out.flow == "break":
                        out.flow = None
                        return False
                    out.flow = None
                raise AnalysisError("attribute loop does not end")
            if isinstance(st, ast.Assign) and len(st.targets) == 1 and norm(st.targets[0]) == "self.encoding":
                state["encoding"] = interp.eval_expr(st.value, out.env)
                return False
            if isinstance(st, ast.Expr) and isinstance(st.value, ast.Call) and isinstance(st.value.func, ast.Attribute) and \
                    st.value.func.attr in ("append", "add") and isinstance(st.value.func.value, ast.Name) and \
                    st.value.func.value.id in out.env and len(st.value.args) == 1:
                cur = out.env[st.value.func.value.id]
                v = interp.eval_expr(st.value.args[0], out.env)
                if isinstance(cur, list) and st.value.func.attr == "append":
                    out.env[st.value.func.value.id] = list(cur) + [v]
                    return False
                if isinstance(cur, set) and st.value.func.attr == "add":
                    out.env[st.value.func.value.id] = set(cur) | {v}
                    return False
            return NotImplemented
        key = "meta[%s]" % " ".join("%s=%s" % (n.decode(), v.decode()) for n, v in attrs)
        interp = MiniInterp(ce, mod, expr_hook=hook, stmt_hook=stmt_hook)
        try:
            res = interp.run(f.node.body, {"self": Opaque("self")})
        except (AnalysisError, Exception) as e:       # noqa: BLE001
            undecided += 1
            if undecided <= 3:
                r.idiom("C06.18", False, key, f.where, "handleMeta not decidable for this attribute list (%s)" % str(e)[:100])
            continue
        got = state["encoding"] if state["encoding"] != "unset" else None
        stops = res.returned and res.value is False
        want = _std_meta(list(attrs), labels, contents)
        ok = got == want and stops == (want is not None)
        r.check("C06.18", ok, key, f.where,
                "<meta %s>: html5lib's pre-scan takes %s%s; the standard's takes %s" % (
                    " ".join("%s=%s" % (n.decode(), v.decode()) for n, v in attrs), got or "no declaration",
                    "" if stops == (got is not None) else " (and %s scanning)" % ("stops" if stops else "goes on"), want or "no declaration"),
                {"attrs": [[n.decode(), v.decode()] for n, v in attrs]})


def bom_table(ctx):
    """C06.10: BOM sniffing (Encoding standard) knows exactly UTF-8, UTF-16BE and UTF-16LE.  An entry for an encoding that the
    label lookup does not resolve makes detectBOM skip the bytes and report no encoding; FF FE 00 00 -- a UTF-16LE BOM followed
    by U+0000 -- is then not decoded as UTF-16LE, and the first source of the documented precedence is lost."""
    r = ctx.r
    r.rule("C06.10", "the BOM table holds exactly the encodings BOM sniffing is defined for (utf-8, utf-16le, utf-16be)", floor=3)
    f = ctx.repo.func(REL, "HTMLBinaryInputStream.detectBOM")
    dicts = [s.value for s in walk_no_nested(f.node) if isinstance(s, ast.Assign) and isinstance(s.value, ast.Dict) and
             s.value.keys and all("BOM" in norm(k) for k in s.value.keys)]
    if not dicts:
        # a table hoisted to module level and read in detectBOM
        used = {x.id for x in ast.walk(f.node) if isinstance(x, ast.Name)}
        dicts = [s.value for s in f.module.tree.body if isinstance(s, ast.Assign) and isinstance(s.value, ast.Dict) and s.value.keys and
                 all("BOM" in norm(k) for k in s.value.keys) and isinstance(s.targets[0], ast.Name) and s.targets[0].id in used]
    if len(dicts) != 1:
        r.idiom("C06.10", False, "bom-table", f.where, "detectBOM: the BOM table was not found")
        return
    std = {"BOM_UTF8": "utf-8", "BOM_UTF16_LE": "utf-16le", "BOM_UTF16_BE": "utf-16be"}
    seen = set()
    for k, v in zip(dicts[0].keys, dicts[0].values):
        kn = norm(k).split(".")[-1]
        label = ctx.ce.try_eval(v, f.module)
        seen.add(kn)
        r.check("C06.10", kn in std and label == std.get(kn), "bom::%s" % kn, "%s:%d" % (REL, k.lineno),
                "the BOM table maps %s to %r: BOM sniffing is defined for UTF-8 and UTF-16 only, and the label lookup does not know %r, "
                "so the bytes are skipped without an encoding being chosen (b'\\xff\\xfe\\x00\\x00...' is a UTF-16LE BOM followed by "
                "U+0000, not UTF-32)" % (kn, label, label), {"bom": kn, "label": label}, detail={"bom": kn, "label": label})
    for kn in sorted(set(std) - seen):
        r.bad("C06.10", "bom::%s" % kn, f.where, "the BOM table has no entry for %s" % kn)


def bom_read_and_seek(ctx, rid_seek="C06.12", rid_read="C06.13"):
    """C06.12: after a BOM match the stream is positioned exactly behind the BOM that matched -- `seek(len(matched BOM))`.  A
    constant offset chosen by *which slice was looked up* (`string[:3]` -> 3) overshoots when the slice is shorter than asked
    for: a 2-byte UTF-16 BOM found through the 3-byte lookup seeks to 3, beyond what a non-seekable source has delivered
    (AssertionError in BufferedStream.seek).
    C06.13: the four bytes the BOM test looks at are collected by reading until four bytes are there or the source is empty; a
    single read(4) may legally return fewer (pipes, sockets), and the BOM is then missed or half-matched."""
    r = ctx.r
    f = ctx.repo.func(REL, "HTMLBinaryInputStream.detectBOM")
    r.rule(rid_seek, "the seek after a BOM match is the length of the BOM that matched", floor=1)
    r.rule(rid_read, "BOM sniffing completes a short first read", floor=1)
    seeks = [c for c in ast.walk(f.node) if isinstance(c, ast.Call) and norm(c.func).endswith("rawStream.seek") and c.args and norm(c.args[0]) != "0"]
    if len(seeks) == 1 and isinstance(seeks[0].args[0], ast.Call) and norm(seeks[0].args[0].func) == "len":
        # `self.rawStream.seek(len(bom))` at the place of the match
        r.ok(rid_seek, "bom-seek-length", "%s:%d" % (REL, seeks[0].lineno), detail={"offset": norm(seeks[0].args[0])})
    elif len(seeks) != 1 or not isinstance(seeks[0].args[0], ast.Name):
        r.idiom(rid_seek, False, "bom-seek-length", f.where, "detectBOM: the seek behind the BOM was not found")
    else:
        var = seeks[0].args[0].id
        stores = [s for s in ast.walk(f.node) if isinstance(s, ast.Assign) and any(isinstance(t, ast.Name) and t.id == var for t in s.targets) or
                  (isinstance(s, ast.Assign) and any(isinstance(t, ast.Tuple) and any(isinstance(e, ast.Name) and e.id == var for e in t.elts) for t in s.targets))]
        nonzero = [s for s in stores if not (isinstance(s.value, ast.Constant) and s.value.value == 0)]
        by_len = bool(nonzero) and all("len(" in norm(s.value) for s in nonzero)
        consts = [s for s in nonzero if isinstance(s.value, ast.Constant)]
        sliced = [n for n in ast.walk(f.node) if isinstance(n, ast.Subscript) and isinstance(n.slice, ast.Slice) and norm(n.value) == "string"]
        guarded = any(isinstance(t, (ast.If, ast.IfExp)) and "len(string)" in norm(t.test) for t in ast.walk(f.node))
        r.idiom(rid_seek, by_len, "bom-seek-length", "%s:%d" % (REL, seeks[0].lineno), "detectBOM: seek offset `%s` not recognised" % var,
                wrong=[(bool(consts) and bool(sliced) and not guarded,
                        "detectBOM seeks to a constant chosen by the slice it looked up (%s), not to the length of the BOM that matched: when "
                        "the first read returned only the two bytes FF FE, `string[:3]` is that UTF-16 BOM, the offset is 3 and the seek "
                        "goes beyond what a non-seekable source has delivered (AssertionError)" % sorted({norm(s.value) for s in consts}))],
                detail={"offset_stores": [norm(s)[:50] for s in stores]})
    reads = [c for c in ast.walk(f.node) if isinstance(c, ast.Call) and norm(c.func).endswith("rawStream.read")]
    loops = [w for w in ast.walk(f.node) if isinstance(w, ast.While) and any(c in list(ast.walk(w)) for c in reads)]
    r.idiom(rid_read, bool(loops), "bom-read-completed", f.where, "detectBOM: how the first bytes are read was not recognised",
            wrong=[(len(reads) == 1 and not loops,
                    "detectBOM looks at the result of a single read(4): a source that returns the first bytes in pieces (pipe, socket; "
                    "legal for file-like objects) has its BOM missed -- U+FEFF or the BOM bytes end up in the document -- or half-matched")],
            detail={"reads": len(reads), "in_loop": bool(loops)})


def prescan_buffer_complete(ctx, rid="C06.20"):
    """C06.20: "the WHATWG prescan of the first 1024 bytes" must see 1024 bytes (or the whole input): a read(n) on a pipe / socket /
    HTTP body may legally return fewer, so the buffer has to be completed by reading on -- like detectBOM does (C06.13) -- or the
    same bytes select different encodings depending on how they arrive."""
    r = ctx.r
    r.rule(rid, "the pre-scan buffer is completed across short reads (numBytesMeta bytes or end of input)", floor=1)
    f = ctx.repo.func(REL, "HTMLBinaryInputStream.detectEncodingMeta")
    reads = [c for c in ast.walk(f.node) if isinstance(c, ast.Call) and norm(c.func).endswith("rawStream.read")]
    loops = [w for w in ast.walk(f.node) if isinstance(w, ast.While) and any(c in list(ast.walk(w)) for c in reads)]
    # a helper that does the looping (shared with detectBOM, say) is inlined one level
    helper_loops = False
    cls = ctx.repo.cls(REL, "HTMLBinaryInputStream")
    for c in ast.walk(f.node):
        if isinstance(c, ast.Call) and isinstance(c.func, ast.Attribute) and norm(c.func.value) == "self":
            h = cls.find_method(c.func.attr)
            if h is not None and any(isinstance(w, ast.While) and any(isinstance(x, ast.Call) and norm(x.func).endswith("rawStream.read")
                                                                      for x in ast.walk(w)) for w in ast.walk(h.node)):
                helper_loops = True
    r.idiom(rid, bool(loops) or helper_loops, "prescan-read-completed", f.where, "detectEncodingMeta: how the pre-scan buffer is read was not recognised",
            wrong=[(len(reads) == 1 and not loops and not helper_loops,
                    "detectEncodingMeta looks at the result of a single read(numBytesMeta): for a source that delivers the bytes in pieces the "
                    "pre-scan sees only the first piece -- `<script><meta charset=koi8-r></script>` delivered 16 bytes at a time is "
                    "windows-1252, the same bytes as a bytes object are koi8-r")],
            detail={"reads": len(reads), "in_loop": bool(loops) or helper_loops})


def label_decoding(ctx):
    """C06.11: an encoding label found in the byte stream is ASCII; a label with non-ASCII bytes is not a label (the prescan then
    keeps looking / the next source of the precedence applies).  Dropping or replacing the offending bytes turns garbage such as
    `charset=\xe2\x80\x9cutf-8\xe2\x80\x9d` into a valid label."""
    r = ctx.r
    r.rule("C06.11", "byte labels are decoded strictly as ASCII; undecodable labels are rejected", floor=1)
    f = ctx.repo.func(REL, "lookupEncoding")
    decs = [c for c in ast.walk(f.node) if isinstance(c, ast.Call) and isinstance(c.func, ast.Attribute) and c.func.attr == "decode"]
    if len(decs) != 1:
        r.idiom("C06.11", False, "label-ascii-strict", f.where, "lookupEncoding: the decoding of a byte label was not found")
        return
    d = decs[0]
    args = [ctx.ce.try_eval(a, f.module) for a in d.args] + [ctx.ce.try_eval(k.value, f.module) for k in d.keywords]
    lenient = any(a in ("ignore", "replace", "backslashreplace", "surrogateescape") for a in args)
    in_try = any(isinstance(t, ast.Try) and any(x is d for s in t.body for x in ast.walk(s)) and
                 any(isinstance(s, ast.Return) and (s.value is None or norm(s.value) == "None") for h in t.handlers for s in h.body)
                 for t in ast.walk(f.node))
    r.idiom("C06.11", args[:1] == ["ascii"] and not lenient and in_try, "label-ascii-strict", "%s:%d" % (REL, d.lineno),
            "lookupEncoding: byte label decoding `%s` not recognised" % norm(d),
            wrong=[(lenient, "lookupEncoding decodes a byte label with error handler %r: non-ASCII bytes are dropped / replaced instead "
                             "of making the label invalid, so `<meta charset=\\u201cutf-8\\u201d>` is accepted by the prescan" % [a for a in args[1:]][:1])],
            detail={"decode": norm(d)})


def decoder_end_of_input(ctx, rid="C06.19"):
    """C06.19: the bytes are decoded piecewise, so the decoder has to be *told* when the input has ended; otherwise an incomplete
    multi-byte sequence at the very end stays in its buffer and vanishes, where decoding the same bytes in one go (and the
    Encoding standard's decoders at end-of-stream) yield U+FFFD.  A `codecs.StreamReader` cannot be told: its read() calls
    `self.decode(data, self.errors)` with no `final` argument (read off the standard library's source).  Accepted: a reader
    whose read() passes a `final` flag derived from "the source returned nothing" to an incremental decoder."""
    from .c04 import _stdlib_source
    r = ctx.r
    r.rule(rid, "the decoder is told when the input ends (an incomplete trailing sequence is replaced, not dropped)", floor=1)
    mod = ctx.repo.module(REL)
    rs = ctx.repo.func(REL, "HTMLBinaryInputStream.reset")
    ds = [n for n in ast.walk(rs.node) if isinstance(n, ast.Assign) and attr_chain(n.targets[0]) == ["self", "dataStream"]]
    if len(ds) != 1 or not isinstance(ds[0].value, ast.Call):
        r.idiom(rid, False, "decoder-end-of-input", rs.where, "HTMLBinaryInputStream.reset: the construction of dataStream was not found")
        return
    call = ds[0].value
    uses_streamreader = norm(call.func).endswith(".streamreader") or "getreader" in norm(call.func)
    # does codecs.StreamReader.read pass a final flag?
    sr_final = None
    tree = _stdlib_source("codecs")
    if tree is not None:
        for c in ast.walk(tree):
            if isinstance(c, ast.ClassDef) and c.name == "StreamReader":
                for m in c.body:
                    if isinstance(m, ast.FunctionDef) and m.name == "read":
                        decs = [x for x in ast.walk(m) if isinstance(x, ast.Call) and norm(x.func) == "self.decode"]
                        sr_final = any(len(x.args) > 2 or any(k.arg == "final" for k in x.keywords) for x in decs) if decs else None
    ok = False
    never_final = False
    cls = mod.classes.get(call.func.id) if isinstance(call.func, ast.Name) else None
    detail = {"reader": norm(call.func), "stdlib_streamreader_passes_final": sr_final}
    if cls is not None:
        rd = cls.find_method("read")
        if rd is not None:
            decs = [x for x in ast.walk(rd.node) if isinstance(x, ast.Call) and isinstance(x.func, ast.Attribute) and x.func.attr == "decode"]
            never_final = bool(decs) and all(len(x.args) == 1 and not x.keywords for x in decs) and \
                not any(isinstance(x, ast.Call) and isinstance(x.func, ast.Attribute) and x.func.attr == "decode" and (len(x.args) > 1 or x.keywords)
                        for x in ast.walk(cls.node))
            for x in ast.walk(rd.node):
                if isinstance(x, ast.Call) and isinstance(x.func, ast.Attribute) and x.func.attr == "decode" and \
                        (len(x.args) == 2 or any(k.arg == "final" for k in x.keywords)):
                    fin = x.args[1] if len(x.args) == 2 else next(k.value for k in x.keywords if k.arg == "final")
                    src = x.args[0]
                    # final <=> nothing was read: `not data` / `data == b""` / `len(data) == 0`
                    t = norm(fin)
                    ok = isinstance(src, ast.Name) and t in ("not %s" % src.id, "%s == b''" % src.id, "len(%s) == 0" % src.id)
            init = cls.find_method("__init__")
            ok = ok and init is not None and "incrementaldecoder" in norm(init.node)
    r.idiom(rid, ok, "decoder-end-of-input", "%s:%d" % (REL, ds[0].lineno), "how the decoder learns that the input has ended was not recognised (%s)" % norm(call)[:80],
            wrong=[(never_final, "the reader's decode() calls never pass final=True: an incomplete multi-byte sequence at the end of the input "
                                 "stays in the decoder and is dropped (parse(b'<p>caf\\xc3', transport_encoding='utf-8') gives <p>caf)"),
                   (uses_streamreader and sr_final is False,
                    "bytes are decoded through a codecs.StreamReader, whose read() never tells the decoder that the input has ended: an "
                    "incomplete multi-byte sequence at the end of the input is dropped -- parse(b'<p>caf\\xc3', transport_encoding='utf-8') "
                    "gives <p>caf, the same bytes decoded with the reported encoding give <p>caf\\ufffd (likewise UTF-16 input with an odd "
                    "number of bytes)")],
            detail=detail)


def decoder_rule(ctx, rid):
    r = ctx.r
    repo = ctx.repo
    rs = repo.func(REL, "HTMLBinaryInputStream.reset")
    ds = [n for n in ast.walk(rs.node) if isinstance(n, ast.Assign) and attr_chain(n.targets[0]) == ["self", "dataStream"]]
    dtxt = norm(ds[0].value) if len(ds) == 1 else ""
    ok = len(ds) == 1 and dtxt.startswith("self.charEncoding[0].codec_info.streamreader(self.rawStream")
    registry = False
    if len(ds) == 1 and not ok and isinstance(ds[0].value, ast.Call) and isinstance(ds[0].value.func, ast.Name):
        # a reader class of this module that is handed the raw stream and the resolved encoding's codec_info, and builds its
        # decoder from that codec_info
        cls = repo.module(REL).classes.get(ds[0].value.func.id)
        args = [norm(a) for a in ds[0].value.args]
        init = cls.find_method("__init__") if cls else None
        if init is not None and "self.rawStream" in args and "self.charEncoding[0].codec_info" in args:
            pname = init.params()[1:][args.index("self.charEncoding[0].codec_info")]
            built = [c for c in ast.walk(init.node) if isinstance(c, ast.Call) and isinstance(c.func, ast.Attribute) and
                     c.func.attr in ("incrementaldecoder", "streamreader") and norm(c.func.value) == pname]
            registry = any("codecs." in norm(c.func) for c in ast.walk(cls.node) if isinstance(c, ast.Call))
            ok = len(built) == 1 and not registry
    r.idiom(rid, ok,
            "decoder", rs.where, "the decoder is not built from self.charEncoding[0] over rawStream",
            wrong=[("codecs.getreader(" in dtxt or "codecs.lookup(" in dtxt or "codecs.getincrementaldecoder(" in dtxt or registry,
                    "the decoder is looked up in Python's codec registry by name (`%s`) instead of being taken from the encoding object that "
                    "the label resolved to: labels the Encoding standard knows but Python does not (windows-874, x-user-defined, "
                    "iso-8859-8-i, ...) raise LookupError and CJK encodings decode differently from what documentEncoding reports" % dtxt[:70])])


def _extract_charset(data):
    """the standard's "algorithm for extracting a character encoding from a meta element", on bytes; -> label (bytes) or None"""
    ws = b"\t\n\x0c\r "
    low = data.lower()
    pos = 0
    while True:
        k = low.find(b"charset", pos)
        if k < 0:
            return None
        pos = k + 7
        while pos < len(data) and data[pos:pos + 1] in ws:
            pos += 1
        if data[pos:pos + 1] != b"=":
            continue
        pos += 1
        while pos < len(data) and data[pos:pos + 1] in ws:
            pos += 1
        if pos >= len(data):
            return None
        q = data[pos:pos + 1]
        if q in (b'"', b"'"):
            end = data.find(q, pos + 1)
            return data[pos + 1:end] if end >= 0 else None
        end = pos
        while end < len(data) and data[end:end + 1] not in ws + b";":
            end += 1
        return data[pos:end]


def late_meta_evaluated(ctx, f, cases) -> bool:
    """C06.7 (a) by running InHeadPhase.startTagMeta from its source (sa/classeval.py), helpers in other modules included, with
    models of the stream (confidence, a recording changeEncoding), of lookupEncoding (every label but `bogus` names an encoding)
    and of the content-attribute extractor (the standard's algorithm, transcribed; the real one is decided by C06.14 / C06.7 c)."""
    from ..classeval import ClassEval, Record
    r = ctx.r

    def lookup(x):
        if x is None:
            return None
        if isinstance(x, bytes):
            x = x.decode("ascii", "replace")
        return None if x.strip().lower() in ("bogus", "") else "ENC:" + x.strip().lower()
    extra = [("charset-unknown-with-pragma", {"charset": "bogus", "http-equiv": "content-type", "content": "text/html; charset=koi8-r"}, True),
             ("charset-and-pragma", {"charset": "utf-8", "http-equiv": "content-type", "content": "text/html; charset=koi8-r"}, True),
             ("pragma-unknown-label", {"http-equiv": "content-type", "content": "text/html; charset=bogus"}, False),
             ("pragma-no-charset", {"http-equiv": "content-type", "content": "text/html"}, False)]
    results = []
    try:
        for conf in ("tentative", "certain"):
            for label, attrs, want in list(cases) + extra:
                calls = []
                stream = Record(charEncoding=("ENC:x", conf), changeEncoding=lambda enc, calls=calls: calls.append(enc))
                stack = [Record(name="html"), Record(name="head")]
                tree = Record(insertElement=lambda tok, stack=stack: stack.append(Record(name=tok["name"])), openElements=stack)
                parser = Record(tokenizer=Record(stream=stream))
                evl = ClassEval(ctx.ce, f.module, f.cls, {"tree": tree, "parser": parser}, repo=ctx.repo)
                evl.function_models = {"lookupEncoding": lookup, "EncodingBytes": lambda b: b,
                                       "ContentAttrParser": lambda data: Record(parse=lambda: _extract_charset(data))}
                evl.call(f.name, [{"type": 3, "name": "meta", "data": dict(attrs), "selfClosing": False}])
                effective = [lookup(c) for c in calls if lookup(c) is not None]
                results.append((conf, label, attrs, want, effective))
    except AnalysisError as e:
        r.note("C06: InHeadPhase.startTagMeta not evaluable as a whole (%s); decided by branch partition" % str(e)[:120])
        return False
    for conf, label, attrs, want, effective in results:
        exp = want and conf == "tentative"
        key = "late-meta[%s %s]" % (conf, label)
        std = None
        if exp:
            cs = attrs.get("charset")
            std = lookup(cs) if cs is not None and lookup(cs) is not None else lookup(_extract_charset(attrs.get("content", "").encode("utf-8")))
        ok = (bool(effective) == exp) and (not exp or effective[-1] == std)
        r.check("C06.7", ok, key, f.where,
                "<meta %s> seen by the tree builder while the encoding is %s: html5lib asks for %s; the standard %s (a charset attribute that "
                "names an encoding wins; otherwise http-equiv=content-type, ASCII case-insensitively, with a content attribute)"
                % (" ".join("%s=%r" % kv for kv in attrs.items()), conf, effective or "no encoding change",
                   "changes to %s" % std if exp else "changes nothing"), {"attrs": attrs, "confidence": conf},
                detail={"attrs": attrs, "confidence": conf, "changeEncoding": effective})
    return True


def meta_rules(ctx):
    """C06.7: (a) the late <meta> handler asks for an encoding change for charset=..., and for http-equiv=content-type (ASCII
    case-insensitively) with a content attribute -- and for nothing else; (b) the prescan's quoted attribute value ends at the
    *same* quote character that opened it; (c) the content-attribute extractor skips white space after `=` before it looks
    for a quote."""
    from ..partition import MiniInterp, Opaque
    r = ctx.r
    ce, repo = ctx.ce, ctx.repo
    r.rule("C06.7", "late meta decision table; prescan quoted values end at the opening quote; charset= value may be preceded by white space", floor=10)
    f = repo.func("html5parser.py", "InHeadPhase.startTagMeta")
    tok = f.params()[1]
    cases = [
        ("charset", {"charset": "x"}, True),
        ("pragma-lower", {"http-equiv": "content-type", "content": "text/html; charset=x"}, True),
        ("pragma-mixed-case", {"http-equiv": "Content-Type", "content": "text/html; charset=x"}, True),
        ("pragma-upper", {"http-equiv": "CONTENT-TYPE", "content": "text/html; charset=x"}, True),
        ("refresh", {"http-equiv": "refresh", "content": "5; charset=x"}, False),
        ("content-only", {"content": "text/html; charset=x"}, False),
        ("pragma-without-content", {"http-equiv": "content-type"}, False),
        ("name-only", {"name": "charset", "content": "x"}, False),
        ("empty", {}, False),
    ]
    def _by_partition():
        for conf in ("tentative", "certain"):
            for label, attrs, want in cases:
                def hook(node, local, conf=conf):
                    t = norm(node)
                    if t == "self.parser.tokenizer.stream.charEncoding[1]":
                        return conf
                    if t == "self.parser.tokenizer.stream.charEncoding":
                        return ("x", conf)
                    if isinstance(node, ast.Call) and norm(node.func).endswith("lookupEncoding") and len(node.args) == 1:
                        return None if ce.eval(node.args[0], f.module, local) == "bogus" else "ENC"
                    return NotImplemented
                interp = MiniInterp(ce, f.module, expr_hook=hook)
                key = "late-meta[%s %s]" % (conf, label)
                try:
                    res = interp.run(f.node.body, {tok: {"type": 3, "name": "meta", "data": dict(attrs), "selfClosing": False}, "self": Opaque("self")})
                except AnalysisError as e:
                    r.idiom("C06.7", False, key, f.where, "startTagMeta not decidable for %s (%s)" % (label, str(e)[:80]))
                    continue
                changes = [e for e in res.effects if "changeEncoding(" in e.text]
                exp = want and conf == "tentative"
                r.check("C06.7", bool(changes) == exp, key, f.where,
                        "<meta %s> seen by the tree builder while the encoding is %s: html5lib %s an encoding change; the standard %s"
                        % (" ".join("%s=%r" % kv for kv in attrs.items()), conf, "asks for" if changes else "does not ask for",
                           "does" if exp else "does not"), {"attrs": attrs, "confidence": conf},
                        detail={"attrs": attrs, "confidence": conf, "changeEncoding": bool(changes)})
        # a charset attribute that names no encoding does not count: the standard goes on to the http-equiv / content pair ("if the
        # element has a charset attribute, *and getting an encoding from its value results in an encoding*"); changeEncoding() with
        # an unknown label does nothing, so deciding on the mere presence of the attribute loses the declaration
        def hook2(node, local):
            t = norm(node)
            if t == "self.parser.tokenizer.stream.charEncoding[1]":
                return "tentative"
            if t == "self.parser.tokenizer.stream.charEncoding":
                return ("x", "tentative")
            if isinstance(node, ast.Call) and norm(node.func).endswith("lookupEncoding") and len(node.args) == 1:
                v = ce.eval(node.args[0], f.module, local)
                return None if v == "bogus" else "ENC"
            return NotImplemented
        key = "late-meta[tentative charset-unknown-with-pragma]"
        attrs = {"charset": "bogus", "http-equiv": "content-type", "content": "text/html; charset=x"}
        try:
            res = MiniInterp(ce, f.module, expr_hook=hook2).run(f.node.body, {tok: {"type": 3, "name": "meta", "data": dict(attrs), "selfClosing": False}, "self": Opaque("self")})
            calls = [c for e in res.effects for c in ast.walk(e.node) if isinstance(c, ast.Call) and norm(c.func).endswith("changeEncoding")]
            from_pragma = [c for c in calls if c.args and "'charset'" not in norm(c.args[0])]
            r.check("C06.7", bool(from_pragma), key, f.where,
                    "<meta charset=bogus http-equiv=content-type content='text/html; charset=koi8-r'> seen by the tree builder while the encoding is "
                    "tentative: html5lib asks for %s; the unknown label does nothing and the valid pragma next to it is never looked at (the "
                    "standard falls back to it)" % ([norm(c) for c in calls] or "no encoding change"), {"attrs": attrs})
        except AnalysisError as e:
            r.idiom("C06.7", False, key, f.where, "startTagMeta not decidable for this case (%s)" % str(e)[:80])

    if not late_meta_evaluated(ctx, f, cases):
        _by_partition()
    # (b)
    g = repo.func(REL, "EncodingParser.getAttribute")
    genv = ce.local_env(g.node, g.module)
    quoted = None
    from ..repo import membership_test
    cvar = None
    for n in walk_no_nested(g.node):
        if isinstance(n, ast.If):
            mt = membership_test(n.test, lambda x: ce.try_eval(x, g.module, genv))
            if mt is not None and set(mt[1]) == {b"'", b'"'} and any(isinstance(x, ast.While) for x in n.body):
                quoted, cvar = n, mt[0]
    if quoted is None:
        r.idiom("C06.7", False, "prescan-quote-match", g.where, "getAttribute: quoted-value branch not found")
    else:
        opener = [norm(st.targets[0]) for st in quoted.body if isinstance(st, ast.Assign) and norm(st.value) == cvar]
        loop = next(x for x in quoted.body if isinstance(x, ast.While))
        closing = [n for n in ast.walk(loop) if isinstance(n, ast.If) and any(isinstance(x, ast.Return) for x in n.body)]
        t = closing[0].test if closing else None
        ok = bool(opener) and t is not None and isinstance(t, ast.Compare) and isinstance(t.ops[0], ast.Eq) and \
            {norm(t.left), norm(t.comparators[0])} == {cvar, opener[0]}
        either = t is not None and isinstance(t, ast.Compare) and isinstance(t.ops[0], ast.In)
        r.idiom("C06.7", ok, "prescan-quote-match", "%s:%d" % (REL, quoted.lineno), "getAttribute: closing-quote test not recognised",
                wrong=[(either, "the prescan ends a quoted attribute value at either quote character (`%s`), not at the one that opened "
                                "it: content=\"text/html; charset='x'\"-style values are cut short and the declared encoding is missed"
                        % (norm(t) if t is not None else ""))],
                detail={"test": norm(t) if t is not None else None})
    # (c)
    from ..repo import inline_self_aliases
    h = inline_self_aliases(repo.func(REL, "ContentAttrParser.parse"))
    cfg = CFG(h.node)
    eq_tests = [x for x in cfg.stmt_nodes() if x.kind == "test" and "b'='" in norm(x.ast)]
    q_tests = [x for x in cfg.stmt_nodes() if x.kind == "test" and "currentByte" in norm(x.ast) and
               ("b'\"'" in norm(x.ast) or 'b"\'"' in norm(x.ast))]
    q_tests = sorted(q_tests, key=lambda x: (x.ast.lineno, x.ast.col_offset))[:1]       # the first disjunct is reached first
    if len(eq_tests) != 1 or len(q_tests) != 1:
        r.idiom("C06.7", False, "content-charset-skip-space", h.where, "ContentAttrParser.parse: `=` / quote tests not found")
    else:
        def is_skip(x):
            return any(norm(c.func) == "self.data.skip" and not c.args for c in node_calls(x))
        par = cfg.reach_backward([q_tests[0]], is_skip)
        r.check("C06.7", eq_tests[0].id not in par, "content-charset-skip-space", "%s:%d" % (REL, q_tests[0].ast.lineno),
                "ContentAttrParser.parse tests for a quote directly after `=` without skipping white space first: "
                "`charset= \"utf-8\"` yields an empty / wrong label", detail={"skip_before_quote_test": eq_tests[0].id not in par})


def content_charset_grammar(ctx):
    """C06.14: "extracting a character encoding from a meta element": an unquoted charset value ends at ASCII white space *or*
    `;`; and when `charset` is not followed by `=`, the search continues with the next occurrence of `charset`."""
    r = ctx.r
    ce = ctx.ce
    r.rule("C06.14", "content= charset extraction: unquoted value ends at white space or ';'; the search loops to the next `charset`", floor=2)
    from ..repo import inline_self_aliases
    h = inline_self_aliases(ctx.repo.func(REL, "ContentAttrParser.parse"))
    sk = [c for c in ast.walk(h.node) if isinstance(c, ast.Call) and norm(c.func).endswith("skipUntil") and c.args]
    if len(sk) != 1:
        r.idiom("C06.14", False, "unquoted-value-terminators", h.where, "ContentAttrParser.parse: the unquoted-value scan was not found")
    else:
        stop = ce.try_eval(sk[0].args[0], h.module)
        ws = {b"\t", b"\n", b"\x0c", b"\r", b" "}
        if not isinstance(stop, (set, frozenset)):
            r.idiom("C06.14", False, "unquoted-value-terminators", "%s:%d" % (REL, sk[0].lineno), "the terminator set is not constant")
        else:
            r.check("C06.14", ws <= set(stop) and b";" in stop, "unquoted-value-terminators", "%s:%d" % (REL, sk[0].lineno),
                    "an unquoted charset value in content= is ended by %s only; the standard also ends it at ';': "
                    "content=\"text/html; charset=utf-8;format=flowed\" yields the label 'utf-8;format=flowed', the lookup fails and the "
                    "declaration is ignored (by the prescan and by the late <meta> alike)" % sorted(stop), detail={"terminators": sorted(stop)})
    # the "no = after charset" exit: a return inside a loop that looks for the next occurrence, not a plain give-up
    eq = [n for n in ast.walk(h.node) if isinstance(n, ast.If) and "b'='" in norm(n.test)]
    in_loop = any(isinstance(w, (ast.While, ast.For)) and any(x is e for e in eq for x in ast.walk(w)) for w in ast.walk(h.node))
    gives_up = any(isinstance(s, ast.Return) and (s.value is None or norm(s.value) == "None") for e in eq for s in e.body)
    r.idiom("C06.14", bool(eq) and in_loop, "charset-search-loops", h.where, "ContentAttrParser.parse: the handling of `charset` without `=` was not recognised",
            wrong=[(bool(eq) and gives_up and not in_loop,
                    "when `charset` is not followed by `=` ContentAttrParser.parse gives up instead of looking for the next `charset`: "
                    "content=\"charset text/html; charset=utf-8\" declares nothing")], detail={"loops": in_loop})


def _tag_entries(ctx):
    """The functions the pre-scan's dispatch table runs for `<` + letter and `</` + letter, resolved from the table itself and
    followed through tail delegations (`return self.worker(<constants>)`): kind -> (function, bound parameters)."""
    ce = ctx.ce
    cls = ctx.repo.cls(REL, "EncodingParser")
    ge = ctx.repo.func(REL, "EncodingParser.getEncoding")
    table = {}
    for t in ast.walk(ge.node):
        if isinstance(t, ast.Tuple) and len(t.elts) == 2 and isinstance(t.elts[1], ast.Attribute) and norm(t.elts[1].value) == "self":
            k = ce.try_eval(t.elts[0], ge.module, {})
            if isinstance(k, bytes):
                table[k] = t.elts[1].attr
    out = {}
    for kind, key in (("start", b"<"), ("end", b"</")):
        name = table.get(key)
        if name is None or name not in cls.methods:
            raise AnalysisError("pre-scan dispatch table: no handler for %r" % key)
        f, env, chain = cls.methods[name], {}, [name]
        for _ in range(3):
            body = [x for x in f.node.body if not (isinstance(x, ast.Expr) and isinstance(x.value, ast.Constant))]
            if not (len(body) == 1 and isinstance(body[0], ast.Return) and isinstance(body[0].value, ast.Call)):
                break
            c = body[0].value
            if not (isinstance(c.func, ast.Attribute) and norm(c.func.value) == "self" and c.func.attr in cls.methods and not c.keywords):
                break
            try:
                args = [ce.eval(a, f.module, dict(env)) for a in c.args]
            except NotConstant:
                break
            g = cls.methods[c.func.attr]
            env = dict(zip(g.params()[1:], args))
            f = g
            chain.append(g.name)
        out[kind] = (f, env, chain)
    return out


def prescan_tag_rules(ctx):
    """C06.8: the prescan skips over a tag by reading its attributes one by one -- for end tags as well as start tags (a `>`
    inside a quoted attribute value of an end tag does not end it).  (An earlier version of this rule also expected "unless the
    tag name runs into another `<`": that was html5lib's behaviour, not the standard's -- see C06.17 tag-name-end.)"""
    from ..partition import MiniInterp, Opaque
    r = ctx.r
    ce = ctx.ce
    r.rule("C06.8", "prescan: every tag that starts with a letter has its attributes parsed (start and end tags alike)", floor=8)
    entries = _tag_entries(ctx)
    for end_tag in (False, True):
        f, bound, chain = entries["end" if end_tag else "start"]
        for first in (b"a", b"1"):
            for stop in (b" ", b">", b"\t"):
                got = []

                def hook(node, local, first=first, stop=stop):
                    t = norm(node)
                    if t in ("data.currentByte", "self.data.currentByte"):
                        return first
                    if isinstance(node, ast.Call) and norm(node.func) in ("data.skipUntil", "self.data.skipUntil"):
                        return stop
                    return NotImplemented

                def stmt_hook(st, out, interp, got=got):
                    if isinstance(st, ast.Assign) and "getAttribute()" in norm(st.value):
                        got.append(st)
                        out.env[norm(st.targets[0])] = None
                        return False
                    if isinstance(st, ast.While) and "getAttribute" in norm(st):
                        if "getAttribute()" in norm(st.test):
                            got.append(st)          # `while self.getAttribute() is not None: pass`
                        return False
                    if isinstance(st, ast.Assign) and norm(st.value) in ("self.data",):
                        out.env[norm(st.targets[0])] = Opaque("data")
                        return False
                    return NotImplemented
                interp = MiniInterp(ce, f.module, expr_hook=hook, stmt_hook=stmt_hook)
                key = "prescan-tag[end=%d first=%s next=%s]" % (end_tag, first.decode(), stop.decode())
                try:
                    interp.run(f.node.body, dict(bound, self=Opaque("self")))
                except AnalysisError as e:
                    r.idiom("C06.8", False, key, f.where, "%s not decidable (%s)" % (f.qual, str(e)[:80]))
                    continue
                exp = first == b"a"
                r.check("C06.8", bool(got) == exp, key, f.where,
                        "prescan, %s tag starting with %r, name followed by %r: attributes are %s; the standard %s -- otherwise a `>` inside "
                        "an attribute value ends the tag early and the text after it is scanned as markup" % (
                            "end" if end_tag else "start", first.decode(), stop.decode(), "parsed" if got else "not parsed",
                            "parses them" if exp else "does not"), {"end_tag": end_tag}, detail={"end_tag": end_tag, "attributes_parsed": bool(got)})


def prescan_dispatch_position(ctx):
    """C06.9: matchBytes leaves the position on the first byte *after* the matched prefix, and handlePossibleTag tests the byte
    at the position for "ASCII letter".  The handlers the dispatch table maps `<` and `</` to must therefore hand over without
    moving the position (sibling agreement): an extra advance makes the test look at the second letter, so one-letter end tags
    (`</p ...>`) are taken for bogus markup and skipped to the next `>`, even one inside a quoted attribute value."""
    r = ctx.r
    r.rule("C06.9", "prescan tag handlers hand over to handlePossibleTag at the position matchBytes left", floor=2)
    cls = ctx.repo.cls(REL, "EncodingParser")
    mb = ctx.repo.func(REL, "EncodingBytes.matchBytes")
    after = any(isinstance(s, ast.AugAssign) and norm(s.target) == "self.position" and norm(s.value).startswith("len(") for s in ast.walk(mb.node))
    r.idiom("C06.9", after, "matchBytes-positions-after-prefix", mb.where, "matchBytes no longer advances the position by the length of the prefix")
    workers = {"self." + f_.name for f_, _, chain_ in _tag_entries(ctx).values() if len(chain_) > 1}
    for m in cls.methods.values():
        body = [s for s in m.node.body if not (isinstance(s, ast.Expr) and isinstance(s.value, ast.Constant))]
        if not body or not (isinstance(body[-1], ast.Return) and isinstance(body[-1].value, ast.Call) and
                            norm(body[-1].value.func) in workers):
            continue
        moves = [norm(s) for s in body[:-1] if any(
            (isinstance(c, ast.Call) and (norm(c.func) in ("next", "self.data.next", "self.data.__next__", "self.data.previous") or
                                          norm(c.func).endswith((".skip", ".skipUntil", ".jumpTo")))) or
            (isinstance(c, (ast.Assign, ast.AugAssign)) and "position" in norm(c.targets[0] if isinstance(c, ast.Assign) else c.target))
            for c in ast.walk(s))]
        r.check("C06.9", not moves or not after, "handover::%s" % m.name, m.where,
                "%s moves the read position (%s) before handing over to handlePossibleTag although matchBytes already left it on the "
                "first byte of the tag name: the ASCII-letter test is made on the second byte, so `</p title=\"><meta charset=x>\">` "
                "is skipped only up to the first `>` and the attribute text is scanned as markup" % (m.qual, moves[:1]),
                {"method": m.name}, detail={"method": m.name, "moves": moves})


def thorough(ctx):
    from .. import selftest
    selftest.run(ctx, sys.modules[__name__])


def mutants():
    from ..selftest import TextMutant as T
    bl_over = ("        # If we've been overridden, we've been overridden\n"
               "        charEncoding = lookupEncoding(self.override_encoding), \"certain\"\n"
               "        if charEncoding[0] is not None:\n            return charEncoding\n\n")
    bl_trans = ("        # Now check the transport layer\n"
                "        charEncoding = lookupEncoding(self.transport_encoding), \"certain\"\n"
                "        if charEncoding[0] is not None:\n            return charEncoding\n\n")
    return [
        T("prescan-eob-is-end-of-tag", REL, "        if c is None:\n            # ran off the end of the buffer inside a tag\n            raise StopIteration\n        if c == b\">\":\n            return None\n", "        if c in (b\">\", None):\n            return None\n", "C06.17"),
        T("prescan-single-read", REL, "        # a source may hand the bytes out in pieces\n        while len(buffer) < self.numBytesMeta:\n            more = self.rawStream.read(self.numBytesMeta - len(buffer))\n            if not more:\n                break\n            buffer += more\n", "", "C06.20"),
        T("late-meta-charset-presence-only", "html5parser.py", "            if (\"charset\" in attributes and\n                    _inputstream.lookupEncoding(attributes[\"charset\"]) is not None):", "            if \"charset\" in attributes:", "C06.7"),
        T("prescan-user-defined-unmapped", REL, "        elif encoding is not None and encoding.name == \"x-user-defined\":\n            encoding = lookupEncoding(\"windows-1252\")\n", "", "C06.16"),
        T("late-user-defined-unmapped", REL, "        elif newEncoding.name == \"x-user-defined\":\n            newEncoding = lookupEncoding(\"windows-1252\")\n            assert newEncoding is not None\n", "", "C06.16"),
        T("content-parser-bracket-narrowed", REL, "                    return self.data[oldPosition:]\n        except StopIteration:\n            return None",
          "                    return self.data[oldPosition:]\n        except ValueError:\n            return None", "C06.15"),
        T("charset-value-no-semicolon-stop", REL, "self.data.skipUntil(spaceCharactersBytes | frozenset([b\";\"]))", "self.data.skipUntil(spaceCharactersBytes)", "C06.14"),
        T("bom-single-read", "_inputstream.py", "        while len(string) < 4:\n            more = self.rawStream.read(4 - len(string))\n            if not more:\n                break\n            string += more\n", "", "C06.13"),
        T("bom-seek-constant", "_inputstream.py", "        encoding = None\n        seek = 0\n        for bom, name in bomDict.items():\n            if string.startswith(bom):\n                encoding = name\n                seek = len(bom)\n                break\n",
          "        encoding = bomDict.get(string[:3])\n        seek = 3\n        if not encoding:\n            encoding = bomDict.get(string[:2])\n            seek = 2\n", "C06.12"),
        T("bom-utf32-entry", REL, "            codecs.BOM_UTF16_LE: 'utf-16le', codecs.BOM_UTF16_BE: 'utf-16be',\n        }", "            codecs.BOM_UTF16_LE: 'utf-16le', codecs.BOM_UTF16_BE: 'utf-16be',\n            codecs.BOM_UTF32_LE: 'utf-32le',\n        }", "C06.10"),
        T("bom-utf16-swapped", REL, "codecs.BOM_UTF16_LE: 'utf-16le', codecs.BOM_UTF16_BE: 'utf-16be'", "codecs.BOM_UTF16_LE: 'utf-16be', codecs.BOM_UTF16_BE: 'utf-16le'", "C06.10"),
        T("endtag-extra-advance", REL, "    def handlePossibleEndTag(self):\n        return self.handlePossibleTag(True)", "    def handlePossibleEndTag(self):\n        next(self.data)\n        return self.handlePossibleTag(True)", "C06.9"),
        T("endtag-skip-attrs", REL, "        # Read all attributes\n        attr = self.getAttribute()\n        while attr is not None:\n            attr = self.getAttribute()\n        return True",
          "        if endTag:\n            self.handleOther()\n            return True\n        # Read all attributes\n        attr = self.getAttribute()\n        while attr is not None:\n            attr = self.getAttribute()\n        return True", "C06.8"),
        T("prescan-meta-needs-space", REL, "        if self.data.currentByte not in spaceCharactersBytes | frozenset([b\"/\"]):", "        if self.data.currentByte not in spaceCharactersBytes:", "C06.17"),
        T("prescan-tagname-stops-at-lt", REL, "spacesRightAngleBracket = spaceCharactersBytes | frozenset([b\">\"])", "spacesRightAngleBracket = spaceCharactersBytes | frozenset([b\">\", b\"<\"])", "C06.17"),
        T("prescan-comment-after-four-bytes", REL, "        self.data.position -= 2\n        return self.data.jumpTo(b\"-->\")", "        return self.data.jumpTo(b\"-->\")", "C06.17"),
        T("prescan-lone-lt-skips-a-byte", REL, "            data.previous()\n            if endTag:\n                self.handleOther()\n            return True", "            if endTag:\n                data.previous()\n                self.handleOther()\n            return True", "C06.17"),
        T("prescan-meta-prefix-dropped", REL, "            self.data.position -= len(b\"meta\")\n            return self.handlePossibleStartTag()", "            return True", "C06.17"),
        T("prescan-meta-duplicates-counted", REL, "            if attr[0] in attrNames:\n                continue\n", "", "C06.18"),
        T("prescan-meta-content-overrides-charset", REL, "                if (tentativeEncoding is not None and\n                        charset is None and not charsetFailed):", "                if tentativeEncoding is not None:", "C06.18"),
        T("prescan-meta-pragma-not-needed", REL, "        if needPragma is None or (needPragma and not gotPragma) or charset is None:", "        if needPragma is None or charset is None:", "C06.18"),
        T("decoder-never-final", REL, "            text = self.decoder.decode(data, not data)", "            text = self.decoder.decode(data)", "C06.19"),
        T("decoder-streamreader-again", REL, "DecodingReader(self.rawStream, self.charEncoding[0].codec_info, 'replace')", "self.charEncoding[0].codec_info.streamreader(self.rawStream, 'replace')", "C06.19"),
        T("content-charset-search-gives-up", REL, "            while True:\n                self.data.jumpTo(b\"charset\")\n                self.data.position += 1\n                self.data.skip()\n                if self.data.currentByte == b\"=\":\n                    break\n",
          "            self.data.jumpTo(b\"charset\")\n            self.data.position += 1\n            self.data.skip()\n            if not self.data.currentByte == b\"=\":\n                return None\n", "C06.14"),
        T("late-meta-case-sensitive", "html5parser.py", "                  attributes[\"http-equiv\"].lower() == \"content-type\"):", "                  attributes[\"http-equiv\"] == \"content-type\"):", "C06.7"),
        T("late-meta-any-content", "html5parser.py", "            elif (\"content\" in attributes and\n                  \"http-equiv\" in attributes and\n                  attributes[\"http-equiv\"].lower() == \"content-type\"):",
          "            elif \"content\" in attributes:", "C06.7"),
        T("prescan-either-quote", REL, "                if c == quoteChar:", "                if c in (b\"'\", b'\"'):", "C06.7"),
        T("content-no-skip-after-eq", REL, "            self.data.position += 1\n            self.data.skip()\n            # Look for an encoding between matching quote marks",
          "            self.data.position += 1\n            # Look for an encoding between matching quote marks", "C06.7"),
        T("swap-override-transport", REL, bl_over + bl_trans, bl_trans + bl_over, "C06.1"),
        T("meta-certain", REL, 'charEncoding = self.detectEncodingMeta(), "tentative"', 'charEncoding = self.detectEncodingMeta(), "certain"', "C06.1"),
        T("parent-utf16", REL, 'if charEncoding[0] is not None and not charEncoding[0].name.startswith("utf-16"):', 'if charEncoding[0] is not None:', "C06.1"),
        T("late-utf16-dead", REL, "            assert newEncoding is not None\n        if newEncoding == self.charEncoding[0]:",
          "            assert newEncoding is not None\n        elif newEncoding == self.charEncoding[0]:", "C06.2"),
        T("prescan-no-map", REL, '        if encoding is not None and encoding.name in ("utf-16be", "utf-16le"):\n            encoding = lookupEncoding("utf-8")\n        elif encoding is not None and encoding.name == "x-user-defined":',
          '        if encoding is not None and encoding.name == "x-user-defined":', "C06.2"),
        T("reset-before-store", REL, '            self.charEncoding = (newEncoding, "certain")\n            self.reset()',
          '            self.reset()\n            self.charEncoding = (newEncoding, "certain")', "C06.3"),
        T("no-seek0", REL, '            self.rawStream.seek(0)\n            self.charEncoding = (newEncoding, "certain")',
          '            self.charEncoding = (newEncoding, "certain")', "C06.3"),
        T("reparse-no-reset", "html5parser.py", "        except _ReparseException:\n            self.reset()\n            self.mainLoop()",
          "        except _ReparseException:\n            self.mainLoop()", "C06.3"),
        T("change-when-certain", "html5parser.py", '        if self.parser.tokenizer.stream.charEncoding[1] == "tentative":\n            if ("charset" in attributes and',
          '        if True:\n            if ("charset" in attributes and', "C06.4"),
        T("same-encoding-not-confirmed", REL, "        if newEncoding == self.charEncoding[0]:\n            self.charEncoding = (self.charEncoding[0], \"certain\")",
          "        if newEncoding == self.charEncoding[0]:\n            return", "C06.4"),
        T("bom-no-seek", REL, "        else:\n            self.rawStream.seek(0)\n            return None", "        else:\n            return None", "C06.5"),
        T("meta-no-seek", REL, "        parser = EncodingParser(buffer)\n        self.rawStream.seek(0)\n", "        parser = EncodingParser(buffer)\n", "C06.5"),
        T("prescan-512", REL, "        self.numBytesMeta = 1024", "        self.numBytesMeta = 512", "C06.5"),
        T("report-other", "html5parser.py", "        return self.tokenizer.stream.charEncoding[0].name", "        return self.tokenizer.stream.default_encoding", "C06.6"),
    ]


def preserving():
    from ..selftest import TextMutant as T
    return [
        T("rename-local", REL, '        charEncoding = lookupEncoding(self.likely_encoding), "tentative"\n        if charEncoding[0] is not None:\n            return charEncoding',
          '        charEncoding = (lookupEncoding(self.likely_encoding), "tentative")\n        if charEncoding[0] is not None:\n            return charEncoding', None),
        # accepting a valid charset attribute at once equals reading on: later attributes cannot change the outcome
        T("prescan-meta-early-accept", REL, "                charset = lookupEncoding(attr[1])\n                charsetFailed = charset is None\n                needPragma = False\n",
          "                charset = lookupEncoding(attr[1])\n                charsetFailed = charset is None\n                needPragma = False\n                if charset is not None:\n                    self.encoding = charset\n                    return False\n", None),
        T("prescan-meta-seen-tuple", REL, "            attrNames.append(attr[0])\n", "            attrNames = attrNames + [attr[0]]\n", None),
    ]
