"""C12 -- parser / serializer / walker objects are reusable: no state leaks between calls.

R12.1 RESET completeness    W (attributes of long-lived objects a parse can write) is a subset of
                            R (attributes re-initialised on every path of the reset roots) + checked exemptions
R12.2 MODULE-LEVEL state    run-time writes to module-level containers are memos of a pure function of the key;
                            module-level singleton objects are not mutated from the parse path
R12.3 SERIALIZER / filters / walkers keep per-call state in locals; serialize() re-initialises errors/encoding first
R12.5 ABORT brackets        temporarily changed state (insertFromTable) is also re-initialised by reset
"""
from __future__ import annotations

import ast
import sys

from ..repo import AnalysisError, attr_chain, norm, walk_no_nested
from ..parsermodel import ParserModel, PARSER_REL, NONAME
from ..cfg import CFG, node_calls
from .c03 import model, graph

LEVEL = "other"
TECHNIQUE = ('write-set inventory of long-lived objects over the resolved parse call graph vs. must-assign set of the reset roots (CFG dominance); pairing rule for per-phase scratch state; memo / publication checks for module-level and closure caches; stateful-instance and suspended-generator-state rules on shared objects')
CLAIM = ('Every attribute of the objects that survive a parse (HTMLParser, its 23 phase objects, the '
         'TreeBuilder) that any function reachable from the main loop can write is either re-initialised on '
         'every path through _parse/reset/TreeBuilder.reset, or is scratch state of one phase that is re- '
         'initialised at every switch into that phase, or is a memo of class-level tables. Module-level '
         'containers written at run time are memos of their keys. So no aborted or finished parse can leave '
         'state that a later parse reads. No class-level mutable container is mutated in place through self '
         'without a per-instance rebind in __init__. A handler slot that survives reset() holds only handlers '
         'that restore the default and re-validate the current node; factory caches key on keyword values.'
         ' The shared factory cache publishes only finished values and guards each level with the key it creates.'
         ' What a reset root stores it stores on every path and from arguments and constants only; a cached value built from a parameter is keyed by the parameter itself, not by a projection of it. A module-level memo holds no instance of a class whose methods rewrite its attributes. serialize() keeps per-call state on the object across its yields (two known findings).')
NOT_DECIDED = "thread interleavings beyond the shared-state inventory and the cache-publication rule; state kept inside third-party objects."
MODULES = ["html5parser.py", "treebuilders/base.py", "treebuilders/etree.py", "treebuilders/dom.py", "_tokenizer.py",
           "_inputstream.py", "_utils.py", "_trie/py.py", "_trie/_base.py", "serializer.py", "treebuilders/__init__.py",
           "treewalkers/__init__.py", "treewalkers/base.py", "treewalkers/etree.py", "treewalkers/dom.py"]

MUTATORS = {"append", "pop", "remove", "insert", "extend", "clear", "popleft", "update", "setdefault", "sort",
            "reverse", "appendleft", "popitem", "add", "discard"}

# exemption that is argued, not mechanically checked (listed under `assumptions` in the evidence)
ARGUED = {
    ("phase:InBodyPhase", "processSpaceCharacters"):
        "a stale drop-newline handler differs from the default only at the first in-body white-space token and only if "
        "the current node is an empty pre/listing/textarea; such a node can only have been created in this parse by the "
        "handlers that install the drop-newline handler, so a fresh parser is in the same state",
}


def _kind(ty):
    if ty is None:
        return None
    if ty[0] == "phasecls":
        return "phase:" + ty[1].name
    if ty[0] in ("parser", "tree", "anyphase"):
        return ty[0]
    return None


def write_set(ctx):
    pm = model(ctx)
    nodes, edges, sites, ents = graph(ctx)
    funcs = {}
    for (fq, n), (f, _) in nodes.items():
        funcs[fq] = f
    for q in ("Phase.processStartTag", "Phase.processEndTag", "HTMLParser.mainLoop", "HTMLParser.parseError"):
        f = ctx.repo.func(PARSER_REL, q)
        funcs[f.fq] = f
    # reset roots are not part of W
    for q in ("HTMLParser.reset", "HTMLParser._parse", "HTMLParser.parse", "HTMLParser.parseFragment",
              "HTMLParser.__init__"):
        funcs.pop(ctx.repo.func(PARSER_REL, q).fq, None)
    W = {}
    for fq, f in funcs.items():
        if f.name in ("__init__", "reset") and f.cls is not None and (
                f.cls.is_subclass_of(pm.TreeBuilder) or f.cls.is_subclass_of(pm.Phase)):
            continue
        lt = pm.local_types(f)
        for n in walk_no_nested(f.node):
            tgts = []
            if isinstance(n, ast.Assign):
                tgts = n.targets
            elif isinstance(n, ast.AugAssign):
                tgts = [n.target]
            elif isinstance(n, ast.Delete):
                tgts = n.targets
            elif isinstance(n, ast.Call) and isinstance(n.func, ast.Attribute) and n.func.attr in MUTATORS:
                tgts = [n.func.value]
            for t in tgts:
                base = t
                while isinstance(base, ast.Subscript):
                    base = base.value
                if isinstance(base, ast.Attribute):
                    k = _kind(pm.expr_type(f, base.value, lt))
                    if k:
                        attr = base.attr
                        if attr.startswith("__") and not attr.endswith("__") and f.cls is not None:
                            attr = "_%s%s" % (f.cls.name, attr)
                        W.setdefault((k, attr), []).append((f, n))
    return W


def must_stores(func, recv="self"):
    """attributes `recv.X` assigned on every path entry->exit of func (cut sets of store nodes), and the calls
    executed on every path"""
    cfg = CFG(func.node)
    by_attr, must_calls = {}, []
    for n in cfg.stmt_nodes():
        if n.kind != "stmt":
            continue
        if isinstance(n.ast, (ast.Assign, ast.AugAssign)):
            for t in (n.ast.targets if isinstance(n.ast, ast.Assign) else [n.ast.target]):
                ch = attr_chain(t)
                if ch and len(ch) == 2 and ch[0] == recv:
                    by_attr.setdefault(ch[1], set()).add(n.id)
        par = cfg.reach_forward([cfg.entry], lambda m, n=n: m is n)
        if cfg.exit.id not in par:
            must_calls.extend(node_calls(n))
    must_attrs = set()
    for attr, ids in by_attr.items():
        par = cfg.reach_forward([cfg.entry], lambda m, ids=ids: m.id in ids)
        if cfg.exit.id not in par:
            must_attrs.add(attr)
    return must_attrs, must_calls


def reset_set(ctx):
    pm = model(ctx)
    repo = ctx.repo
    R = {}
    # parser: _parse prologue + reset
    fp = repo.func(PARSER_REL, "HTMLParser._parse")
    fr = repo.func(PARSER_REL, "HTMLParser.reset")
    pa, pcalls = must_stores(fp)
    ra, rcalls = must_stores(fr)
    if not any(norm(c.func) == "self.reset" for c in pcalls):
        raise AnalysisError("_parse no longer calls self.reset() on every path")
    R["parser"] = pa | ra
    if not any(norm(c.func) == "self.tree.reset" for c in rcalls):
        raise AnalysisError("HTMLParser.reset no longer calls self.tree.reset() on every path")
    tb = repo.func("treebuilders/base.py", "TreeBuilder.reset")
    ta, tcalls = must_stores(tb)
    # property setters: a store to `insertFromTable` runs the setter
    tcls = pm.TreeBuilder
    for attr in list(ta):
        node = tcls.assigns.get(attr)
        if isinstance(node, ast.Call) and norm(node.func) == "property" and len(node.args) >= 2:
            setter = tcls.methods.get(norm(node.args[1]))
            if setter is not None:
                sa_, _ = must_stores(setter)
                ta |= {"<via %s>%s" % (attr, x) for x in sa_} | sa_
    for c in tcalls:
        if isinstance(c.func, ast.Attribute) and isinstance(c.func.value, ast.Name) and c.func.value.id == "self":
            for tc in pm.tree_classes:
                m = tc.methods.get(c.func.attr)
                if m is not None:
                    ta |= must_stores(m)[0]
    R["tree"] = ta
    return R


def reset_roots_unconditional(ctx, rid="R12.7"):
    """R12.7: what a reset root stores, it stores on every path and from its arguments / constants -- a store that is skipped
    on some path (`if scripting is not None: self.scripting = scripting`) or whose value reads the attribute's previous content
    (`self.x = x or self.x`) lets an option or a result of an earlier call reach this one."""
    r = ctx.r
    r.rule(rid, "the reset roots store each per-parse attribute on every path, from arguments and constants only", floor=15)
    n = 0
    for rel, q in ((PARSER_REL, "HTMLParser._parse"), (PARSER_REL, "HTMLParser.reset"), ("treebuilders/base.py", "TreeBuilder.reset")):
        f = ctx.repo.func(rel, q)
        must, _ = must_stores(f)
        stores = {}
        for st in walk_no_nested(f.node):
            if isinstance(st, (ast.Assign, ast.AugAssign)):
                for t in (st.targets if isinstance(st, ast.Assign) else [st.target]):
                    ch = attr_chain(t)
                    if ch and len(ch) == 2 and ch[0] == "self":
                        stores.setdefault(ch[1], []).append(st)
        for attr, sts in sorted(stores.items()):
            n += 1
            where = "%s:%d" % (rel, sts[0].lineno)
            r.check(rid, attr in must, "always-stored::%s::%s" % (q, attr), where,
                    "%s stores self.%s on some paths only: on the others the value left by an earlier parse with this object stays in "
                    "force (an option of one call becomes sticky, state of an aborted parse leaks)" % (q, attr), {"function": q, "attribute": attr},
                    detail={"function": q, "attribute": attr})
            dep = [st for st in sts if isinstance(st, ast.AugAssign) or any(
                isinstance(x, ast.Attribute) and x.attr == attr and isinstance(x.ctx, ast.Load) and attr_chain(x) == ["self", attr]
                for x in ast.walk(st.value))]
            r.check(rid, not dep, "fresh-value::%s::%s" % (q, attr), where,
                    "%s computes the new self.%s from its previous content (%s): the previous parse's value reaches this one" % (
                        q, attr, norm(dep[0])[:80] if dep else ""), {"function": q, "attribute": attr})
    if n < 10:
        raise AnalysisError("R12.7 found only %d stores in the reset roots" % n)


def run(ctx):
    r = ctx.r
    repo = ctx.repo
    pm = model(ctx)
    r.explanation = (
        "W = attributes of HTMLParser / phase objects / TreeBuilder written (stores, augmented stores, deletes, mutator calls, "
        "subscript stores through typed access paths such as parser.phase.originalPhase) by any function in the resolved "
        "tree-construction call graph; R = attributes assigned on every CFG path of _parse / HTMLParser.reset / "
        "TreeBuilder.reset (property setters expanded). W - R must be covered by checked exemptions: scratch state of a "
        "phase re-initialised next to every switch into it; memo caches of class-level tables.")
    r.not_decided = NOT_DECIDED
    r.rule("R12.1", "every attribute of a long-lived object writable during a parse is re-initialised by the reset roots "
                    "(or by a checked pairing / memo exemption)", floor=15)
    r.rule("R12.2", "run-time writes to module-level containers are key-determined memos; module-level singletons are not "
                    "mutated from the parse path", floor=4)
    r.rule("R12.3", "serializer re-initialises per-call state first; filters, walkers, adapters keep per-call state in locals",
           floor=10)

    W = write_set(ctx)
    R = reset_set(ctx)
    r.extra["write_set"] = sorted("%s.%s" % k for k in W)
    r.extra["reset_set"] = {k: sorted(v) for k, v in R.items()}
    if len(W) < 12:
        raise AnalysisError("write-set inventory found only %d attributes" % len(W))

    def where_of(item):
        f, n = item
        return "%s:%d" % (f.module.rel, n.lineno)

    for (kind, attr), writers in sorted(W.items()):
        key = "%s.%s" % (kind, attr)
        where = where_of(writers[0])
        names = sorted({f.qual for f, _ in writers})
        if kind in R and attr in R[kind]:
            r.ok("R12.1", key, where, detail={"written_by": names[:4], "reset_by": kind})
            continue
        # ---- memo of class-level dispatch tables
        if attr in ("_Phase__startTagCache", "_Phase__endTagCache"):
            ok, why = _cache_is_memo(ctx, writers)
            r.check("R12.1", ok, key, where, "handler cache is not a memo of the class-level table: %s" % why,
                    detail={"exempt": "memo of class-level dispatcher table", "checked": why})
            continue
        # ---- scratch state of one phase: re-initialised at every switch into the phase
        if kind.startswith("phase:") or kind == "anyphase":
            if (kind, attr) in ARGUED:
                r.assumptions.append("%s: %s" % (key, ARGUED[(kind, attr)]))
                ok, why = _stale_handler_revalidates(ctx, pm, kind.split(":", 1)[1], attr)
                r.check("R12.1", ok, key, where,
                        "%s can be left pointing at a non-default handler by an aborted or finished parse, and %s: the first "
                        "white-space token of the next document is handled by the stale handler" % (key, why),
                        {"writers": names}, detail={"exempt": "stale handler re-validates its precondition", "checked": why})
                continue
            cls_names = [kind.split(":", 1)[1]] if kind.startswith("phase:") else _owner_phases(pm, attr)
            ok_all, whys = True, []
            for cn in cls_names:
                pk = next((k for k, c in pm.phases.items() if c.name == cn), None)
                if pk is None:
                    ok_all = False
                    whys.append("no phase key for %s" % cn)
                    continue
                ok, why = _switch_reinitialises(ctx, pk, attr)
                ok_all = ok_all and ok
                whys.append(why)
            r.check("R12.1", ok_all, key, where,
                    "%s is written during a parse (%s), is not re-initialised by reset(), and %s: state of an aborted or "
                    "earlier parse is visible to the next one" % (key, names[:3], "; ".join(whys)),
                    {"writers": names}, detail={"exempt": "re-initialised at every switch into the phase", "checked": whys})
            continue
        if kind == "parser" and attr == "originalPhase":
            ok, why = _text_switch_saves(ctx)
            r.check("R12.1", ok, key, where, "parser.originalPhase is not saved at every switch to the text phase: %s" % why,
                    detail={"exempt": "stored next to every switch to the text phase", "checked": why})
            continue
        r.bad("R12.1", key, where,
              "%s is written during a parse by %s but is not re-initialised on every path of _parse/reset" % (key, names[:4]),
              {"writers": names})

    reset_roots_unconditional(ctx)
    module_state(ctx)
    per_call_state(ctx)
    class_level_containers(ctx)
    r.rule("R12.5", "factory caches key on the full keyword arguments their value is built from", floor=1)
    lossy_cache_keys(ctx, "R12.5")
    shared_cache_publication(ctx)


def _stale_handler_revalidates(ctx, pm, cls_name, slot):
    """A handler slot (`self.<slot> = self.<method>`) of a phase object survives reset().  That is harmless iff every
    non-default handler installed in the slot (i) restores the default on entry and (ii) deviates from the default only under
    a test that the current node is one of the elements whose start-tag handlers install it -- such a node can only have been
    created in the present parse by those handlers, so a stale installation behaves like the default."""
    cls = ctx.repo.cls(PARSER_REL, cls_name)
    init = cls.methods.get("__init__")
    default = None
    for s in (walk_no_nested(init.node) if init else []):
        if isinstance(s, ast.Assign) and attr_chain(s.targets[0]) == ["self", slot]:
            default = (attr_chain(s.value) or [""])[-1]
    if default is None:
        return False, "no default handler is installed by __init__"
    installs = {}
    for m in cls.methods.values():
        for s in walk_no_nested(m.node):
            if isinstance(s, ast.Assign) and attr_chain(s.targets[0]) == ["self", slot]:
                h = (attr_chain(s.value) or [""])[-1]
                if h != default:
                    installs.setdefault(h, set()).add(m.name)
    if not installs:
        return True, "only the default handler is ever installed"
    st_tab = pm.table_for(cls, "startTagHandler")
    for h, installers in installs.items():
        hm = cls.methods.get(h)
        if hm is None:
            return False, "installed handler %s is not a method of the class" % h
        names = set()
        for inst in installers:
            keys = {k for k, f in st_tab.map.items() if f.name == inst} if st_tab else set()
            if not keys:
                return False, "%s is installed by %s, which is not a start-tag handler" % (h, inst)
            names |= keys
        body = [s for s in hm.node.body if not (isinstance(s, ast.Expr) and isinstance(s.value, ast.Constant))]
        restores = any(isinstance(s, ast.Assign) and attr_chain(s.targets[0]) == ["self", slot] and
                       (attr_chain(s.value) or [""])[-1] == default for s in body)
        if not restores:
            return False, "%s does not restore the default handler on entry" % h
        tested = set()          # names the handler compares the current node's name with (x in (..) or x == ..)
        # a local that holds the current node (`currentNode = self.tree.openElements[-1]`) stands for it
        cur_locals = {a.targets[0].id for a in ast.walk(hm.node) if isinstance(a, ast.Assign) and len(a.targets) == 1 and
                      isinstance(a.targets[0], ast.Name) and norm(a.value).endswith("openElements[-1]")}
        for t in ast.walk(hm.node):
            if isinstance(t, ast.Compare) and len(t.ops) == 1 and isinstance(t.ops[0], (ast.In, ast.Eq)) and \
                    (norm(t.left).endswith("openElements[-1].name") or (isinstance(t.left, ast.Attribute) and t.left.attr == "name" and
                                                                          isinstance(t.left.value, ast.Name) and t.left.value.id in cur_locals)):
                v = ctx.ce.try_eval(t.comparators[0], hm.module)
                if isinstance(v, (tuple, list, set, frozenset)):
                    tested |= {x for x in v if isinstance(x, str)}
                elif isinstance(v, str):
                    tested.add(v)
        if not names <= tested:
            return False, ("%s (installed by the start tags %s) does not test that the current node is one of these elements before "
                           "it deviates from the default handler" % (h, sorted(names)))
    return True, "every installed handler restores the default and re-checks the current node against its installers' elements"


def _owner_phases(pm, attr):
    out = []
    for k, c in pm.phases.items():
        slots = c.assigns.get("__slots__")
        if slots is not None and attr in norm(slots):
            out.append(c.name)
    return out or ["<unknown>"]


def _cache_is_memo(ctx, writers):
    pm = model(ctx)
    # value stored is self.<table>[name]; the table is assigned only in class bodies
    for f, n in writers:
        if isinstance(n, ast.Assign):
            v = norm(n.value)
            if not (v.startswith("self.startTagHandler[") or v.startswith("self.endTagHandler[")):
                return False, "stores %s" % v
    mod = ctx.repo.module(PARSER_REL)
    for f in mod.all_functions:
        for n in walk_no_nested(f.node):
            if isinstance(n, (ast.Assign, ast.AugAssign)):
                for t in (n.targets if isinstance(n, ast.Assign) else [n.target]):
                    if "startTagHandler" in norm(t) or "endTagHandler" in norm(t):
                        return False, "dispatcher table written at run time in %s" % f.qual
    return True, "stored values are lookups in tables that only class bodies assign"


def _switch_reinitialises(ctx, phase_key, attr):
    """every `X.phase = X.phases["<phase_key>"]` is followed, before any call, by `X.phase.<attr> = ...`"""
    pm = model(ctx)
    mod = ctx.repo.module(PARSER_REL)
    n_sw = 0
    for f, st, k in pm.phase_stores:
        if k != phase_key:
            continue
        n_sw += 1
        cfg = CFG(f.node)
        starts = cfg.locate(st)

        def is_reinit(n):
            if n.kind != "stmt" or not isinstance(n.ast, ast.Assign):
                return False
            for t in n.ast.targets:
                ch = attr_chain(t)
                if ch and ch[-1] == attr and len(ch) >= 2 and ch[-2] == "phase":
                    return True
            return False

        def blocked(n):
            return is_reinit(n)
        par = cfg.reach_forward(starts, blocked)
        # a path that reaches a call (other than the re-initialising stores) or the exit without re-init
        for nid, _p in par.items():
            nd = cfg.nodes[nid]
            if nd is cfg.exit or (nd.kind in ("stmt", "test") and node_calls(nd)):
                return False, "the switch to %s in %s is not followed by a store to phase.%s before %s" % (
                    phase_key, f.qual, attr, "the exit" if nd is cfg.exit else "`%s`" % nd.text[:50])
    if n_sw == 0:
        # a phase that is never stored as parser.phase (e.g. inForeignContent) has no entry to pair with
        return False, "no switch into %s found" % phase_key
    return True, "%d switch(es) into %s each followed by a store to phase.%s" % (n_sw, phase_key, attr)


def _text_switch_saves(ctx):
    pm = model(ctx)
    n = 0
    for f, st, k in pm.phase_stores:
        if k != "text":
            continue
        n += 1
        cfg = CFG(f.node)
        def is_save(nd):
            return nd.kind == "stmt" and isinstance(nd.ast, ast.Assign) and any(
                (attr_chain(t) or [""])[-1] == "originalPhase" for t in nd.ast.targets)
        if cfg.must_precede(cfg.locate(st), is_save):
            return False, "switch to text in %s is not preceded by a store to originalPhase" % f.qual
    return n > 0, "%d switch(es) to the text phase, each preceded by a store to originalPhase" % n


# ---------------------------------------------------------------------------- R12.2
def _stateful_instance(repo, f, val):
    """name of the package class `val` instantiates (directly or through a local assigned once), if that class has a method
    other than __init__ that stores to / mutates an attribute of self"""
    for _ in range(3):
        if isinstance(val, ast.Name):
            defs = [a.value for a in ast.walk(f.node) if isinstance(a, ast.Assign) and any(isinstance(t, ast.Name) and t.id == val.id for t in a.targets)]
            if len(defs) != 1:
                return None
            val = defs[0]
        else:
            break
    if not (isinstance(val, ast.Call) and isinstance(val.func, (ast.Name, ast.Attribute))):
        return None
    cname = val.func.id if isinstance(val.func, ast.Name) else val.func.attr
    cls = f.module.classes.get(cname)
    if cls is None and isinstance(val.func, ast.Name):
        rr = repo.resolve_import(f.module, cname)
        if rr and rr[0] is not None and rr[1]:
            cls = rr[0].classes.get(rr[1])
    if cls is None:
        return None
    for c in cls.mro():
        for mn, m in c.methods.items():
            if mn == "__init__":
                continue
            for n in walk_no_nested(m.node):
                tg = n.targets if isinstance(n, ast.Assign) else [n.target] if isinstance(n, ast.AugAssign) else []
                if any(isinstance(t, ast.Attribute) and norm(t.value) == "self" for t in tg):
                    return cls.name
    return None


def module_state(ctx):
    r = ctx.r
    repo = ctx.repo
    containers = {}
    for rel, m in repo.modules.items():
        if rel in ("constants.py",):
            pass
        for st in m.tree.body:
            if isinstance(st, ast.Assign) and len(st.targets) == 1 and isinstance(st.targets[0], ast.Name):
                v = st.value
                if isinstance(v, (ast.Dict, ast.List, ast.Set)) or (
                        isinstance(v, ast.Call) and isinstance(v.func, ast.Name) and v.func.id in ("dict", "list", "set", "deque")):
                    containers[(rel, st.targets[0].id)] = st.lineno
    n_writes = 0
    for f in repo.all_functions(include_unruled=False):
        local_stores = {x.id for x in ast.walk(f.node) if isinstance(x, ast.Name) and isinstance(x.ctx, ast.Store)}
        for n in walk_no_nested(f.node):
            tgt = None
            val = None
            if isinstance(n, ast.Assign):
                for t in n.targets:
                    if isinstance(t, ast.Subscript):
                        tgt, val = t, n.value
            elif isinstance(n, ast.Call) and isinstance(n.func, ast.Attribute) and n.func.attr in MUTATORS:
                tgt = n.func.value
            if tgt is None:
                continue
            base = tgt
            keys = []
            while isinstance(base, ast.Subscript):
                keys.append(base.slice)
                base = base.value
            if not isinstance(base, ast.Name) or base.id in local_stores or base.id in f.params():
                continue
            owner = None
            if (f.module.rel, base.id) in containers:
                owner = (f.module.rel, base.id)
            else:
                # closure cache of an enclosing factory
                for outer in f.module.all_functions:
                    if outer is not f and any(x is f.node for x in ast.walk(outer.node)) and any(
                            isinstance(x, ast.Return) and isinstance(x.value, ast.Name) and x.value.id == f.name
                            for x in ast.walk(outer.node)):
                        # the inner function escapes: its closure outlives the call (a factory)
                        for st in outer.node.body:
                            if isinstance(st, ast.Assign) and any(isinstance(t, ast.Name) and t.id == base.id for t in st.targets):
                                owner = (f.module.rel, "%s.%s" % (outer.name, base.id))
            if owner is None:
                continue
            n_writes += 1
            key = "%s::%s::%s" % (owner[0], owner[1], f.qual)
            where = "%s:%d" % (f.module.rel, n.lineno)
            if val is None:
                # `cache.setdefault(key, {})` creates a level of a keyed memo exactly like `cache[key] = {}` does
                if n.func.attr == "setdefault" and len(n.args) == 2 and (isinstance(n.args[1], (ast.Dict, ast.List, ast.Set)) and not
                                                                          (getattr(n.args[1], "keys", None) or getattr(n.args[1], "elts", None))):
                    r.ok("R12.2", key + "::level", where, detail={"cache": owner[1], "level_created_with": "setdefault"})
                    continue
                r.bad("R12.2", key, where, "module-level container %s is mutated by %s" % (owner[1], norm(n)[:60]))
                continue
            knames = {x.id for k in keys for x in ast.walk(k) if isinstance(x, ast.Name)}
            # a memo may hold values, classes, modules -- not an *object with per-call state*: two overlapping calls (threads, a
            # nested call from an input source) that look up the same key would run on one parser / serializer
            shared_cls = _stateful_instance(repo, f, val)
            if shared_cls is not None:
                r.bad("R12.2", key + "::stateful-object", where,
                      "the module-level cache %s stores an instance of %s, whose methods rewrite its attributes on every call: callers that "
                      "overlap (a second thread while the first blocks in source.read(), a nested call) share one object, and one of them "
                      "returns the other's document" % (owner[1], shared_cls), {"cache": owner[1], "class": shared_cls})
                continue
            ok, why = _value_determined_by(f, val, knames)
            r.check("R12.2", ok, key, where,
                    "value stored in module-level cache %s depends on %s, which is not determined by the key %s: a later "
                    "call can observe an earlier call's data" % (owner[1], why, sorted(knames)),
                    {"cache": owner[1]}, detail={"cache": owner[1], "key_names": sorted(knames)})
    # module-level singletons
    for rel, m in repo.modules.items():
        for st in m.tree.body:
            if isinstance(st, ast.Assign) and isinstance(st.value, ast.Call) and isinstance(st.value.func, ast.Name):
                rr = repo.resolve_import(m, st.value.func.id)
                cls = None
                if rr and rr[0] is not None and rr[1]:
                    cls = rr[0].classes.get(rr[1])
                    if cls is None and rr[1] in rr[0].imports:
                        r2 = repo.resolve_import(rr[0], rr[1])
                        if r2 and r2[0] is not None and r2[1]:
                            cls = r2[0].classes.get(r2[1])
                else:
                    cls = m.classes.get(st.value.func.id)
                if cls is None:
                    continue
                name = st.targets[0].id if isinstance(st.targets[0], ast.Name) else norm(st.targets[0])
                writers = {}
                for c in cls.mro():
                    for mn, meth in c.methods.items():
                        if mn == "__init__":
                            continue
                        for n in walk_no_nested(meth.node):
                            if isinstance(n, (ast.Assign, ast.AugAssign)):
                                for t in (n.targets if isinstance(n, ast.Assign) else [n.target]):
                                    ch = attr_chain(t)
                                    if ch and ch[0] == "self" and len(ch) == 2:
                                        writers.setdefault(mn, set()).add(ch[1])
                # methods called on the singleton anywhere in the package, closed under self-calls
                called = set()
                for g in repo.all_functions():
                    for c in walk_no_nested(g.node):
                        if isinstance(c, ast.Call) and isinstance(c.func, ast.Attribute) and \
                                isinstance(c.func.value, ast.Name) and c.func.value.id == name and g.module is m:
                            called.add(c.func.attr)
                work = list(called)
                while work:
                    mn = work.pop()
                    meth = cls.find_method(mn)
                    if meth is None:
                        continue
                    for c in walk_no_nested(meth.node):
                        if isinstance(c, ast.Call) and isinstance(c.func, ast.Attribute) and \
                                isinstance(c.func.value, ast.Name) and c.func.value.id == "self" and c.func.attr not in called:
                            called.add(c.func.attr)
                            work.append(c.func.attr)
                        if isinstance(c, ast.Compare) and any(isinstance(o, (ast.In, ast.NotIn)) for o in c.ops):
                            called.add("__contains__")
                hit = sorted(set(writers) & called)
                key = "%s::singleton %s" % (rel, name)
                r.check("R12.2", not hit, key, "%s:%d" % (rel, st.lineno),
                        "module-level object %s (%s) is mutated by %s, which the package calls on it" % (name, cls.name, hit),
                        {"methods": hit}, detail={"singleton": name, "class": cls.name, "mutating_methods": sorted(writers),
                                                  "methods_called": sorted(called)})
    r.extra["module_level_containers"] = sorted("%s::%s" % k for k in containers)


def shared_cache_publication(ctx, rid="R12.6"):
    """A cache shared by all threads (a dict captured by a closure / at module level) is read without a lock:
    `return cache[a][b][c]`.  Whatever is stored under the full key path is therefore visible to another thread at once, so the
    only thing ever stored there may be the finished value -- not a placeholder that is overwritten a statement later.  And a
    guard `if <x> not in cache: cache[<x>] = {}` has to test the key it is about to create: testing a *string literal* that merely
    spells the variable's name is always true, so every miss re-creates (wipes) the level, and with it other threads' entries."""
    r = ctx.r
    r.rule(rid, "shared factory caches publish only finished values and guard each level with the key they create", floor=1)
    n = 0
    for f in ctx.repo.all_functions(include_unruled=False):
        lookups = [x for x in walk_no_nested(f.node) if isinstance(x, ast.Return) and isinstance(x.value, ast.Subscript)]
        if not lookups:
            continue
        paths = []
        for rt in lookups:
            keys, base = [], rt.value
            while isinstance(base, ast.Subscript):
                keys.append(norm(base.slice))
                base = base.value
            if isinstance(base, ast.Name) and len(keys) >= 2:
                paths.append((base.id, list(reversed(keys))))
        for cache, keys in paths:
            local_names = {a.arg for a in f.node.args.args} | {t.id for st in walk_no_nested(f.node) if isinstance(st, ast.Assign) for t in st.targets if isinstance(t, ast.Name)}
            if cache in local_names:
                continue
            n += 1
            full = "%s[%s]" % (cache, "][".join(keys))
            stores = [st for st in walk_no_nested(f.node) if isinstance(st, ast.Assign) and len(st.targets) == 1 and norm(st.targets[0]) == full]
            placeholders = [st for st in stores if isinstance(st.value, (ast.Dict, ast.List, ast.Set)) or norm(st.value) in ("dict()", "None")]
            key = "cache-publication::%s" % f.qual
            r.check(rid, not (placeholders and len(stores) > 1), key + "::placeholder", "%s:%d" % (f.module.rel, (placeholders or stores or [f.node])[0].lineno),
                    "%s stores a placeholder (`%s`) under the full key of the shared cache before the real value: a thread that looks the "
                    "entry up in between gets the placeholder as a cache hit (first use of getTreeBuilder / getTreeWalker from two "
                    "threads: AttributeError: 'dict' object has no attribute 'TreeBuilder')"
                    % (f.qual, norm(placeholders[0]) if placeholders else ""), detail={"stores": [norm(x) for x in stores]})
            literal_guards = []
            for t in walk_no_nested(f.node):
                if isinstance(t, ast.If) and isinstance(t.test, ast.Compare) and len(t.test.ops) == 1 and isinstance(t.test.ops[0], ast.NotIn) and \
                        isinstance(t.test.left, ast.Constant) and isinstance(t.test.left.value, str) and norm(t.test.comparators[0]).startswith(cache):
                    created = [norm(st.targets[0]) for st in t.body if isinstance(st, ast.Assign) and isinstance(st.targets[0], ast.Subscript)]
                    if created and not any(repr(t.test.left.value) in c for c in created):
                        literal_guards.append(norm(t.test))
            r.check(rid, not literal_guards, key + "::guards", f.where,
                    "%s guards the creation of a cache level with a string literal (%s) instead of the key it creates: the test is always "
                    "true, so every miss replaces the level by an empty dict and drops what other requests had cached"
                    % (f.qual, "; ".join(literal_guards)), detail={"guards": literal_guards})
    if n < 1:
        r.idiom(rid, False, "shared-cache-found", "_utils.py",
                "no shared multi-level cache lookup found (expected _utils.moduleFactoryFactory.moduleFactory): publication order not decided")


def lossy_cache_keys(ctx, rid):
    """A factory cache `cache[..][key] = factory(.., **kwargs)` must key on everything the cached value depends on.  A key
    component computed from a mapping / sequence parameter by a projection that drops information (its key names only, its
    length, ...) while the value is computed from the whole parameter makes two different requests share one entry
    (getTreeBuilder("etree", fullTree=True) and fullTree=False would return the same class)."""
    r = ctx.r
    n = 0
    for f in ctx.repo.all_functions(include_unruled=False):
        star = {a.arg for a in ([f.node.args.vararg] if f.node.args.vararg else []) + ([f.node.args.kwarg] if f.node.args.kwarg else [])}
        if not star:
            continue
        stores = [s for s in walk_no_nested(f.node) if isinstance(s, ast.Assign) and any(isinstance(t_, ast.Subscript) for t_ in s.targets)]
        if not stores:
            continue
        assigns = {s.targets[0].id: s.value for s in walk_no_nested(f.node) if isinstance(s, ast.Assign) and len(s.targets) == 1
                   and isinstance(s.targets[0], ast.Name)}
        for st in stores:
            keys, base = [], next(t_ for t_ in st.targets if isinstance(t_, ast.Subscript))
            resolved = True
            for _ in range(8):
                while isinstance(base, ast.Subscript):
                    keys.append(base.slice)
                    base = base.value
                # a local that holds one level of the cache: `level = cache.setdefault(k, {})` / `level = cache[k]`
                if isinstance(base, ast.Name) and base.id in assigns:
                    v = assigns[base.id]
                    if isinstance(v, ast.Call) and isinstance(v.func, ast.Attribute) and v.func.attr in ("setdefault", "get") and v.args:
                        keys.append(v.args[0])
                        base = v.func.value
                        continue
                    if isinstance(v, ast.Subscript):
                        base = v
                        continue
                    resolved = False
                elif isinstance(base, ast.Call) and isinstance(base.func, ast.Attribute) and base.func.attr in ("setdefault", "get") and base.args:
                    keys.append(base.args[0])
                    base = base.func.value
                    continue
                break
            key_exprs = [assigns.get(k.id, k) if isinstance(k, ast.Name) else k for k in keys]
            # a composite key `(a, b, f(c))` is the list of its components
            flat = []
            for e in key_exprs:
                flat.extend(e.elts if isinstance(e, ast.Tuple) else [e])
            key_exprs = [assigns.get(k.id, k) if isinstance(k, ast.Name) else k for k in flat]
            # does the stored value depend on a star parameter?
            def depends(expr, seen=()):
                for x in ast.walk(expr):
                    if isinstance(x, ast.Name):
                        if x.id in star:
                            return x.id
                        if x.id in assigns and x.id not in seen:
                            d = depends(assigns[x.id], seen + (x.id,))
                            if d:
                                return d
                return None
            # ... or is handed on to a call anywhere in the function (`mod.__dict__.update(factory(base, *args, **kwargs))`)
            key_nodes = {id(x) for e in keys for x in ast.walk(e)} | {id(x) for k_ in keys if isinstance(k_, ast.Name) and k_.id in assigns
                                                                      for x in ast.walk(assigns[k_.id])}
            passed_on = {x.id for c_ in walk_no_nested(f.node) if isinstance(c_, ast.Call) for x in ast.walk(c_)
                         if isinstance(x, ast.Name) and x.id in star and id(x) not in key_nodes}
            used = {p for p in star if any(isinstance(x, ast.Name) and x.id == p and id(x) not in key_nodes for a in assigns.values() for x in ast.walk(a))
                    or depends(st.value) == p or p in passed_on}
            for p in sorted(used):
                comps = [e for e in key_exprs if any(isinstance(x, ast.Name) and x.id == p for x in ast.walk(e))]
                if not comps:
                    # the stored value itself is built from the star parameter, the key does not mention it at all, and the
                    # container outlives the call (a module-level name, not a local): every request shares the first one's entry
                    if depends(st.value) == p and resolved and isinstance(base, ast.Name) and base.id not in assigns \
                            and base.id not in f.params() and base.id in {t_.id for a_ in f.module.tree.body if isinstance(a_, (ast.Assign, ast.AnnAssign))
                                            for t_ in (a_.targets if isinstance(a_, ast.Assign) else [a_.target]) if isinstance(t_, ast.Name)}:
                        n += 1
                        r.bad(rid, "cache-key::%s::%s" % (f.qual, p), "%s:%d" % (f.module.rel, st.lineno),
                              "%s stores a value built from `%s` in the module-level cache %s under the key %s, which does not contain "
                              "it: a later request with other keyword arguments (fullTree=True after a plain parse) gets the first "
                              "request's entry" % (f.qual, p, base.id, [norm(e) for e in keys]))
                    continue
                n += 1
                kwarg =f.node.args.kwarg is not None and f.node.args.kwarg.arg == p
                full = any(norm(e) == p or ("%s.items()" % p) in norm(e) for e in comps)
                lossy = [norm(e) for e in comps if norm(e) in ("tuple(sorted(%s))" % p, "tuple(%s)" % p, "tuple(%s.keys())" % p, "sorted(%s)" % p,
                                                               "frozenset(%s)" % p, "len(%s)" % p, "bool(%s)" % p, "tuple(sorted(%s.keys()))" % p)]
                key = "cache-key::%s::%s" % (f.qual, p)
                r.idiom(rid, full, key, "%s:%d" % (f.module.rel, st.lineno), "cache key component for %s not recognised: %s" % (p, [norm(e) for e in comps]),
                        wrong=[(kwarg and bool(lossy) and not full,
                                "%s caches its result under `%s`, which keeps only the names of the keyword arguments although the cached "
                                "value is built from their values: two requests that differ only in a keyword value (fullTree=True / "
                                "fullTree=False) share one cache entry" % (f.qual, lossy[0] if lossy else ""))],
                        detail={"function": f.qual, "parameter": p, "key_components": [norm(e) for e in comps]})
            # plain parameters the cached value is built from: the key must hold the parameter itself -- a projection of it
            # (its __name__, its type, its text) is shared by different objects
            plain = [q for q in f.params() if q not in star and q not in ("self", "cls")]
            for q in plain:
                if not any(isinstance(x, ast.Name) and x.id == q for x in ast.walk(st.value)) and depends_on(st.value, q, assigns) is None:
                    continue
                comps = [e for e in key_exprs if any(isinstance(x, ast.Name) and x.id == q for x in ast.walk(e))]
                n += 1
                full = any(norm(e) == q for e in comps)
                projected = bool(comps) and all(
                    all(not (isinstance(x, ast.Name) and x.id == q) or _under_projection(e, x) for x in ast.walk(e)) for e in comps)
                key = "cache-key::%s::%s" % (f.qual, q)
                r.idiom(rid, full, key, "%s:%d" % (f.module.rel, st.lineno),
                        "cache key component for %s not recognised: %s" % (q, [norm(e) for e in comps]),
                        wrong=[(projected, "%s caches a value built from `%s` under a key that holds only a projection of it (%s): two different "
                                           "objects with the same projection -- a second copy of xml.etree.ElementTree loaded beside the first, a test "
                                           "double with the same __name__ -- share one entry, so what a call returns depends on which of them an "
                                           "earlier call used" % (f.qual, q, [norm(e)[:50] for e in comps][:2])),
                               (not comps and resolved and isinstance(base, ast.Name),
                                "%s caches a value built from `%s` under a key that does not contain it" % (f.qual, q))],
                        detail={"function": f.qual, "parameter": q, "key_components": [norm(e) for e in comps]})
    if n < 1:
        raise AnalysisError("%s: no factory cache keyed on a star parameter found" % rid)


def depends_on(expr, name, assigns, seen=()):
    for x in ast.walk(expr):
        if isinstance(x, ast.Name):
            if x.id == name:
                return name
            if x.id in assigns and x.id not in seen:
                d = depends_on(assigns[x.id], name, assigns, seen + (x.id,))
                if d:
                    return d
    return None


def _under_projection(expr, name_node) -> bool:
    """the occurrence `name_node` inside expr is read only through an attribute / type() / str() / repr() / id() projection"""
    for x in ast.walk(expr):
        if isinstance(x, ast.Attribute) and x.value is name_node:
            return True
        if isinstance(x, ast.Call) and isinstance(x.func, ast.Name) and x.func.id in ("type", "str", "repr", "id", "len") and name_node in x.args:
            return True
    return False


def _value_determined_by(f, val, key_names):
    """every free local name of `val` is derived (def-use closure) from key names, parameters the key names are
    themselves derived from, constants, globals"""
    assigns = {}
    loops = {}
    for n in ast.walk(f.node):
        if isinstance(n, ast.Assign):
            for t in n.targets:
                for x in ast.walk(t):
                    if isinstance(x, ast.Name) and isinstance(x.ctx, ast.Store):
                        assigns.setdefault(x.id, []).append(n.value)
        elif isinstance(n, ast.For):
            for x in ast.walk(n.target):
                if isinstance(x, ast.Name):
                    assigns.setdefault(x.id, []).append(n.iter)
    local = set(assigns) | set(f.params())
    # roots: key names and whatever the key names are computed from
    roots = set(key_names)
    changed = True
    while changed:
        changed = False
        for k in list(roots):
            for v in assigns.get(k, []):
                for x in ast.walk(v):
                    if isinstance(x, ast.Name) and x.id in local and x.id not in roots:
                        roots.add(x.id)
                        changed = True
    # `name = base.__name__`-style keys make the source parameter key-equivalent (memo keyed by identity of the source)
    derived = set(roots)
    changed = True
    while changed:
        changed = False
        for nm, vals in assigns.items():
            if nm in derived:
                continue
            if all(all((not isinstance(x, ast.Name)) or x.id in derived or x.id not in local or x.id == nm for x in ast.walk(v))
                   for v in vals):
                derived.add(nm)
                changed = True
    free = [x.id for x in ast.walk(val) if isinstance(x, ast.Name) and x.id in local and x.id not in derived]
    return (not free), free


# ---------------------------------------------------------------------------- R12.3
def per_call_state(ctx):
    r = ctx.r
    repo = ctx.repo
    # serializer
    f = repo.func("serializer.py", "HTMLSerializer.serialize")
    cfg = CFG(f.node)
    loop = [n for n in cfg.nodes if n.kind == "loopiter"]
    if not loop:
        raise AnalysisError("HTMLSerializer.serialize has no token loop")
    for attr in ("errors", "encoding"):
        def is_init(n, attr=attr):
            return n.kind == "stmt" and isinstance(n.ast, ast.Assign) and any(
                attr_chain(t) == ["self", attr] for t in n.ast.targets)
        bad = cfg.must_precede(loop, is_init)
        r.check("R12.3", not bad, "serialize::self.%s" % attr, f.where,
                "HTMLSerializer.serialize does not re-initialise self.%s before the token loop: a second call sees the first "
                "call's value" % attr, detail={"attr": attr})
    # serialize() is a generator: what it stores on self before the first yield is read again after every resumption.  A second
    # serialize() on the same object that starts in between (interleaved consumption, two threads sharing a serializer)
    # replaces it under the first one's feet.
    cls = repo.cls("serializer.py", "HTMLSerializer")
    is_gen = any(isinstance(x, (ast.Yield, ast.YieldFrom)) for x in walk_no_nested(f.node))
    called = {c.func.attr for c in walk_no_nested(f.node) if isinstance(c, ast.Call) and isinstance(c.func, ast.Attribute) and norm(c.func.value) == "self"}
    for attr in ("errors", "encoding"):
        stored = any(isinstance(n, ast.Assign) and any(attr_chain(t) == ["self", attr] for t in n.targets) for n in walk_no_nested(f.node))
        readers = sorted(mn for mn in called if mn in cls.methods and any(
            isinstance(x, ast.Attribute) and attr_chain(x) == ["self", attr] and isinstance(x.ctx, ast.Load) for x in ast.walk(cls.methods[mn].node)))
        r.check("R12.3", not (is_gen and stored and readers), "serialize::suspended-state::self.%s" % attr, f.where,
                "HTMLSerializer.serialize is a generator that keeps its per-call %s on the object (`self.%s`), where %s read it after every "
                "resumption: a second serialize() on the same serializer that starts before the first is exhausted switches it mid-stream" % (
                    attr, attr, ", ".join(readers)), {"attribute": attr, "readers": readers}, detail={"attribute": attr, "readers": readers})
    # other stores to self in the serializer outside __init__
    for mn, m in cls.methods.items():
        if mn in ("__init__",):
            continue
        for n in walk_no_nested(m.node):
            if isinstance(n, (ast.Assign, ast.AugAssign)):
                for t in (n.targets if isinstance(n, ast.Assign) else [n.target]):
                    ch = attr_chain(t)
                    if ch and ch[0] == "self" and len(ch) == 2:
                        ok = mn == "serialize" and ch[1] in ("errors", "encoding")
                        r.check("R12.3", ok, "serializer::%s.%s" % (mn, ch[1]), "%s:%d" % (m.module.rel, n.lineno),
                                "HTMLSerializer.%s stores self.%s, which is not re-initialised per call" % (mn, ch[1]))
    # filters / walkers / adapters: no store to self outside __init__
    for rel in ("filters/alphabeticalattributes.py", "filters/base.py", "filters/inject_meta_charset.py", "filters/lint.py",
                "filters/optionaltags.py", "filters/sanitizer.py", "filters/whitespace.py", "treewalkers/base.py",
                "treewalkers/etree.py", "treewalkers/dom.py", "treeadapters/sax.py"):
        m = repo.module(rel)
        stores = []
        for fn in m.all_functions:
            if fn.name == "__init__":
                continue
            for n in walk_no_nested(fn.node):
                if isinstance(n, (ast.Assign, ast.AugAssign)):
                    for t in (n.targets if isinstance(n, ast.Assign) else [n.target]):
                        base = t
                        while isinstance(base, (ast.Subscript, ast.Attribute)) and not (
                                isinstance(base, ast.Attribute) and isinstance(base.value, ast.Name)):
                            base = base.value
                        ch = attr_chain(base) if isinstance(base, ast.Attribute) else None
                        if ch and ch[0] == "self":
                            stores.append("%s: %s" % (fn.qual, norm(n)[:50]))
                elif isinstance(n, ast.Call) and isinstance(n.func, ast.Attribute) and n.func.attr in MUTATORS:
                    ch = attr_chain(n.func.value)
                    if ch and ch[0] == "self" and len(ch) >= 2:
                        stores.append("%s: %s" % (fn.qual, norm(n)[:50]))
        r.check("R12.3", not stores, "per-call-state::%s" % rel, rel,
                "%s keeps per-call state on the object: %s" % (rel, stores[:3]), {"stores": stores},
                detail={"module": rel, "stores_to_self_outside_init": 0})


MUTATORS = {"append", "appendleft", "extend", "extendleft", "insert", "pop", "popleft", "remove", "clear", "add", "discard", "update",
            "setdefault", "popitem", "sort", "reverse"}
CONTAINER_CALLS = {"list", "dict", "set", "deque", "OrderedDict", "defaultdict", "collections.deque", "collections.OrderedDict",
                   "collections.defaultdict", "bytearray"}


POSITIVE_R12_4 = """
from collections import deque
class T(object):
    queue = deque([])
    table = {"a": 1}
    def __init__(self):
        self.x = 0
    def step(self):
        self.queue.append(1)
        return self.table["a"]
class U(object):
    queue = []
    def __init__(self):
        self.queue = []
    def step(self):
        self.queue.append(1)
"""


def _scan_containers(mod):
    """-> [(cls, attr, mutations, rebinds)] for every class-level mutable container of the module"""
    out = []
    for cls in mod.all_classes:
        for attr, val in cls.assigns.items():
            mutable = isinstance(val, (ast.List, ast.Dict, ast.Set, ast.ListComp, ast.DictComp, ast.SetComp)) or \
                (isinstance(val, ast.Call) and norm(val.func) in CONTAINER_CALLS)
            if not mutable:
                continue
            muts = []
            for c2 in mod.all_classes:
                if not c2.is_subclass_of(cls):
                    continue
                for m in c2.methods.values():
                    recv = m.params()[0] if m.params() else None
                    if recv is None:
                        continue
                    for x in walk_no_nested(m.node):
                        if isinstance(x, ast.Call) and isinstance(x.func, ast.Attribute) and x.func.attr in MUTATORS and \
                                attr_chain(x.func.value) == [recv, attr]:
                            muts.append((m, x.lineno, x.func.attr))
                        elif isinstance(x, (ast.Assign, ast.AugAssign, ast.Delete)):
                            tg = x.targets if isinstance(x, (ast.Assign, ast.Delete)) else [x.target]
                            for t in tg:
                                if isinstance(t, ast.Subscript) and attr_chain(t.value) == [recv, attr]:
                                    muts.append((m, x.lineno, "item store"))
            rebinds = False
            for c2 in cls.mro():
                init = c2.methods.get("__init__")
                if init is not None and init.params():
                    rv = init.params()[0]
                    if any(isinstance(x, ast.Assign) and any(attr_chain(t) == [rv, attr] for t in x.targets) for x in walk_no_nested(init.node)):
                        rebinds = True
            out.append((cls, attr, muts, rebinds))
    return out


def class_level_containers(ctx):
    """R12.4: a mutable container created in a class body is one object shared by all instances (and all parses).  If methods
    mutate it in place through self, every instance must first rebind the attribute to a fresh container in __init__;
    otherwise content from one parse shows up in the next / in a concurrent one.  (Today's tree has no such container at
    all; every class is scanned and a built-in positive example keeps the rule alive.)"""
    from ..repo import ModuleInfo
    r = ctx.r
    r.rule("R12.4", "no class-level mutable container is mutated in place through self without a per-instance rebind in __init__", floor=60)
    for rel, mod in sorted(ctx.repo.modules.items()):
        if rel.startswith("tests/"):
            continue
        found = {(c.qual, a): (c, a, m, rb) for c, a, m, rb in _scan_containers(mod)}
        for cls in mod.all_classes:
            mine = [v for (q, a), v in found.items() if q == cls.qual]
            if not mine:
                r.ok("R12.4", "class-container::%s::%s" % (rel, cls.qual), cls.where)
            for c, attr, muts, rebinds in mine:
                key = "class-container::%s::%s.%s" % (rel, cls.qual, attr)
                r.check("R12.4", not muts or rebinds, key, cls.where,
                        "%s.%s is a mutable container created once in the class body and mutated in place through self (%s at line %s) "
                        "without a per-instance rebind in __init__: all instances share it, so tokens / entries left by one parse (for "
                        "example after a strict-mode abort) are seen by the next" % (
                            cls.qual, attr, muts[0][2] if muts else "", muts[0][1] if muts else ""),
                        {"class": cls.qual, "attr": attr}, detail={"class": cls.qual, "attr": attr, "mutated_in_place": bool(muts), "rebinds": rebinds})
    pos = ModuleInfo("positive_r12_4.py", "<positive example>", source=POSITIVE_R12_4)
    res = {(c.name, a): (bool(m), rb) for c, a, m, rb in _scan_containers(pos)}
    r.positive("R12.4", res.get(("T", "queue")) == (True, False) and res.get(("T", "table")) == (False, False) and res.get(("U", "queue")) == (True, True))


def thorough(ctx):
    from .. import selftest
    selftest.run(ctx, sys.modules[__name__])


def mutants():
    from ..selftest import TextMutant as T
    return [
        T("default-etree-builder-cached-by-type", "treebuilders/__init__.py",
          "            # NEVER cache here, caching is done in the etree submodule\n            return etree.getETreeModule(implementation, **kwargs).TreeBuilder\n",
          "            treeBuilderCache[treeType] = etree.getETreeModule(implementation, **kwargs).TreeBuilder\n", "R12.5"),
        T("module-cache-placeholder", "_utils.py", "            moduleCache[baseModule][args][kwargs_tuple] = mod\n", "            moduleCache[baseModule][args][kwargs_tuple] = {}\n            moduleCache[baseModule][args][kwargs_tuple] = mod\n", "R12.6"),
        T("scripting-sticky", "html5parser.py", "        self.scripting = scripting\n", "        if scripting:\n            self.scripting = scripting\n", "R12.7"),
        T("errors-accumulate", "html5parser.py", "        self.firstStartTag = False\n        self.errors = []\n", "        self.firstStartTag = False\n        self.errors = self.errors[:0] if hasattr(self, \"errors\") else []\n", "R12.7"),
        T("module-cache-keyed-by-name", "_utils.py", "            return moduleCache[baseModule][args][kwargs_tuple]\n        except KeyError:\n            mod = ModuleType(name)\n            objs = factory(baseModule, *args, **kwargs)\n            mod.__dict__.update(objs)\n            if baseModule not in moduleCache:\n                moduleCache[baseModule] = {}\n            if args not in moduleCache[baseModule]:\n                moduleCache[baseModule][args] = {}\n            moduleCache[baseModule][args][kwargs_tuple] = mod",
          "            return moduleCache[name][args][kwargs_tuple]\n        except KeyError:\n            mod = ModuleType(name)\n            objs = factory(baseModule, *args, **kwargs)\n            mod.__dict__.update(objs)\n            if name not in moduleCache:\n                moduleCache[name] = {}\n            if args not in moduleCache[name]:\n                moduleCache[name][args] = {}\n            moduleCache[name][args][kwargs_tuple] = mod", "R12.5"),
        T("module-cache-literal-guard", "_utils.py", "            if baseModule not in moduleCache:", "            if \"baseModule\" not in moduleCache:", "R12.6"),
        T("dropnewline-unchecked", "html5parser.py", "            self.tree.openElements[-1].name in (\"pre\", \"listing\", \"textarea\") and\n", "", "R12.1"),
        T("tokenqueue-class-level", "_tokenizer.py", "    def __init__(self, stream, parser=None, **kwargs):\n", "    tokenQueue = deque([])\n\n    def __init__(self, stream, parser=None, **kwargs):\n", "R12.4"),
        T("drop-reset-frameset", "html5parser.py", "        self.beforeRCDataPhase = None\n\n        self.framesetOK = True\n",
          "        self.beforeRCDataPhase = None\n", "R12.1"),
        T("conditional-reset", "html5parser.py", "        self.firstStartTag = False\n        self.errors = []\n",
          "        self.firstStartTag = False\n        if not self.innerHTMLMode:\n            self.errors = []\n", "R12.1"),
        T("drop-tree-reset-form", "treebuilders/base.py", "        self.headPointer = None\n        self.formPointer = None\n",
          "        self.headPointer = None\n", "R12.1"),
        T("new-parser-attr", "html5parser.py", "    def startTagHead(self, token):\n        self.parser.parseError(\"two-heads-are-not-better-than-one\")",
          "    def startTagHead(self, token):\n        self.parser.sawSecondHead = True\n        self.parser.parseError(\"two-heads-are-not-better-than-one\")", "R12.1"),
        T("pending-text-leak", "html5parser.py",
          "        self.parser.phase.originalPhase = originalPhase\n        self.parser.phase.characterTokens = []\n        self.parser.phase.processCharacters(token)",
          "        self.parser.phase.originalPhase = originalPhase\n        self.parser.phase.processCharacters(token)", "R12.1"),
        T("module-cache-leak", "_inputstream.py", "            chars = charsUntilRegEx[(characters, opposite)] = re.compile(\"[%s]+\" % regex)",
          "            chars = charsUntilRegEx[(characters, opposite)] = re.compile(\"[%s]+\" % (regex + self.chunk[:0]))", "R12.2"),
        T("global-list", "html5parser.py", "def impliedTagToken(name, type=\"EndTag\", attributes=None,\n                    selfClosing=False):\n    if attributes is None:\n        attributes = {}\n",
          "_seen = []\n\n\ndef impliedTagToken(name, type=\"EndTag\", attributes=None,\n                    selfClosing=False):\n    _seen.append(name)\n    if attributes is None:\n        attributes = {}\n", "R12.2"),
        T("serializer-errors-kept", "serializer.py", "        after_pre = False\n        self.errors = []\n", "        after_pre = False\n", "R12.3"),
        T("serializer-after-pre-on-self", "serializer.py", "            first_in_pre = after_pre\n            after_pre = False\n", "            first_in_pre = getattr(self, 'after_pre', False)\n            self.after_pre = after_pre\n            after_pre = False\n", "R12.3"),
        T("filter-state-on-self", "filters/whitespace.py", "        preserve = 0\n        after_space = False",
          "        preserve = 0\n        self.depth = getattr(self, 'depth', 0) + 1\n        after_space = False", "R12.3"),
        T("trie-cache-on-path", "_trie/py.py", "        if prefix in self._data:\n            return True\n",
          "        if prefix in self._data:\n            return True\n        self.keys(prefix)\n", "R12.2"),
    ]


def preserving():
    from ..selftest import TextMutant as T
    return [
        T("reorder-reset", "html5parser.py", "        self.firstStartTag = False\n        self.errors = []\n",
          "        self.errors = []\n        self.firstStartTag = False\n", None),
        T("reset-via-tuple", "treebuilders/base.py", "        self.headPointer = None\n        self.formPointer = None\n",
          "        self.headPointer = self.formPointer = None\n", None),
    ]
