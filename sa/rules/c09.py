"""C09 -- sanitizer output contains only allow-listed markup, URLs and CSS (the gates, structurally).

R9.1 ELEMENT gate    every yielded token went through sanitize_token; tag tokens leave through allowed_token (under the
                     membership test) or disallowed_token (which turns them into Characters); comments yield nothing
R9.2 ATTRIBUTE gate  the purge of non-allow-listed attributes runs first and unconditionally; afterwards keys only shrink
R9.3 URI gate        over all outcomes of the six predicates, an attribute survives only if it has no scheme or an allowed
                     scheme (and, for data:, a matched and allowed content type); controls/space are stripped first
R9.4 CONFIGURED      methods consult self.<list>, never the module-level default of the same name
R9.5 CSS             every kept declaration is under one of the three allow-list tests; the url() stripper runs first
"""
from __future__ import annotations

import ast
import itertools
import sys

from ..consteval import NotConstant
from ..repo import AnalysisError, attr_chain, norm, walk_no_nested
from ..cfg import CFG, node_calls
from ..partition import MiniInterp, Opaque, FRESH

LEVEL = "other"
TECHNIQUE = ('stream-filter effect analysis by branch partition over token types and over the URI predicates (exhaustive enumeration of predicate outcomes, helpers interpreted, no solver); CFG dominance of allow-list tests over every keeping statement; stripping patterns evaluated on representatives; total-lookup lint on constant tables; source evaluation of the URI gate (concretised predicates), of the SVG url() loop and of the CSS declaration loop on representatives')
CLAIM = ("The sanitizer's gates are placed so that, on every path, a tag token leaves only as an allow-listed "
         'tag or as inert text, non-allow-listed attributes are removed before anything else and never re- '
         'added, a URI attribute survives only under the allowed-scheme / allowed-content-type predicates '
         'evaluated on the control-stripped, lower-cased value, configured (not default) lists are the ones '
         'consulted, and every kept CSS declaration passed an allow-list test after url() stripping. Holds for '
         'custom lists as well because the lists are symbolic. The stripped class covers white space and all '
         'control characters (general category Cc); every stripping substitution is global.'
         ' The URI gate deletes a rejected attribute once in every case; non-local url() references in SVG presentation attributes are stripped whatever their case or length; constant tables are not indexed with token-derived keys; CSS shorthand families come from a list written into the function (known finding). The declaration loop of sanitize_css, the URI gate and the SVG url() loop are run on representatives under small configured lists: a shorthand declaration is kept only when every keyword is allowed, a colour or a length; unclosed and escaped url( references go.')
NOT_DECIDED = ("whether the URL normalisation matches what browsers do; regular-language claims about the CSS gauntlet "
               "('never url()' holds only up to the stripper's pattern); the contents of the allow-lists themselves.")
MODULES = ["filters/sanitizer.py", "filters/base.py", "constants.py"]
REL = "filters/sanitizer.py"
LISTS = ["allowed_elements", "allowed_attributes", "allowed_css_properties", "allowed_css_keywords", "allowed_svg_properties",
         "allowed_protocols", "allowed_content_types", "attr_val_is_uri", "svg_attr_val_allows_ref", "svg_allow_local_href"]
TOKEN_TYPES = ["Doctype", "Characters", "SpaceCharacters", "StartTag", "EndTag", "EmptyTag", "Comment", "Entity",
               "SerializeError", FRESH]


def declare(ctx):
    r = ctx.r
    if "R9.1" in r.rules:
        return
    r.rule("R9.1", "element gate: every token is sanitized; tags leave as allow-listed tags or as Characters; comments dropped", floor=40)


def element_gate(ctx):
    r = ctx.r
    ce, repo = ctx.ce, ctx.repo
    it = repo.func(REL, "Filter.__iter__")
    body = [s for s in it.node.body if not (isinstance(s, ast.Expr) and isinstance(s.value, ast.Constant))]
    ok = False
    if len(body) == 1 and isinstance(body[0], ast.For) and isinstance(body[0].target, ast.Name):
        t = body[0].target.id
        lb = body[0].body
        ok = (len(lb) == 2 and norm(lb[0]) == "%s = self.sanitize_token(%s)" % (t, t) and isinstance(lb[1], ast.If)
              and norm(lb[1].test) == t and [norm(s) for s in lb[1].body] == ["yield %s" % t] and not lb[1].orelse
              and norm(body[0].iter) == "base.Filter.__iter__(self)")
    ys = [n for n in walk_no_nested(it.node) if isinstance(n, (ast.Yield, ast.YieldFrom))]
    r.check("R9.1", ok and len(ys) == 1, "iter-yields-sanitized", it.where,
            "Filter.__iter__ yields something that did not come out of sanitize_token, or tokens out of order")
    st = repo.func(REL, "Filter.sanitize_token")
    calls = {}

    def expr_hook(node, env):
        if isinstance(node, ast.Call) and isinstance(node.func, ast.Attribute) and attr_chain(node.func.value) == ["self"]:
            if node.func.attr in ("allowed_token", "disallowed_token") and len(node.args) == 1 and norm(node.args[0]) == st.params()[1]:
                return ("CALL", node.func.attr)
            raise AnalysisError("sanitize_token: unexpected call %s" % norm(node))
        return NotImplemented

    def guard_hook(node, env, interp):
        t = norm(node)
        if isinstance(node, ast.Compare) and isinstance(node.ops[0], ast.In) and "allowed_elements" in norm(node.comparators[0]):
            left = norm(node.left)
            if left == "(namespace, name)":
                return env["__own"]            # the element, in its own namespace, is on the list
            if left == "(namespaces['html'], name)":
                return env["__html"]           # an HTML element of that name is on the list
            # a local alias of one of the two keys: decided by its value
            try:
                lv = interp.eval_expr(node.left, env)
            except Exception:       # noqa: BLE001
                lv = None
            tokv = env.get(st.params()[1]) or {}
            if isinstance(lv, tuple) and len(lv) == 2 and lv[1] == tokv.get("name"):
                if lv[0] == tokv.get("namespace"):
                    return env["__own"]
                if lv[0] == "http://www.w3.org/1999/xhtml":
                    return env["__html"]
            raise AnalysisError("sanitize_token: membership test of unexpected shape `%s`" % t)
        return NotImplemented
    interp = MiniInterp(ce, st.module, guard_hook=guard_hook, expr_hook=expr_hook)
    for ty in TOKEN_TYPES:
        for own, html_listed in ((True, True), (True, False), (False, True), (False, False)):
            for ns in (None, "http://www.w3.org/1999/xhtml", "http://www.w3.org/2000/svg"):
                if ns is not None and ns.endswith("xhtml") and own != html_listed:
                    continue        # for an HTML-namespaced token the two tests are the same test
                tok = {"type": ty, "name": "x", "namespace": ns, "data": {}}
                res = interp.run(st.node.body, {st.params()[1]: tok, "self": Opaque("self"), "__own": own, "__html": html_listed})
                val = res.value if res.returned else None
                # an un-namespaced token (namespace None) is an HTML element; otherwise only its own namespace counts
                allowed = own or (ns is None and html_listed)
                key = "sanitize_token[type=%s,listed=%s,html-listed=%s,ns=%s]" % (ty, own, html_listed, "None" if ns is None else ns.rsplit("/", 1)[-1])
                if ty in ("StartTag", "EndTag", "EmptyTag"):
                    exp = ("CALL", "allowed_token") if allowed else ("CALL", "disallowed_token")
                    r.check("R9.1", val == exp, key, st.where,
                            "a %s token whose element is %s leaves sanitize_token as %r" % (ty, "allowed" if allowed else "NOT allowed", val))
                elif ty == "Comment":
                    r.check("R9.1", val is None, key, st.where, "a Comment token is passed through")
                else:
                    r.check("R9.1", val is tok or val == tok, key, st.where, "a %s token is altered or dropped" % ty)
    # the membership test covers (namespace, name) and the None-namespace HTML fallback only
    tests = [n for n in ast.walk(st.node) if isinstance(n, ast.Compare) and "allowed_elements" in norm(n)]
    texts = sorted(norm(t) for t in tests)
    r.idiom("R9.1", texts == ["(namespace, name) in self.allowed_elements", "(namespaces['html'], name) in self.allowed_elements"],
            "membership-shape", st.where, "the element membership test changed shape: %s" % texts,
            wrong=[(any(isinstance(t.comparators[0], ast.Name) for t in tests),
                    "sanitize_token looks an element up in the module-level default `allowed_elements` instead of the filter's own list: "
                    "with a custom (narrower) element list -- and un-namespaced tokens, for the HTML fallback -- elements of the default "
                    "list get through as real tags")])
    # disallowed_token: type := Characters and name deleted on every path
    dt = repo.func(REL, "Filter.disallowed_token")
    cfg = CFG(dt.node)
    rets = [n for n in cfg.stmt_nodes() if n.kind == "stmt" and isinstance(n.ast, ast.Return)]
    p = dt.params()[1]
    set_type = lambda n: n.kind == "stmt" and isinstance(n.ast, ast.Assign) and norm(n.ast.targets[0]) == "%s['type']" % p \
        and norm(n.ast.value) == "'Characters'"  # noqa: E731
    del_name = lambda n: n.kind == "stmt" and isinstance(n.ast, ast.Delete) and norm(n.ast.targets[0]) == "%s['name']" % p  # noqa: E731
    b1, b2 = cfg.must_precede(rets, set_type), cfg.must_precede(rets, del_name)
    ret_ok = all(norm(x.ast.value) == p for x in rets) and bool(rets)
    r.check("R9.1", not b1 and not b2 and ret_ok, "disallowed->Characters", dt.where,
            "disallowed_token can return a token that is still a tag (type not set to Characters / name kept) on some path",
            detail={"paths_checked": len(rets)})
    # its data is a string built from the tag (so the serializer's text escaping applies)
    stores = [n for n in ast.walk(dt.node) if isinstance(n, ast.Assign) and norm(n.targets[0]) == "%s['data']" % p]
    r.check("R9.1", len(stores) >= 3 and all(isinstance(s.value, ast.BinOp) for s in stores), "disallowed-data-is-text", dt.where,
            "disallowed_token does not replace the token data by the tag's source text on every path")


def run(ctx):
    r = ctx.r
    ce, repo = ctx.ce, ctx.repo
    r.explanation = (
        "filters/sanitizer.py is analysed as a stream filter: effect of sanitize_token per token type and allow-list outcome "
        "(branch partition), CFG dominance in allowed_token / disallowed_token / sanitize_css, and exhaustive enumeration of "
        "the URI predicates' outcomes. The allow-lists stay symbolic, so the result covers custom lists.")
    r.not_decided = NOT_DECIDED
    declare(ctx)
    r.rule("R9.2", "attribute gate: purge first and unconditionally; later stores only under a membership test of the same key", floor=4)
    r.rule("R9.3", "URI gate: an attribute survives only with no scheme or an allowed scheme (data: matched + allowed type)", floor=24)
    r.rule("R9.8", "the URI gate deletes a rejected attribute exactly once in every case (custom protocol lists included)", floor=8)
    r.rule("R9.4", "methods consult self.<list>, never the module-level default", floor=10)
    r.rule("R9.5", "CSS: each kept declaration is dominated by an allow-list test; url() stripped before the gauntlet", floor=4)
    element_gate(ctx)
    total_table_lookups(ctx)
    svg_reference_and_css_families(ctx)
    global_substitutions(ctx)
    animation_values(ctx)

    at = repo.func(REL, "Filter.allowed_token")
    cfg = CFG(at.node)
    p = at.params()[1]
    # ---- R9.2
    loops = [n for n in cfg.nodes if n.kind == "loopiter"]
    purge = [n for n in loops if norm(n.ast.iter) in ("attr_names - self.allowed_attributes",)]
    if len(purge) != 1:
        raise AnalysisError("allowed_token: purge loop over attr_names - self.allowed_attributes not found")
    pl = purge[0]
    dels = [norm(s) for s in pl.ast.body]
    r.check("R9.2", "del %s['data'][%s]" % (p, norm(pl.ast.target)) in dels, "purge-deletes", "%s:%d" % (REL, pl.lineno),
            "the purge loop no longer deletes the attribute: %s" % dels)
    # attr_names is the key set of the token's attributes
    src = " ".join(norm(at.node).split())
    r.idiom("R9.2", "attrs = %s['data'] attr_names = set(attrs.keys())" % p in src, "purge-domain", at.where,
            "the purge does not range over all attribute keys of the token")
    # first loop / first mutation of attrs; only guarded by `"data" in token`
    def only_data_guard(n, lab):
        return False
    others = [n for n in cfg.stmt_nodes() if n is not pl and n.lineno < pl.lineno and n.kind in ("stmt", "loopiter")
              and any(isinstance(x, (ast.Delete,)) or (isinstance(x, ast.Assign) and isinstance(x.targets[0], ast.Subscript))
                      for x in [n.ast])]
    tests_before = [n for n in cfg.nodes if n.kind == "test" and cfg.dominated_by(pl, lambda m, lab, n=n: m is n)]
    r.check("R9.2", not others and [norm(t.ast) for t in tests_before] == ["'data' in %s" % p], "purge-first-unconditional",
            "%s:%d" % (REL, pl.lineno), "the purge is conditional (%s) or something modifies attributes before it (%s)" % (
                [norm(t.ast) for t in tests_before], [n.text[:40] for n in others]))
    # later stores into attrs: dominated by a membership test of the same key
    n_st = 0
    for n in cfg.stmt_nodes():
        if n.kind == "stmt" and isinstance(n.ast, ast.Assign) and isinstance(n.ast.targets[0], ast.Subscript) and \
                norm(n.ast.targets[0].value) == "attrs":
            k = norm(n.ast.targets[0].slice)
            n_st += 1
            def member(m, lab, k=k):
                return m.kind == "test" and ((lab is True and norm(m.ast) == "%s in attrs" % k) or
                                             (lab is False and norm(m.ast) in ("%s not in attrs" % k, "not %s in attrs" % k)))
            r.check("R9.2", cfg.dominated_by(n, member), "store-under-membership[%s]" % k, "%s:%d" % (REL, n.lineno),
                    "attrs[%s] is assigned without a dominating test that the key is (still) present: a purged attribute can "
                    "be re-created" % k)
    final = [n for n in cfg.stmt_nodes() if n.kind == "stmt" and isinstance(n.ast, ast.Assign) and norm(n.ast.targets[0]) == "%s['data']" % p]
    r.check("R9.2", all(norm(n.ast.value) == "attrs" for n in final), "final-store", at.where,
            "token['data'] is replaced by something other than the purged mapping")

    uri_gate(ctx, at, cfg)
    configured(ctx)
    css(ctx)


def uri_gate(ctx, at, cfg):
    r = ctx.r
    ce = ctx.ce
    loops = [n for n in cfg.nodes if n.kind == "loopiter" and norm(n.ast.iter) == "attr_names & self.attr_val_is_uri"]
    if len(loops) != 1:
        raise AnalysisError("allowed_token: URI loop not found")
    loop = loops[0].ast
    attr = norm(loop.target)
    # normalisation of the tested value
    norm_assign = [s for s in loop.body if isinstance(s, ast.Assign) and norm(s.targets[0]) == "val_unescaped"]
    ok_norm = False
    norm_wrong = None
    compiled = {}
    for st in at.module.tree.body:
        if isinstance(st, ast.Assign) and isinstance(st.value, ast.Call) and norm(st.value.func) == "re.compile" and st.value.args:
            compiled[norm(st.targets[0])] = st.value.args[0]
    if norm_assign:
        v = norm_assign[0].value
        sub = None
        if isinstance(v, ast.Call) and isinstance(v.func, ast.Attribute) and v.func.attr == "lower" and isinstance(v.func.value, ast.Call):
            inner = v.func.value
            if norm(inner.func) == "re.sub":
                sub = inner
            elif isinstance(inner.func, ast.Attribute) and inner.func.attr == "sub" and norm(inner.func.value) in compiled:
                # precompiled pattern: <name>.sub(repl, string)
                sub = ast.Call(func=inner.func, args=[compiled[norm(inner.func.value)]] + list(inner.args), keywords=[])
        elif isinstance(v, ast.Call) and (norm(v.func) == "re.sub" or (isinstance(v.func, ast.Attribute) and v.func.attr == "sub")):
            norm_wrong = "the value whose scheme is tested is no longer lower-cased: `JaVaScRiPt:` passes the allow-list test"
        if sub is not None:
            pat = ce.try_eval(sub.args[0], at.module)
            import re._parser as sp
            if isinstance(pat, str):
                parsed = sp.parse(pat)
                chars = set()
                if len(parsed) == 1 and parsed[0][0] == sp.MAX_REPEAT and parsed[0][1][2][0][0] == sp.IN:
                    for op, arg in parsed[0][1][2][0][1]:
                        if op == sp.LITERAL:
                            chars.add(arg)
                        elif op == sp.RANGE:
                            chars |= set(range(arg[0], arg[1] + 1))
                        elif op == sp.CATEGORY and arg == sp.CATEGORY_SPACE:
                            chars |= {c for c in range(0x100) if chr(c).isspace()}
                # white space and the control characters (general category Cc: C0, DEL, C1) are ignored when the scheme is read
                required = set(range(0, 0x21)) | set(range(0x7f, 0xa0))
                no_count = len(sub.args) == 3 and not [k for k in sub.keywords if k.arg == "count"]
                ok_norm = required <= chars and norm(sub.args[1]) == "''" and \
                    norm(sub.args[2]) == "unescape(attrs[%s])" % attr and no_count
                if chars and not required <= chars:
                    norm_wrong = "control characters / white space %s are no longer stripped before the scheme is tested" % sorted(
                        "U+%04X" % c for c in required - chars)[:6]
                elif not no_count:
                    norm_wrong = "only a limited number of control-character runs is stripped before the scheme is tested (count argument)"
                elif norm(sub.args[2]) == "attrs[%s]" % attr:
                    norm_wrong = "character references in the value are no longer decoded (unescape) before the scheme is tested"
    r.idiom("R9.3", ok_norm, "scheme-normalisation", "%s:%d" % (REL, loop.lineno),
            "the value whose scheme is tested is no longer the unescaped, control/space-stripped, lower-cased attribute value",
            wrong=[(norm_wrong is not None, norm_wrong)])
    parse = [s for s in ast.walk(loop) if isinstance(s, ast.Assign) and norm(s.value) == "urlparse.urlparse(val_unescaped)"]
    # ... or in a helper of the filter that is handed the normalised value and parses its parameter
    via_helper = False
    for c_ in ast.walk(loop):
        if isinstance(c_, ast.Call) and isinstance(c_.func, ast.Attribute) and norm(c_.func.value) == "self" and [norm(a_) for a_ in c_.args] == ["val_unescaped"]:
            h_ = at.cls.find_method(c_.func.attr) if at.cls is not None else None
            if h_ is not None and len(h_.params()) == 2 and any(
                    isinstance(x_, ast.Call) and norm(x_.func) == "urlparse.urlparse" and [norm(a_) for a_ in x_.args] == [h_.params()[1]] for x_ in ast.walk(h_.node)):
                via_helper = True
    r.idiom("R9.3", len(parse) == 1 or via_helper, "parses-normalised-value", "%s:%d" % (REL, loop.lineno), "where the scheme is parsed was not recognised",
            wrong=[(any(isinstance(x_, ast.Call) and norm(x_.func) == "urlparse.urlparse" and x_.args and norm(x_.args[0]) not in ("val_unescaped",)
                        for x_ in ast.walk(loop)), "the scheme is not parsed from the normalised value")])
    tries = [s for s in loop.body if isinstance(s, ast.Try)]
    exc_ok = len(tries) == 1 and any("del attrs[%s]" % attr == norm(x) for h in tries[0].handlers for x in h.body)
    # in the helper form: the handler of the helper's try returns False and the caller deletes on a false result
    if via_helper and not exc_ok:
        for c_ in ast.walk(loop):
            if isinstance(c_, ast.Call) and isinstance(c_.func, ast.Attribute) and norm(c_.func.value) == "self" and at.cls is not None:
                h_ = at.cls.find_method(c_.func.attr)
                if h_ is not None and any(isinstance(t_, ast.Try) and any(isinstance(x_, ast.Return) and norm(x_.value) == "False" for hh in t_.handlers for x_ in hh.body)
                                          for t_ in ast.walk(h_.node)) and \
                        any(isinstance(i_, ast.If) and norm(i_.test) == "not " + norm(c_) and any(norm(x_) == "del attrs[%s]" % attr for x_ in i_.body) for i_ in ast.walk(loop)):
                    exc_ok = True
    r.idiom("R9.3", exc_ok, "unparsable-removed", "%s:%d" % (REL, loop.lineno), "what happens to an unparsable URL was not recognised",
            wrong=[(len(tries) == 1 and not exc_ok, "an unparsable URL is not removed")])
    # the content-type pattern is anchored at both ends (otherwise a permitted type anywhere in the path would do)
    import re._parser as sp2
    pat = None
    for st in at.module.tree.body:
        if isinstance(st, ast.Assign) and norm(st.targets[0]) == "data_content_type" and isinstance(st.value, ast.Call):
            pat = ce.try_eval(st.value.args[0], at.module)
            flags = [norm(a) for a in st.value.args[1:]]
    if not isinstance(pat, str):
        raise AnalysisError("data_content_type is not a constant pattern")
    import re as _re
    parsed = sp2.parse(pat, _re.VERBOSE if "re.VERBOSE" in flags else 0)
    items = list(parsed)
    anchored = bool(items) and items[0] == (sp2.AT, sp2.AT_BEGINNING) and items[-1] == (sp2.AT, sp2.AT_END)
    grp = "content_type" in parsed.state.groupdict
    r.check("R9.3", anchored and grp, "content-type-pattern-anchored", REL,
            "the data: content-type pattern is not anchored at both ends / lost its content_type group: a permitted type "
            "inside the payload would be accepted", detail={"anchored": anchored})
    uses_match = any(isinstance(n, ast.Call) and norm(n.func).endswith("data_content_type.match") and n.args and norm(n.args[0]).endswith(".path")
                     for m_ in ctx.repo.cls(REL, "Filter").methods.values() for n in ast.walk(m_.node))
    r.check("R9.3", uses_match, "content-type-from-path", "%s:%d" % (REL, loop.lineno), "the content type is not matched against the parsed URL's path")
    # statements after the parse: the gate proper
    gate = [s for s in loop.body if isinstance(s, ast.If)]
    if len(gate) != 1:
        raise AnalysisError("allowed_token: URI gate `if uri and uri.scheme` not found")

    # the five predicates are made concrete (one representative value each), so that aliases and merged conditions evaluate:
    # scheme present / allowed / is data / content type matched / content type allowed
    cur = {}

    def expr_hook(node, local):
        t = norm(node)
        if t == "uri.scheme":
            return ("data" if cur["P_data"] else "http") if cur["P_scheme"] else ""
        if t in ("self.allowed_protocols", "allowed_protocols"):
            return frozenset([("data" if cur["P_data"] else "http")] if cur["P_allowed"] else ["zzz"])
        if t in ("self.allowed_content_types", "allowed_content_types"):
            return frozenset(["image/png"] if cur["P_ctype"] else ["x/y"])
        if isinstance(node, ast.Call) and t.endswith(".group('content_type')"):
            return "image/png"
        if isinstance(node, ast.Call) and norm(node.func).endswith("data_content_type.match"):
            return Opaque("<match>")
        return NotImplemented

    def guard_hook(node, env, interp):
        t = norm(node)
        if t == "uri":
            return True
        if isinstance(node, ast.Name) and isinstance(env.get(node.id), Opaque) and env[node.id].text == "<match>":
            return cur["P_match"]
        if isinstance(node, ast.Compare) and len(node.ops) == 1 and isinstance(node.ops[0], (ast.Is, ast.IsNot)) and \
                isinstance(node.left, ast.Name) and isinstance(env.get(node.left.id), Opaque) and env[node.left.id].text == "<match>" and \
                norm(node.comparators[0]) == "None":
            return (not cur["P_match"]) if isinstance(node.ops[0], ast.Is) else cur["P_match"]
        return NotImplemented
    interp = MiniInterp(ce, at.module, guard_hook=guard_hook, expr_hook=expr_hook)
    for vals in itertools.product((True, False), repeat=5):
        env = dict(zip(("P_scheme", "P_allowed", "P_data", "P_match", "P_ctype"), vals))
        if not env["P_scheme"] and (env["P_data"]):
            continue           # no scheme => not data
        cur.clear()
        cur.update(env)
        res = interp.run(gate, {"self": Opaque("self")})
        dels = [e for e in res.effects if isinstance(e.node, ast.Delete) and norm(e.node.targets[0]) == "attrs[%s]" % attr]
        others = [e for e in res.effects if e not in dels and not isinstance(e.node, ast.Assign)]
        if others:
            raise AnalysisError("URI gate has unexpected effects: %s" % others[:2])
        survives = not dels
        may = (not env["P_scheme"]) or (env["P_allowed"] and ((not env["P_data"]) or (env["P_match"] and env["P_ctype"])))
        key = "uri[%s]" % ",".join("%s=%d" % (k[2:], v) for k, v in env.items())
        r.check("R9.3", (not survives) or may, key, "%s:%d" % (REL, gate[0].lineno),
                "a URI attribute survives with scheme present=%s allowed=%s data=%s content-type matched=%s allowed=%s"
                % tuple(env.values()), env, detail=dict(env, survives=survives))
        r.check("R9.8", len(dels) <= 1, "deleted-once[%s]" % key[4:-1], "%s:%d" % (REL, gate[0].lineno),
                "the URI gate deletes the attribute %d times for scheme present=%s allowed=%s data=%s content-type matched=%s allowed=%s: the "
                "second `del` raises KeyError, so with a custom allowed_protocols that lacks `data` the filter dies on "
                "`<img src=\"data:text/html,x\">` instead of removing the attribute" % ((len(dels),) + tuple(env.values())), env)


def configured(ctx):
    r = ctx.r
    cls = ctx.repo.cls(REL, "Filter")
    init = cls.methods.get("__init__")
    if init is None:
        raise AnalysisError("sanitizer Filter.__init__ vanished")
    for lst in LISTS:
        stored = any(isinstance(n, ast.Assign) and attr_chain(n.targets[0]) == ["self", lst] and norm(n.value) == lst
                     for n in ast.walk(init.node))
        uses_global = []
        for mn, m in cls.methods.items():
            if mn == "__init__":
                continue
            for n in walk_no_nested(m.node):
                if isinstance(n, ast.Name) and n.id == lst and isinstance(n.ctx, ast.Load):
                    uses_global.append("%s:%d" % (mn, n.lineno))
        r.check("R9.4", stored and not uses_global, "configured::%s" % lst, cls.where,
                "%s: %s" % (lst, "the constructor argument is not stored" if not stored else
                            "methods read the module-level default instead of the configured list at %s" % uses_global),
                detail={"list": lst})
    # shape observation
    at = cls.methods["allowed_token"]
    if "token['name'] in self.svg_allow_local_href" in norm(at.node):
        r.note("observation (outside C09's statement): `token['name'] in self.svg_allow_local_href` tests a str against a set "
               "of (namespace, name) tuples, so local-href stripping never runs")


CSS_SAFE_KEYWORD_REF = r"^(#[0-9a-fA-F]+|rgb\(\d+%?,\d*%?,?\d*%?\)?|\d{0,2}\.?\d{0,2}(cm|em|ex|in|mm|pc|pt|px|%|,|\))?)$"


def css_declarations_evaluated(ctx, f) -> bool:
    """R9.5 by evaluation: the loop of sanitize_css that decides which declarations are kept is run on representative
    (property, value) pairs under small configured lists; a declaration is kept iff the property is on one of the two property
    lists, or belongs to a shorthand family and *every* keyword of the value is an allowed keyword or a colour / length (the
    pattern confirmed on today's tree is the reference).  Returns False when the loop cannot be evaluated (the shape rule decides)."""
    import re as _re
    from ..partition import MiniInterp, Opaque
    r = ctx.r
    ce = ctx.ce
    loop = next((n for n in ast.walk(f.node) if isinstance(n, ast.For) and isinstance(n.target, ast.Tuple) and len(n.target.elts) == 2 and
                 any(norm(c.func) == "clean.append" for c in ast.walk(n) if isinstance(c, ast.Call))), None)
    if loop is None:
        return False
    pv = [e.id for e in loop.target.elts if isinstance(e, ast.Name)]
    if len(pv) != 2:
        return False
    lists = {"allowed_css_properties": frozenset(["color"]), "allowed_svg_properties": frozenset(["fill"]), "allowed_css_keywords": frozenset(["solid", "auto"])}
    precompiled = {}
    for st in f.module.tree.body:
        if isinstance(st, ast.Assign) and len(st.targets) == 1 and isinstance(st.targets[0], ast.Name) and isinstance(st.value, ast.Call) and \
                norm(st.value.func) == "re.compile" and st.value.args:
            precompiled[st.targets[0].id] = st.value

    def flag_of(exprs):
        fl = 0
        for x in exprs:
            for part in norm(x).split("|"):
                fl |= {"re.I": _re.I, "re.IGNORECASE": _re.I, "re.VERBOSE": _re.X, "re.X": _re.X}.get(part.strip(), 0)
        return fl

    def hook(node, local):
        t = norm(node)
        if t.startswith("self.") and t[5:] in lists:
            return lists[t[5:]]
        if isinstance(node, ast.Name) and node.id in lists and (local is None or node.id not in local):
            return lists[node.id]
        if isinstance(node, ast.Call):
            fn = norm(node.func)
            if fn in ("re.match", "re.search", "re.fullmatch") and len(node.args) >= 2 and all(k.arg == "flags" for k in node.keywords):
                pat = ce.eval(node.args[0], f.module, local)
                sv = ce.eval(node.args[1], f.module, local)
                fl = flag_of(list(node.args[2:3]) + [k.value for k in node.keywords])
                return getattr(_re, fn[3:])(pat, sv, fl) is not None
            if isinstance(node.func, ast.Attribute) and node.func.attr in ("match", "search", "fullmatch") and isinstance(node.func.value, ast.Name) and \
                    node.func.value.id in precompiled and len(node.args) == 1:
                comp = precompiled[node.func.value.id]
                pat = ce.eval(comp.args[0], f.module, None)
                fl = flag_of(list(comp.args[1:]) + [k.value for k in comp.keywords if k.arg == "flags"])
                return getattr(_re.compile(pat, fl), node.func.attr)(ce.eval(node.args[0], f.module, local)) is not None
        return NotImplemented
    ref = _re.compile(CSS_SAFE_KEYWORD_REF)
    families = ("background", "border", "margin", "padding")
    cases = [("color", "red"), ("COLOR", "red"), ("fill", "x"), ("zzz", "red"), ("border", "1px solid"), ("border", "1px evil"), ("border", "evil solid"),
             ("border", "solid evil"), ("border-top", "solid"), ("BORDER", "solid"), ("margin", "expression(1)"), ("background", "#fff"),
             ("padding", "10px auto"), ("background", "#0fixed"), ("background", "rgb(1,2,3)inherit"), ("margin", "1pxx"), ("border", "12pxsolid"),
             ("border", "solid 1px #abc"), ("border", "evil"), ("borderx", "solid"), ("padding", "")]
    n = 0
    for prop, value in cases:
        kept = []

        def stmt_hook(st, out, interp, kept=kept):
            if isinstance(st, ast.Expr) and isinstance(st.value, ast.Call) and norm(st.value.func) == "clean.append":
                kept.append(st)
                return False
            return NotImplemented
        key = "css-declaration[%s: %s]" % (prop, value)
        try:
            MiniInterp(ce, f.module, expr_hook=hook, stmt_hook=stmt_hook).run(loop.body, {pv[0]: prop, pv[1]: value, "self": Opaque("self")})
        except (AnalysisError, NotConstant):
            return False if n == 0 else r.idiom("R9.5", False, key, "%s:%d" % (REL, loop.lineno), "the declaration loop of sanitize_css is not decidable for this pair") and False
        low = prop.lower()
        want = bool(value) and (low in lists["allowed_css_properties"] or low in lists["allowed_svg_properties"] or (
            low.split("-")[0] in families and all(k in lists["allowed_css_keywords"] or ref.match(k) for k in value.split())))
        n += 1
        r.check("R9.5", bool(kept) == want and len(kept) <= 1, key, "%s:%d" % (REL, loop.lineno),
                "sanitize_css %s the declaration `%s: %s` (allowed properties {color}, svg properties {fill}, keywords {solid, auto}); it "
                "must %s: a shorthand declaration is kept only when every keyword of its value is an allowed keyword, a colour or a length, "
                "anything else only when the property is on a configured list" % (
                    "keeps" if kept else "drops", prop, value, "be kept" if want else "be dropped"),
                {"property": prop, "value": value}, detail={"kept": bool(kept)})
    return n == len(cases)


def css(ctx):
    r = ctx.r
    f = ctx.repo.func(REL, "Filter.sanitize_css")
    cfg = CFG(f.node)
    evaluated = css_declarations_evaluated(ctx, f)
    appends = [n for n in cfg.stmt_nodes() if any(norm(c.func) == "clean.append" for c in node_calls(n))]
    if len(appends) < 3:
        raise AnalysisError("sanitize_css: kept-declaration appends not found")
    for a in appends:
        def allow(n, lab):
            if n.kind != "test":
                return False
            t = norm(n.ast)
            if lab is True and t in ("prop.lower() in self.allowed_css_properties", "prop.lower() in self.allowed_svg_properties"):
                return True
            return False
        ok = cfg.dominated_by(a, allow)
        if not ok:
            # the shorthand arm: for/else over keywords, reached only when no keyword failed the allow test
            anc = [x for x in ast.walk(f.node) if isinstance(x, ast.For) and any(y is a.ast for s in x.orelse for y in ast.walk(s))]
            if anc:
                loop = anc[0]
                brk = [s for s in loop.body if isinstance(s, ast.If) and any(isinstance(y, ast.Break) for y in s.body)]
                ok = len(brk) == 1 and "keyword not in self.allowed_css_keywords" in norm(brk[0].test) and \
                    "prop.split('-')[0].lower() in ['background', 'border', 'margin', 'padding']" in " ".join(norm(f.node).split())
        if not ok:
            # the same arm written with a flag: F = True; for keyword in ..: if <keyword fails>: F = False; break; if F: keep
            for t in [n for n in cfg.nodes if n.kind == "test" and isinstance(n.ast, ast.Name)]:
                flag = t.ast.id
                if not cfg.dominated_by(a, lambda n, lab, t=t: n is t and lab is True):
                    continue
                stores = [x for x in ast.walk(f.node) if isinstance(x, ast.Assign) and norm(x.targets[0]) == flag]
                vals = sorted(norm(x.value) for x in stores)
                falses = [x for x in stores if norm(x.value) == "False"]
                guarded = all(any(isinstance(g, ast.If) and any(y is x for y in g.body) and
                                  "not in self.allowed_css_keywords" in norm(g.test) for g in ast.walk(f.node)) for x in falses)
                if vals == ["False", "True"] and guarded:
                    ok = True
        # positively wrong: the append is reached on the false edges of *all* allow-list tests (an `else:` arm), or no
        # allow-list test dominates any append at all
        def unguarded(n, lab):
            return False
        in_else = False
        for anc in ast.walk(f.node):
            if isinstance(anc, ast.If) and anc.orelse and not (len(anc.orelse) == 1 and isinstance(anc.orelse[0], ast.If)) and \
                    any(y is a.ast for s in anc.orelse for y in ast.walk(s)) and "allowed_svg_properties" in norm(anc.test):
                in_else = True
        r.idiom("R9.5", ok or evaluated, "css-append@%s" % norm(a.ast)[:40] + str(appends.index(a)), "%s:%d" % (REL, a.lineno),
                "a CSS declaration is kept without a dominating allow-list test", wrong=[(in_else, None)],
                detail={"dominated": ok, "decided_by_evaluation": evaluated and not ok})
    # url() stripper first
    first = [s for s in f.node.body if not (isinstance(s, ast.Expr) and isinstance(s.value, ast.Constant))][0]
    ok = isinstance(first, ast.Assign) and norm(first.targets[0]) == f.params()[1] and "url" in norm(first.value) and ".sub(' '," in norm(first.value)
    mentions_url = any(isinstance(n, ast.Constant) and isinstance(n.value, str) and "url" in n.value for n in ast.walk(f.node)) or \
        any(isinstance(n, ast.Name) and "url" in n.id.lower() for n in ast.walk(f.node))
    r.idiom("R9.5", ok, "url-stripped-first", f.where, "the url() stripper is no longer the first step of sanitize_css",
            wrong=[(not mentions_url, "sanitize_css no longer strips url(...) at all"),
                   (isinstance(first, ast.Assign) and ".sub(''," in norm(first.value),
                    "sanitize_css removes url(...) by substituting the empty string: the text around a removed match is joined, and "
                    "since the substitution is a single pass `ururl(1)l(2)` becomes `url(2)` and survives")])
    # CSS function names are ASCII case-insensitive: the stripper has to remove URL( / Url( as well
    comp = [c for c in ast.walk(first) if isinstance(c, ast.Call) and norm(c.func) in ("re.compile", "re.sub")] if isinstance(first, ast.Assign) else []
    if not comp and isinstance(first, ast.Assign) and isinstance(first.value, ast.Call) and isinstance(first.value.func, ast.Attribute) \
            and isinstance(first.value.func.value, ast.Name):
        # a pattern compiled at module level: <name>.sub(..)
        comp = [st.value for st in f.module.tree.body if isinstance(st, ast.Assign) and norm(st.targets[0]) == first.value.func.value.id
                and isinstance(st.value, ast.Call) and norm(st.value.func) == "re.compile"]
    pat = ctx.ce.try_eval(comp[0].args[0], f.module) if comp and comp[0].args else None
    if isinstance(pat, str) and "url" in pat.lower():
        flags = " ".join(norm(a) for a in comp[0].args[1:] if norm(comp[0].func) == "re.compile") + " ".join(norm(k.value) for k in comp[0].keywords)
        insensitive = "re.I" in flags or "IGNORECASE" in flags or pat.startswith("(?i)") or "[uU]" in pat or \
            ".lower()" in norm(first.value)
        r.check("R9.5", insensitive, "url-strip-case-insensitive", "%s:%d" % (REL, first.lineno),
                "the url() stripper %r is case-sensitive: `color: URL(1)` is not stripped, passes the gauntlet (letters and a "
                "parenthesised number) and is kept in the sanitized style" % pat, detail={"pattern": pat, "flags": flags})
        # completeness: whatever can stand between the parentheses and still pass the gauntlet (digits, commas, white space --
        # the gauntlet's `\\([\\d,\\s]+\\)` alternative) must be removed by the stripper; evaluated on class sequences
        import re as _re, itertools
        fl = 0
        for nm_, v_ in (("re.I", _re.I), ("IGNORECASE", _re.I), ("re.S", _re.S), ("re.X", _re.X)):
            if nm_ in flags:
                fl |= v_
        try:
            rx = _re.compile(pat, fl)
        except _re.error:
            rx = None
        if rx is not None:
            alphabet = ["1", ",", " ", "\t", "\u3000"]
            survivors = []
            for n_ in range(1, 4):
                for combo in itertools.product(alphabet, repeat=n_):
                    inner = "".join(combo)
                    if not _re.fullmatch(r"[\d,\s]+", inner):
                        continue
                    for head in ("url(", "url (", "URL("):
                        sample = "color: %s%s)" % (head, inner)
                        out = rx.sub(" ", sample)
                        if _re.search(r"url\s*\(", out, _re.I):
                            survivors.append(sample)
            r.check("R9.5", not survivors, "url-strip-complete", "%s:%d" % (REL, first.lineno),
                    "the url() stripper %r leaves `%s` in place (%d of the sampled forms survive): the gauntlet accepts a parenthesised run of "
                    "digits, commas and white space, so the declaration is kept and the sanitized style contains url(...)"
                    % (pat, survivors[0] if survivors else "", len(survivors)), {"survivors": survivors[:6]}, detail={"sampled": "url( [digit , ws]{1,3} )"})
    else:
        r.idiom("R9.5", False, "url-strip-case-insensitive", f.where, "the url() stripper's pattern was not found")
    rets = [n for n in ast.walk(f.node) if isinstance(n, ast.Return)]
    r.idiom("R9.5", all(norm(x.value) in ("''", "' '.join(clean)") for x in rets), "css-returns", f.where,
            "sanitize_css returns something other than '' or the kept declarations")


def animation_values(ctx):
    """R9.7: SVG animation elements (<set>, <animate>, ...) assign the value of their to / from / by / values attribute to the
    attribute named by attributeName -- including href / xlink:href.  If the default lists allow these elements and
    attributes, the value attributes are URI-valued and have to be in the scheme-checked set."""
    r = ctx.r
    ce = ctx.ce
    r.rule("R9.7", "attributes through which an allowed SVG animation element sets another attribute are scheme-checked", floor=1)
    ns = ce.const("constants.py", "namespaces")
    elems = set(ce.const(REL, "allowed_elements"))
    attrs = set(ce.const(REL, "allowed_attributes"))
    uri = set(ce.const(REL, "attr_val_is_uri"))
    animators = sorted(n for (e_ns, n) in elems if e_ns == ns["svg"] and n in ("set", "animate", "animateTransform", "animateMotion", "animateColor"))
    can_target = (None, "attributeName") in attrs
    for a in ("to", "from", "by", "values"):
        if not animators or not can_target or (None, a) not in attrs:
            r.ok("R9.7", "animation-value::%s" % a, REL, detail={"attribute": a, "reachable": False})
            continue
        r.check("R9.7", (None, a) in uri, "animation-value::%s" % a, ce.provenance(ctx.repo.module(REL), "attr_val_is_uri"),
                "<%s attributeName=\"xlink:href\" %s=\"javascript:...\"> passes the sanitizer: the animation elements %s and the attributes "
                "attributeName and `%s` are allowed, but `%s` is not in attr_val_is_uri, so its scheme is never checked although a browser "
                "assigns it to the link's href" % (animators[0], a, animators, a, a), {"attribute": a}, detail={"attribute": a, "animators": animators})


def svg_reference_and_css_families(ctx):
    """R9.9: the pattern that strips non-local `url(...)` references from SVG presentation attributes (fill, stroke, clip-path,
    ...) is evaluated on representatives: the function name is case-insensitive in CSS / SVG, and the reference may be one
    character long; only `url(#local)` stays.
    R9.10: which CSS properties survive is decided by the configured lists only: a property family that is accepted through a list
    written into sanitize_css cannot be restricted by a custom allowed_css_properties."""
    import re as _re
    r = ctx.r
    ce = ctx.ce
    r.rule("R9.9", "non-local url() references in SVG presentation attributes are stripped whatever the case / length", floor=4)
    r.rule("R9.10", "CSS property acceptance consults the configured lists only", floor=1)
    at = ctx.repo.func(REL, "Filter.allowed_token")
    from ..partition import MiniInterp, Opaque
    loops = [n for n in ast.walk(at.node) if isinstance(n, ast.For) and norm(n.iter) in ("self.svg_attr_val_allows_ref",) and isinstance(n.target, ast.Name)]
    precompiled = {}
    for st in at.module.tree.body:
        if isinstance(st, ast.Assign) and len(st.targets) == 1 and isinstance(st.targets[0], ast.Name) and isinstance(st.value, ast.Call) and \
                norm(st.value.func) == "re.compile" and st.value.args:
            precompiled[st.targets[0].id] = st.value

    def flag_of(exprs):
        return _re.I if any(norm(x) in ("re.I", "re.IGNORECASE") for x in exprs) else 0
    if len(loops) != 1:
        r.idiom("R9.9", False, "svg-url-reference", at.where, "the loop over svg_attr_val_allows_ref in allowed_token was not found")
    else:
        loop = loops[0]
        K = (None, "fill")
        # (value, does it hold a reference to something outside the document?)
        cases = (("url(http://e.example/a.svg#x)", True), ("URL(http://e.example/a.svg#x)", True), ("url(x)", True), ("Url( x.svg )", True),
                 ("url(http://e.example/x", True), ("url(#a) url(http://b.example/y) url(http://c.example/z)", True), ("\\75rl(http://e.example/x)", True), ("u\\72l(x)", True),
                 ("url(#local)", False), ("red", False), ("url(#a) none", False))
        for val, external in cases:
            def hook(node, local):
                if isinstance(node, ast.Call):
                    fn = norm(node.func)
                    if fn in ("unescape", "html.unescape") and len(node.args) == 1:
                        return ce.eval(node.args[0], at.module, local)
                    if fn == "re.sub" and len(node.args) >= 3:
                        a = [ce.eval(x, at.module, local) for x in node.args[:3]]
                        if any(k.arg not in ("flags", "count") for k in node.keywords) or len(node.args) > 5:
                            return NotImplemented
                        fl = flag_of(list(node.args[4:5]) + [k.value for k in node.keywords if k.arg == "flags"])
                        cnt = [ce.eval(x, at.module, local) for x in list(node.args[3:4]) + [k.value for k in node.keywords if k.arg == "count"]]
                        return _re.sub(a[0], a[1], a[2], count=cnt[0] if cnt else 0, flags=fl)
                    if isinstance(node.func, ast.Attribute) and node.func.attr == "sub" and isinstance(node.func.value, ast.Name) and \
                            node.func.value.id in precompiled and len(node.args) == 2:
                        comp = precompiled[node.func.value.id]
                        pat = ce.eval(comp.args[0], at.module, None)
                        fl = flag_of(list(comp.args[1:]) + [k.value for k in comp.keywords if k.arg == "flags"])
                        return _re.sub(pat, ce.eval(node.args[0], at.module, local), ce.eval(node.args[1], at.module, local), flags=fl)
                return NotImplemented

            def stmt_hook(st, out, interp):
                if isinstance(st, ast.Delete) and len(st.targets) == 1 and isinstance(st.targets[0], ast.Subscript) and norm(st.targets[0].value) == "attrs":
                    out.env["attrs"].pop(interp.eval_expr(st.targets[0].slice, out.env), None)
                    return False
                return NotImplemented
            key = "svg-url-reference[%s]" % val
            init = ast.parse("attrs = {%r: %r}" % (K, val)).body
            try:
                res = MiniInterp(ce, at.module, expr_hook=hook, stmt_hook=stmt_hook).run(init + loop.body, {loop.target.id: K, "self": Opaque("self")})
            except (AnalysisError, NotConstant) as e:
                r.idiom("R9.9", False, key, "%s:%d" % (REL, loop.lineno), "the url() stripping of allowed_token is not decidable (%s)" % str(e)[:80])
                continue
            attrs = res.env.get("attrs")
            if not isinstance(attrs, dict) or res.effects:
                r.idiom("R9.9", False, key, "%s:%d" % (REL, loop.lineno), "the url() stripping of allowed_token has effects that were not recognised: %s" % [e.text for e in res.effects][:2])
                continue
            out = attrs.get(K)
            if external:
                rest = None if out is None else _re.sub(r"url\(#[^()\\]*\)", "", out)        # local references may stay
                ok = out is None or ("(" not in rest and "\\" not in rest)
            else:
                ok = out == val
            r.check("R9.9", ok, key, "%s:%d" % (REL, loop.lineno),
                    "an SVG presentation attribute with the value %r comes out as %r: %s" % (
                        val, out, "the non-local reference survives (the function name is case-insensitive, the closing parenthesis is optional "
                        "at the end of the value, CSS escapes can spell `url`)" if external else "a value that is no external reference is altered"),
                    detail={"out": out})
    sc = ctx.repo.func(REL, "Filter.sanitize_css")
    hard = []
    for t in ast.walk(sc.node):
        if isinstance(t, ast.Compare) and len(t.ops) == 1 and isinstance(t.ops[0], ast.In) and isinstance(t.comparators[0], (ast.List, ast.Tuple, ast.Set)) and \
                all(isinstance(e, ast.Constant) and isinstance(e.value, str) for e in t.comparators[0].elts) and "prop" in norm(t.left):
            hard.append(t)
    r.check("R9.10", not hard, "css-property-families-configurable", "%s:%d" % (REL, (hard[0].lineno if hard else sc.node.lineno)),
            "sanitize_css accepts a property whose first component is in the list %s written into the function, whatever allowed_css_properties "
            "says: Filter(stream, allowed_css_properties=frozenset(['color'])) keeps `margin: 1px; border-foo: red`"
            % ([e.value for e in hard[0].comparators[0].elts] if hard else []))


def total_table_lookups(ctx):
    """R9.11: the sanitizer must produce output for every token stream.  A subscript of a constant table (constants.prefixes,
    constants.namespaces, ...) with a key that comes from the token -- a namespace, a name -- raises KeyError for a value the table
    does not list (the etree walker reports the attribute `{x}y` in the namespace `x`), so such a lookup has to be guarded (`in`,
    `.get`, try/except KeyError)."""
    r = ctx.r
    r.rule("R9.11", "constant tables are not indexed with token-derived keys without a guard", floor=1)
    mod = ctx.repo.module(REL)
    cls = ctx.repo.cls(REL, "Filter")
    tables = {nm for nm, (m_, a_) in mod.imports.items() if m_ == "html5lib.constants" and isinstance(ctx.ce.try_eval(ast.Name(id=nm, ctx=ast.Load()), mod), dict)}
    n = 0
    for m in cls.methods.values():
        parents = {}
        for p_ in ast.walk(m.node):
            for c_ in ast.iter_child_nodes(p_):
                parents[id(c_)] = p_
        for sub in walk_no_nested(m.node):
            if isinstance(sub, ast.Subscript) and isinstance(sub.value, ast.Name) and sub.value.id in tables and isinstance(sub.ctx, ast.Load):
                n += 1
                if ctx.ce.try_eval(sub.slice, mod) is not None:
                    r.ok("R9.11", "table-lookup::%s::%s[%s]" % (m.name, sub.value.id, norm(sub.slice)), "%s:%d" % (REL, sub.lineno))
                    continue
                keytxt = norm(sub.slice)
                guarded = False
                p_ = sub
                while id(p_) in parents:
                    q_ = parents[id(p_)]
                    if isinstance(q_, ast.Try) and p_ in q_.body and any(h.type is None or "KeyError" in norm(h.type) or "LookupError" in norm(h.type) or "Exception" in norm(h.type) for h in q_.handlers):
                        guarded = True
                    if isinstance(q_, (ast.If, ast.IfExp)) and ("%s in %s" % (keytxt, sub.value.id)) in norm(q_.test):
                        guarded = True
                    p_ = q_
                r.check("R9.11", guarded, "table-lookup::%s::%s[%s]" % (m.name, sub.value.id, keytxt), "%s:%d" % (REL, sub.lineno),
                        "%s indexes the constant table `%s` with `%s`, which comes from the token: a value the table does not list raises KeyError and "
                        "the sanitizer produces nothing -- serialize(parseFragment('<foo {x}y=1>t</foo>'), sanitize=True) with the etree builder"
                        % (m.qual, sub.value.id, keytxt))
    if n < 1:
        raise AnalysisError("R9.11: no lookup in a constants table found in the sanitizer")


def global_substitutions(ctx):
    """R9.6: every substitution the sanitizer uses to strip something (control characters, url(...) references) replaces
    *all* occurrences: no count argument."""
    r = ctx.r
    r.rule("R9.6", "stripping substitutions are global (no count argument)", floor=3)
    cls = ctx.repo.cls(REL, "Filter")
    for m in cls.methods.values():
        for c in walk_no_nested(m.node):
            if not (isinstance(c, ast.Call) and isinstance(c.func, ast.Attribute) and c.func.attr == "sub"):
                continue
            module_level = norm(c.func.value) == "re"
            npos = 3 if module_level else 2
            limited = len(c.args) > npos or any(k.arg == "count" for k in c.keywords)
            cnt = c.args[npos] if len(c.args) > npos else next((k.value for k in c.keywords if k.arg == "count"), None)
            if limited and isinstance(cnt, ast.Constant) and cnt.value == 0:
                limited = False         # count=0 means all
            pat = norm(c.args[0])[:40] if module_level else norm(c.func.value)[:40]
            r.check("R9.6", not limited, "global-sub::%s::%s" % (m.name, pat), "%s:%d" % (REL, c.lineno),
                    "%s strips with a limited substitution (count=%s): only the first occurrence(s) of %s are removed, later ones "
                    "survive in the sanitized value" % (m.qual, norm(cnt) if cnt is not None else "?", pat),
                    detail={"method": m.name, "pattern": pat})


def thorough(ctx):
    from .. import selftest
    selftest.run(ctx, sys.modules[__name__])


def mutants():
    from ..selftest import TextMutant as T
    return [
        T("prefix-table-indexed", REL, "prefixes.get(ns, ns)", "prefixes[ns]", "R9.11"),
        T("svg-url-case-sensitive", REL, "                                         value,\n                                         flags=re.I)", "                                         value)", "R9.9"),
        T("uri-gate-double-delete", REL, "                    elif uri.scheme == 'data':", "                    if uri.scheme == 'data':", "R9.8"),
        T("url-strip-needs-nonspace", REL, "r'url\\s*\\([^)]*\\)\\s*'", "r'url\\s*\\(\\s*[^\\s)]+?\\s*\\)\\s*'", "R9.5"),
        T("url-strip-case-sensitive", REL, "[^)]*\\)\\s*', re.I).sub(' ', style)", "[^)]*\\)\\s*').sub(' ', style)", "R9.5"),
        T("url-strip-empty-replacement", REL, "[^)]*\\)\\s*', re.I).sub(' ', style)", "[^)]*\\)\\s*', re.I).sub('', style)", "R9.5"),
        T("svg-url-strip-once", REL, "                                         value,\n                                         flags=re.I)",
          "                                         value,\n                                         count=1, flags=re.I)", "R9"),
        T("svg-url-needs-closing-paren", REL, "[^)]*\\)?',\n                                         ' ',\n                                         value,", "[^)]*\\)',\n                                         ' ',\n                                         value,", "R9.9"),
        T("svg-url-escapes-pass", REL, "                    if \"\\\\\" in value:\n", "                    if \"\\\\\" in value and False:\n", "R9.9"),
        T("no-c1-strip", REL, "                val_unescaped = re.sub(\"[`\\x00-\\x20\\x7f-\\xa0\\\\s]+\", '',", "                val_unescaped = re.sub(\"[`\\x00-\\x20\\xa0\\\\s]+\", '',", "R9.3"),
        T("comment-through", REL, "        elif token_type == \"Comment\":\n            pass\n        else:\n            return token",
          "        else:\n            return token", "R9.1"),
        T("emptytag-unsanitized", REL, "        if token_type in (\"StartTag\", \"EndTag\", \"EmptyTag\"):\n            name = token[\"name\"]",
          "        if token_type in (\"StartTag\", \"EndTag\"):\n            name = token[\"name\"]", "R9.1"),
        T("disallowed-keeps-type", REL, "        token[\"type\"] = \"Characters\"\n\n        del token[\"name\"]", "        if not token.get(\"selfClosing\"):\n            token[\"type\"] = \"Characters\"\n\n        del token[\"name\"]", "R9.1"),
        T("purge-conditional", REL, "            for to_remove in (attr_names - self.allowed_attributes):\n                del token[\"data\"][to_remove]\n                attr_names.remove(to_remove)",
          "            if token[\"type\"] != \"EmptyTag\":\n                for to_remove in (attr_names - self.allowed_attributes):\n                    del token[\"data\"][to_remove]\n                    attr_names.remove(to_remove)", "R9.2"),
        T("style-recreated", REL, "            if (None, 'style') in attrs:\n                attrs[(None, 'style')] = self.sanitize_css(attrs[(None, 'style')])",
          "            attrs[(None, 'style')] = self.sanitize_css(attrs.get((None, 'style'), ''))", "R9.2"),
        T("scheme-elif", REL, "                    if uri.scheme not in self.allowed_protocols:\n                        del attrs[attr]\n                    elif uri.scheme == 'data':",
          "                    if uri.scheme == 'data':", "R9.3"),
        T("ctype-unchecked", REL, "                        elif m.group('content_type') not in self.allowed_content_types:\n                            del attrs[attr]\n", "", "R9.3"),
        T("no-control-strip", REL, "                val_unescaped = re.sub(\"[`\\x00-\\x20\\x7f-\\xa0\\\\s]+\", '',", "                val_unescaped = re.sub(\"[`\\x7f-\\xa0]+\", '',", "R9.3"),
        T("default-list-used", REL, "                    if uri.scheme not in self.allowed_protocols:", "                    if uri.scheme not in allowed_protocols:", "R9"),
        T("css-keep-unknown", REL, "            elif prop.lower() in self.allowed_svg_properties:\n                clean.append(prop + ': ' + value + ';')",
          "            elif prop.lower() in self.allowed_svg_properties:\n                clean.append(prop + ': ' + value + ';')\n            else:\n                clean.append(prop + ': ' + value + ';')", "R9.5"),
        T("css-url-after", REL, "        style = re.compile(r'url\\s*\\([^)]*\\)\\s*', re.I).sub(' ', style)\n\n        # gauntlet\n", "        # gauntlet\n", "R9.5"),
    ]


def preserving():
    from ..selftest import TextMutant as T
    return [
        T("in-tuple-order", REL, "        if token_type in (\"StartTag\", \"EndTag\", \"EmptyTag\"):\n            name = token[\"name\"]",
          "        if token_type in (\"EmptyTag\", \"StartTag\", \"EndTag\"):\n            name = token[\"name\"]", None),
    ]
