"""C17 -- the whitespace filter changes nothing but whitespace.

R17.1 EFFECTS   per token type x preserve state x element: every token is yielded exactly once, in order; only the data of
                Characters / SpaceCharacters tokens is rewritten and only when preserve == 0; the depth counter goes up
                exactly on StartTag (while preserving or on a preserve element) and down exactly on EndTag while preserving
R17.2 REGEX     the collapsing pattern is [class]+ with class = exactly the five HTML white-space characters; the
                replacement is one space (hence idempotent on a single token, non-ASCII spaces survive)
R17.3 PRESERVE  the preserve set = {pre, textarea} + the serializer's raw-text elements
"""
from __future__ import annotations

import ast
import sys

from ..repo import AnalysisError, norm, walk_no_nested
from ..partition import MiniInterp, Opaque, FRESH

LEVEL = "other"
TECHNIQUE = "stream-filter effect table by branch partition over token type x preserve depth x element; regex-literal analysis; table equality"
CLAIM = ("The complete effect table of the filter's loop body shows that every token is passed on exactly once and in order, "
         "that only text tokens outside preserved elements are rewritten, and how the preserve depth evolves; the collapsing "
         "pattern is a +-repetition of exactly the five HTML white-space characters replaced by one space.")
NOT_DECIDED = "white-space runs split across adjacent text tokens (the filter has no cross-token state); unbalanced streams."
MODULES = ["filters/whitespace.py", "filters/base.py", "constants.py"]
REL = "filters/whitespace.py"
TYPES = ["Doctype", "Characters", "SpaceCharacters", "StartTag", "EndTag", "EmptyTag", "Comment", "Entity", "SerializeError", FRESH]


def run(ctx):
    r = ctx.r
    ce, repo = ctx.ce, ctx.repo
    r.explanation = ("Filter.__iter__'s loop body is decided for every token type, preserve depth in {0, 1, 2}, element in "
                     "{a preserve element, another element} and data in {empty, white space, mixed}; SPACES_REGEX is parsed "
                     "with re._parser; the preserve set is evaluated and compared.")
    r.not_decided = NOT_DECIDED
    r.rule("R17.1", "each token is yielded once, unchanged unless it is text outside a preserved element; depth counter rule", floor=100)
    r.rule("R17.2", "collapsing pattern = [five HTML white-space characters]+ -> one space", floor=3)
    r.rule("R17.3", "preserve set = {pre, textarea} + raw-text elements", floor=1)
    f = repo.func(REL, "Filter.__iter__")
    cls = repo.cls(REL, "Filter")
    mod = f.module
    body = [s for s in f.node.body if not (isinstance(s, ast.Expr) and isinstance(s.value, ast.Constant))]
    if not (len(body) == 2 and isinstance(body[0], ast.Assign) and isinstance(body[1], ast.For) and
            isinstance(body[0].value, ast.Constant) and body[0].value.value == 0 and
            norm(body[1].iter) == "base.Filter.__iter__(self)" and isinstance(body[1].target, ast.Name)):
        raise AnalysisError("whitespace Filter.__iter__ is not `counter = 0; for token in base.Filter.__iter__(self): ...`")
    counter = body[0].targets[0].id
    tok = body[1].target.id
    preserve_set = ce.eval(cls.assigns["spacePreserveElements"], mod)

    def expr_hook(node, env):
        if norm(node) == "self.spacePreserveElements":
            return preserve_set
        return NotImplemented
    interp = MiniInterp(ce, mod, expr_hook=expr_hook)
    # one-line helper methods of the filter (self.m(token)) are inlined
    from ..repo import inline_simple_calls
    loop_body = [inline_simple_calls(mod, s, cls=cls) for s in body[1].body]
    html_ns = ce.const("constants.py", "namespaces")["html"]
    # namespace of the element token: the HTML namespace, None (trees built with namespaceHTMLElements=False) or absent
    # (hand-made streams); whether a *foreign* element called pre preserves white space is not part of the statement
    NS_CASES = (("html", html_ns), ("none", None), ("absent", "<absent>"))
    for ty in TYPES:
        for depth in (0, 1, 2):
            for name in ("pre", "div"):
              for ns_label, ns_val in (NS_CASES if ty == "StartTag" and depth == 0 and name == "pre" else NS_CASES[:1]):
                for data in ("", " \n", "a  b"):
                    token = {"type": ty, "name": name, "data": data}
                    if ns_val != "<absent>":
                        token["namespace"] = ns_val
                    res = interp.run(loop_body, {tok: token, counter: depth, "self": Opaque("self")})
                    ys = [e for e in res.effects if isinstance(e.node, ast.Expr) and isinstance(e.node.value, ast.Yield)]
                    writes = [e for e in res.effects if e not in ys]
                    key = "type=%s depth=%d elem=%s%s data=%r" % (ty, depth, name, "" if ns_label == "html" else "[namespace %s]" % ns_label, data)
                    problems = []
                    if len(ys) != 1 or norm(ys[0].node.value.value) != tok:
                        problems.append("yields %s" % [e.text for e in ys])
                    # the yield must be the last effect (rewrites happen before the token is passed on)
                    if ys and res.effects and res.effects[-1] is not ys[0]:
                        problems.append("token modified after being yielded")
                    text = ty in ("Characters", "SpaceCharacters")
                    for w in writes:
                        if not (isinstance(w.node, ast.Assign) and norm(w.node.targets[0]) == "%s['data']" % tok):
                            problems.append("effect %s" % w.text[:50])
                        elif not (text and depth == 0):
                            problems.append("data of a %s token rewritten at preserve depth %d" % (ty, depth))
                        else:
                            v = norm(w.node.value)
                            if ty == "SpaceCharacters" and v != "' '":
                                problems.append("white-space token rewritten to %s" % v)
                            if ty == "Characters" and v not in ("collapse_spaces(%s['data'])" % tok, "SPACES_REGEX.sub(' ', %s['data'])" % tok):
                                problems.append("text rewritten by %s" % v)
                    if text and depth == 0 and data and not writes:
                        problems.append("text outside a preserved element is not collapsed")
                    if ty == "SpaceCharacters" and depth == 0 and not data and writes:
                        problems.append("an empty white-space token becomes a space")
                    nd = res.env.get(counter)
                    exp = depth
                    if ty == "StartTag" and (depth > 0 or name in preserve_set):
                        exp = depth + 1
                    elif ty == "EndTag" and depth > 0:
                        exp = depth - 1
                    if nd != exp:
                        problems.append("preserve depth %s -> %s (expected %s)" % (depth, nd, exp))
                    r.check("R17.1", not problems, key, f.where, "whitespace filter, %s: %s" % (key, "; ".join(problems)),
                            {"case": key}, detail={"case": key, "depth_after": nd})
    # R17.2
    import re._parser as sp
    pat = None
    for st in mod.tree.body:
        if isinstance(st, ast.Assign) and norm(st.targets[0]) == "SPACES_REGEX" and isinstance(st.value, ast.Call) \
                and norm(st.value.func) == "re.compile":
            pat = ce.eval(st.value.args[0], mod)
    if not isinstance(pat, str):
        raise AnalysisError("SPACES_REGEX is not a constant pattern")
    parsed = sp.parse(pat)
    ok = len(parsed) == 1 and parsed[0][0] == sp.MAX_REPEAT and parsed[0][1][0] == 1 and parsed[0][1][1] == sp.MAXREPEAT \
        and len(parsed[0][1][2]) == 1 and parsed[0][1][2][0][0] == sp.IN
    chars = set()
    if ok:
        for op, arg in parsed[0][1][2][0][1]:
            if op == sp.LITERAL:
                chars.add(chr(arg))
            else:
                ok = False
    r.check("R17.2", ok, "regex-shape", REL, "SPACES_REGEX is not of the form [class]+ : %r" % pat, detail={"pattern": pat})
    r.check("R17.2", chars == set("\t\n\x0c\r "), "regex-class", REL,
            "the collapsing class is %s, not the five HTML white-space characters" % sorted(map(repr, chars)), detail={"class": sorted(map(repr, chars))})
    cs = repo.func(REL, "collapse_spaces")
    r.idiom("R17.2", [norm(s) for s in cs.node.body if not isinstance(s, ast.Expr)] == ["return SPACES_REGEX.sub(' ', %s)" % cs.params()[0]],
            "replacement", cs.where, "collapse_spaces is not SPACES_REGEX.sub(' ', text)")
    from . import wslint
    wslint.run(ctx, "R17.4")
    # R17.3
    raw = set(ce.const("constants.py", "rcdataElements"))
    r.check("R17.3", set(preserve_set) == {"pre", "textarea"} | raw, "preserve-set", cls.where,
            "white space is preserved in %s; expected pre, textarea and the raw-text elements %s" % (sorted(preserve_set), sorted(raw)),
            detail={"preserve": sorted(preserve_set)})


def thorough(ctx):
    from .. import selftest
    selftest.run(ctx, sys.modules[__name__])


def mutants():
    from ..selftest import TextMutant as T
    return [
        T("preserve-needs-html-ns", REL, "                    and (preserve or token[\"name\"] in self.spacePreserveElements):", "                    and (preserve or (token[\"name\"] in self.spacePreserveElements and token.get(\"namespace\", \"http://www.w3.org/1999/xhtml\") == \"http://www.w3.org/1999/xhtml\")):", "R17.1"),
        T("emptytag-counts", REL, "            if type == \"StartTag\" \\\n", "            if type in (\"StartTag\", \"EmptyTag\") \\\n", "R17.1"),
        T("comment-rewritten", REL, "            elif not preserve and type == \"Characters\":", "            elif not preserve and type in (\"Characters\", \"Comment\"):", "R17.1"),
        T("drop-empty", REL, "            yield token\n\n\ndef collapse_spaces", "            if token.get(\"data\", True):\n                yield token\n\n\ndef collapse_spaces", "R17.1"),
        T("regex-s", REL, "SPACES_REGEX = re.compile(\"[%s]+\" % spaceCharacters)", "SPACES_REGEX = re.compile(\"\\\\s+\")", "R17.2"),
        T("regex-star", REL, "SPACES_REGEX = re.compile(\"[%s]+\" % spaceCharacters)", "SPACES_REGEX = re.compile(\"[%s]\" % spaceCharacters)", "R17.2"),
        T("preserve-no-textarea", REL, "frozenset([\"pre\", \"textarea\"] + list(rcdataElements))", "frozenset([\"pre\"] + list(rcdataElements))", "R17.3"),
        T("endtag-always-decrements", REL, "            elif type == \"EndTag\" and preserve:\n                preserve -= 1", "            elif type == \"EndTag\":\n                preserve -= 1", "R17.1"),
    ]


def preserving():
    from ..selftest import TextMutant as T
    return [
        T("set-union", REL, "frozenset([\"pre\", \"textarea\"] + list(rcdataElements))", "frozenset({\"textarea\", \"pre\"} | set(rcdataElements))", None),
    ]
