"""C17 -- the whitespace filter changes nothing but whitespace.

R17.1 EFFECTS   per token type x preserve state x element: every token is yielded exactly once, in order; only the data of
                Characters / SpaceCharacters tokens is rewritten and only when preserve == 0; the depth counter goes up
                exactly on StartTag (while preserving or on a preserve element) and down exactly on EndTag while preserving
R17.2 REGEX     the collapsing pattern is [class]+ with class = exactly the five HTML white-space characters; the
                replacement is one space (hence idempotent on a single token, non-ASCII spaces survive)
R17.3 PRESERVE  the preserve set = {pre, textarea} + the serializer's raw-text elements
"""
from __future__ import annotations

import ast
import sys

from ..repo import AnalysisError, norm, walk_no_nested
from ..partition import MiniInterp, Opaque, FRESH

LEVEL = "other"
TECHNIQUE = "stream-filter evaluation of the loop body (carried loop state) over token type x preserve depth x element x data class and adjacent text tokens, compared with a reference collapse; regex-literal analysis; table equality"
CLAIM = ("The filter's loop body, evaluated on every single token (type x preserve depth x element x data class) and on every pair "
         "/ selected triples of adjacent text tokens and text around a tag, passes every non-text token on exactly once, in order and "
         "unchanged, and writes between them exactly the text with each maximal white-space run -- also one split over adjacent "
         "tokens -- collapsed to one space (unchanged inside preserved elements); the preserve depth evolves as specified; the "
         "collapsing pattern is a +-repetition of exactly the five HTML white-space characters replaced by one space. A white-space run ends at the tags of a preserving element as at any other token.")
NOT_DECIDED = "streams longer than three tokens are covered by the loop state being (preserve depth, run-in-progress flag) only; unbalanced streams."
MODULES = ["filters/whitespace.py", "filters/base.py", "constants.py"]
REL = "filters/whitespace.py"
TYPES = ["Doctype", "Characters", "SpaceCharacters", "StartTag", "EndTag", "EmptyTag", "Comment", "Entity", "SerializeError", FRESH]


def run(ctx):
    r = ctx.r
    ce, repo = ctx.ce, ctx.repo
    r.explanation = ("Filter.__iter__'s loop body is decided for every token type, preserve depth in {0, 1, 2}, element in "
                     "{a preserve element, another element} and data in {empty, white space, mixed}; SPACES_REGEX is parsed "
                     "with re._parser; the preserve set is evaluated and compared.")
    r.not_decided = NOT_DECIDED
    r.rule("R17.1", "each token is yielded once, unchanged unless it is text outside a preserved element; depth counter rule", floor=100)
    r.rule("R17.2", "collapsing pattern = [five HTML white-space characters]+ -> one space", floor=3)
    r.rule("R17.3", "preserve set = {pre, textarea} + raw-text elements", floor=1)
    f = repo.func(REL, "Filter.__iter__")
    cls = repo.cls(REL, "Filter")
    mod = f.module
    body = [s for s in f.node.body if not (isinstance(s, ast.Expr) and isinstance(s.value, ast.Constant))]
    loops = [s for s in body if isinstance(s, ast.For)]
    if not (len(loops) == 1 and body[-1] is loops[0] and norm(loops[0].iter) == "base.Filter.__iter__(self)" and isinstance(loops[0].target, ast.Name)
            and all(isinstance(s, ast.Assign) and len(s.targets) == 1 and isinstance(s.targets[0], ast.Name) and isinstance(s.value, ast.Constant) for s in body[:-1])):
        raise AnalysisError("whitespace Filter.__iter__ is not `<constant initialisations>; for token in base.Filter.__iter__(self): ...`")
    init_env = {s.targets[0].id: s.value.value for s in body[:-1]}
    tok = loops[0].target.id
    preserve_set = ce.eval(cls.assigns["spacePreserveElements"], mod)
    import re as _re
    pat_src = None
    for st in mod.tree.body:
        if isinstance(st, ast.Assign) and norm(st.targets[0]) == "SPACES_REGEX" and isinstance(st.value, ast.Call) and norm(st.value.func) == "re.compile":
            pat_src = ce.try_eval(st.value.args[0], mod)
    spaces_re = _re.compile(pat_src) if isinstance(pat_src, str) else None
    helper = mod.functions.get("collapse_spaces")
    helper_plain = helper is not None and [norm(x) for x in helper.node.body if not isinstance(x, ast.Expr)] == ["return SPACES_REGEX.sub(' ', %s)" % helper.params()[0]]

    def expr_hook(node, env):
        if norm(node) == "self.spacePreserveElements":
            return preserve_set
        if isinstance(node, ast.Call) and spaces_re is not None:
            fn = norm(node.func)
            if fn == "collapse_spaces" and helper_plain and len(node.args) == 1:
                return spaces_re.sub(" ", ce.eval(node.args[0], mod, env))
            if fn == "SPACES_REGEX.sub" and len(node.args) == 2:
                return spaces_re.sub(ce.eval(node.args[0], mod, env), ce.eval(node.args[1], mod, env))
        return NotImplemented
    from ..repo import inline_simple_calls
    loop_body = [inline_simple_calls(mod, s, cls=cls) for s in loops[0].body]
    html_ns = ce.const("constants.py", "namespaces")["html"]

    def run_stream(tokens):
        """feed the tokens through the loop body; returns ([(identity index or None, snapshot)], final env) or raises"""
        env = dict(init_env)
        env["self"] = Opaque("self")
        outs = []

        def stmt_hook(st, o, interp):
            if isinstance(st, ast.Expr) and isinstance(st.value, ast.Yield):
                v = interp.eval_expr(st.value.value, o.env)
                idx = next((k for k, t in enumerate(tokens) if t is v), None)
                outs.append((idx, dict(v) if isinstance(v, dict) else v))
                return False
            if isinstance(st, ast.Assign) and len(st.targets) == 1 and isinstance(st.targets[0], ast.Subscript) and \
                    isinstance(st.targets[0].value, ast.Name) and st.targets[0].value.id == tok:
                keyv = interp.eval_expr(st.targets[0].slice, o.env)
                o.env[tok][keyv] = interp.eval_expr(st.value, o.env)
                return False
            return NotImplemented
        interp = MiniInterp(ce, mod, expr_hook=expr_hook, stmt_hook=stmt_hook)
        for t in tokens:
            env[tok] = t
            res = interp.run(loop_body, env)
            other = [e for e in res.effects]
            if other:
                raise AnalysisError("effect outside the token: %s" % other[0].text[:60])
            env = res.env
            env.pop("__flow__", None)
        return outs, env

    def collapse(text):
        return _re.sub("[\t\n\x0c\r ]+", " ", text)

    def judge(tokens, depth, key):
        # the preserve depth is produced by real tokens: `depth` start tags in front (the first one a preserving element), and
        # a probe behind (`a  b`) shows in which state the filter is left
        prefix = [{"type": "StartTag", "name": ("pre" if k == 0 else "div"), "namespace": html_ns, "data": {}} for k in range(depth)]
        tokens = prefix + list(tokens) + [{"type": "Characters", "data": "m  n"}]
        originals = [dict(t) for t in tokens]
        try:
            outs, env = run_stream(tokens)
        except AnalysisError as e:
            r.idiom("R17.1", False, key, f.where, "whitespace filter not decidable for this stream (%s)" % str(e)[:90])
            return
        except Exception as e:      # noqa: BLE001
            r.idiom("R17.1", False, key, f.where, "whitespace filter not decidable for this stream (%s: %s)" % (type(e).__name__, str(e)[:70]))
            return
        problems = []
        # expected: non-text tokens once each, in order, unchanged; between them the text, collapsed across token boundaries
        d = 0
        exp = []        # list of ("tok", index) / ("text", string)
        for k, t in enumerate(originals):
            ty = t["type"]
            if ty in ("Characters", "SpaceCharacters"):
                if exp and exp[-1][0] == "text":
                    exp[-1] = ("text", exp[-1][1] + t["data"], exp[-1][2])
                else:
                    exp.append(("text", t["data"], d))
            else:
                exp.append(("tok", k))
                if ty == "StartTag" and (d > 0 or t["name"] in preserve_set):
                    d += 1
                elif ty == "EndTag" and d > 0:
                    d -= 1
        exp = [(e[0], (collapse(e[1]) if e[2] == 0 else e[1])) if e[0] == "text" else e for e in exp]
        got = []
        for idx, snap in outs:
            if idx is None or not isinstance(snap, dict):
                problems.append("yields something that is not a token of the source")
                continue
            if originals[idx]["type"] in ("Characters", "SpaceCharacters"):
                if {k_: v for k_, v in snap.items() if k_ != "data"} != {k_: v for k_, v in originals[idx].items() if k_ != "data"}:
                    problems.append("a text token is changed in more than its data")
                if got and got[-1][0] == "text":
                    got[-1] = ("text", got[-1][1] + snap["data"])
                else:
                    got.append(("text", snap["data"]))
            else:
                if snap != originals[idx]:
                    problems.append("a %s token is modified" % originals[idx]["type"])
                got.append(("tok", idx))
        # an empty text group may be dropped or passed on empty
        norm_ = lambda seq: [x for x in seq if not (x[0] == "text" and x[1] == "")]      # noqa: E731
        if norm_(got) != norm_(exp) and not problems:
            problems.append("output %s, expected %s" % (norm_(got), norm_(exp)))
        r.check("R17.1", not problems, key, f.where, "whitespace filter, %s: %s" % (key, "; ".join(problems)), {"case": key},
                detail={"case": key})
    # namespace of the element token: the HTML namespace, None (trees built with namespaceHTMLElements=False) or absent
    # (hand-made streams); whether a *foreign* element called pre preserves white space is not part of the statement
    NS_CASES = (("html", html_ns), ("none", None), ("absent", "<absent>"))
    for ty in TYPES:
        for depth in (0, 1, 2):
            for name in ("pre", "div"):
                for ns_label, ns_val in (NS_CASES if ty == "StartTag" and depth == 0 and name == "pre" else NS_CASES[:1]):
                    for data in ("", " \n", "a  b"):
                        if ty == "SpaceCharacters" and data.strip():
                            continue
                        token = {"type": ty, "name": name, "data": data}
                        if ns_val != "<absent>":
                            token["namespace"] = ns_val
                        key = "type=%s depth=%d elem=%s%s data=%r" % (ty, depth, name, "" if ns_label == "html" else "[namespace %s]" % ns_label, data)
                        judge([token], depth, key)
    # white-space runs that reach the filter split over adjacent text tokens (the DOM back-end keeps one text node per
    # tokenizer token: `a &#32; b`), and runs on either side of a tag (which are separate runs)
    TEXTS = [("Characters", "a "), ("Characters", " b"), ("Characters", "a"), ("SpaceCharacters", " "), ("SpaceCharacters", "\n\t")]
    for depth in (0, 1):
        for a in TEXTS:
            for b in TEXTS:
                judge([{"type": a[0], "data": a[1]}, {"type": b[0], "data": b[1]}], depth,
                      "adjacent depth=%d %s %r + %s %r" % (depth, a[0], a[1], b[0], b[1]))
    for a, b, c in ((("Characters", "a "), ("SpaceCharacters", " "), ("Characters", " b")), (("SpaceCharacters", " "), ("SpaceCharacters", " "), ("SpaceCharacters", " "))):
        judge([{"type": x[0], "data": x[1]} for x in (a, b, c)], 0, "adjacent depth=0 %r + %r + %r" % (a[1], b[1], c[1]))
    def ST(nm):
        return {"type": "StartTag", "name": nm, "namespace": html_ns, "data": {}}

    def ET(nm):
        return {"type": "EndTag", "name": nm, "namespace": html_ns}

    def TX(d_):
        return {"type": "Characters", "data": d_}
    for outer, inner in (("pre", "pre"), ("pre", "textarea"), ("textarea", "b"), ("pre", "div")):
        judge([ST(outer), TX("a  b"), ST(inner), TX("c  d"), ET(inner), TX("x   y"), ET(outer), TX("p  q")], 0,
              "nested <%s><%s>: text after the inner end tag is still preserved, text after the outer one is not" % (outer, inner))
    judge([ET("pre"), TX("a  b")], 0, "stray </pre> outside a preserved element")
    # a white-space run ends at the tags of a preserving element too (the run before it does not swallow the one after it)
    for el in ("textarea", "script", "pre"):
        judge([TX("a "), ST(el), ET(el), TX(" (b)")], 0, "around an empty <%s>: 'a ' + ' (b)'" % el)
        judge([TX("a "), ST(el), TX("p  q "), ET(el), {"type": "SpaceCharacters", "data": " "}, TX("b")], 0, "around <%s>p  q </%s>: 'a ' + ' ' + 'b'" % (el, el))
    for mid in ({"type": "StartTag", "name": "b", "namespace": html_ns, "data": {}}, {"type": "Comment", "data": "c"}, {"type": "EndTag", "name": "b", "namespace": html_ns}):
        judge([{"type": "Characters", "data": "a "}, mid, {"type": "Characters", "data": " b"}], 0, "across %s: 'a ' + ' b'" % mid["type"])
        judge([{"type": "SpaceCharacters", "data": " "}, dict(mid), {"type": "SpaceCharacters", "data": " "}], 0, "across %s: ' ' + ' '" % mid["type"])
    # R17.2
    import re._parser as sp
    pat = None
    cs = None
    for st in mod.tree.body:
        if isinstance(st, ast.Assign) and norm(st.targets[0]) == "SPACES_REGEX" and isinstance(st.value, ast.Call) \
                and norm(st.value.func) == "re.compile":
            pat = ce.eval(st.value.args[0], mod)
    if not isinstance(pat, str):
        raise AnalysisError("SPACES_REGEX is not a constant pattern")
    parsed = sp.parse(pat)
    ok = len(parsed) == 1 and parsed[0][0] == sp.MAX_REPEAT and parsed[0][1][0] == 1 and parsed[0][1][1] == sp.MAXREPEAT \
        and len(parsed[0][1][2]) == 1 and parsed[0][1][2][0][0] == sp.IN
    chars = set()
    if ok:
        for op, arg in parsed[0][1][2][0][1]:
            if op == sp.LITERAL:
                chars.add(chr(arg))
            else:
                ok = False
    r.check("R17.2", ok, "regex-shape", REL, "SPACES_REGEX is not of the form [class]+ : %r" % pat, detail={"pattern": pat})
    r.check("R17.2", chars == set("\t\n\x0c\r "), "regex-class", REL,
            "the collapsing class is %s, not the five HTML white-space characters" % sorted(map(repr, chars)), detail={"class": sorted(map(repr, chars))})
    cs = repo.func(REL, "collapse_spaces")
    r.idiom("R17.2", [norm(s) for s in cs.node.body if not isinstance(s, ast.Expr)] == ["return SPACES_REGEX.sub(' ', %s)" % cs.params()[0]],
            "replacement", cs.where, "collapse_spaces is not SPACES_REGEX.sub(' ', text)")
    from . import wslint
    wslint.run(ctx, "R17.4")
    # R17.3
    raw = set(ce.const("constants.py", "rcdataElements"))
    r.check("R17.3", set(preserve_set) == {"pre", "textarea"} | raw, "preserve-set", cls.where,
            "white space is preserved in %s; expected pre, textarea and the raw-text elements %s" % (sorted(preserve_set), sorted(raw)),
            detail={"preserve": sorted(preserve_set)})


def thorough(ctx):
    from .. import selftest
    selftest.run(ctx, sys.modules[__name__])


def mutants():
    from ..selftest import TextMutant as T
    return [
        T("preserve-needs-html-ns", REL, "                    and (preserve or token[\"name\"] in self.spacePreserveElements):", "                    and (preserve or (token[\"name\"] in self.spacePreserveElements and token.get(\"namespace\", \"http://www.w3.org/1999/xhtml\") == \"http://www.w3.org/1999/xhtml\")):", "R17.1"),
        T("emptytag-counts", REL, "            if type == \"StartTag\" \\\n", "            if type in (\"StartTag\", \"EmptyTag\") \\\n", "R17.1"),
        T("comment-rewritten", REL, "            elif not preserve and type == \"Characters\":", "            elif not preserve and type in (\"Characters\", \"Comment\"):", "R17.1"),
        T("drop-empty", REL, "            yield token\n\n\ndef collapse_spaces", "            if token.get(\"data\", True):\n                yield token\n\n\ndef collapse_spaces", "R17.1"),
        T("regex-s", REL, "SPACES_REGEX = re.compile(\"[%s]+\" % spaceCharacters)", "SPACES_REGEX = re.compile(\"\\\\s+\")", "R17.2"),
        T("regex-star", REL, "SPACES_REGEX = re.compile(\"[%s]+\" % spaceCharacters)", "SPACES_REGEX = re.compile(\"[%s]\" % spaceCharacters)", "R17.2"),
        T("preserve-no-textarea", REL, "frozenset([\"pre\", \"textarea\"] + list(rcdataElements))", "frozenset([\"pre\"] + list(rcdataElements))", "R17.3"),
        T("adjacent-runs-not-joined", REL, "                if after_space:\n                    # The run of spaces began in the previous token\n                    continue\n", "", "R17.1"),
        T("space-state-survives-a-tag", REL, "            else:\n                after_space = False\n", "", "R17.1"),
        T("endtag-always-decrements", REL, "            elif type == \"EndTag\" and preserve:\n                preserve -= 1", "            elif type == \"EndTag\":\n                preserve -= 1", "R17.1"),
    ]


def preserving():
    from ..selftest import TextMutant as T
    return [
        T("set-union", REL, "frozenset([\"pre\", \"textarea\"] + list(rcdataElements))", "frozenset({\"textarea\", \"pre\"} | set(rcdataElements))", None),
    ]
