"""R13.4 (also C07.1): every omission the optional-tags filter allows is re-implied by the parser.

(a) `</T>` omitted before a start tag `<N>`: the handler for N in the phase where T is the current node closes T
(b) `</p>` omitted before an end tag `</X>` (X an element whose content model admits p): the end-tag handler of X
    generates implied end tags (closing the p) rather than tripping over the open p
(c) an omitted start tag (head, body, colgroup, tbody) is implied by the handler of the next element's start tag
"""
from __future__ import annotations

import ast

from ..repo import AnalysisError, norm, walk_no_nested
from ..parsermodel import PARSER_REL, ANY, NONAME
from ..partition import FRESH
from .c03 import model, graph

# element whose end tag is omitted -> (phase in which it is the current node, functions that close it)
CLOSERS = {
    "p": (["inBody"], {"InBodyPhase.endTagP"}),
    "li": (["inBody"], {"InBodyPhase.endTagListItem"}),
    "dd": (["inBody"], {"InBodyPhase.endTagListItem"}),
    "dt": (["inBody"], {"InBodyPhase.endTagListItem"}),
    "rt": (["inBody"], {"TreeBuilder.generateImpliedEndTags"}),
    "rp": (["inBody"], {"TreeBuilder.generateImpliedEndTags"}),
    "option": (["inSelect", "inBody"], {"InSelectPhase.startTagOption", "InSelectPhase.startTagOptgroup", "InBodyPhase.endTagOther"}),
    "optgroup": (["inSelect"], {"InSelectPhase.startTagOptgroup"}),
    "thead": (["inTableBody"], {"InTableBodyPhase.endTagTableRowGroup"}),
    "tbody": (["inTableBody"], {"InTableBodyPhase.endTagTableRowGroup"}),
    "tfoot": (["inTableBody"], {"InTableBodyPhase.endTagTableRowGroup"}),
    "tr": (["inRow"], {"InRowPhase.endTagTr"}),
    "td": (["inCell"], {"InCellPhase.endTagTableCell"}),
    "th": (["inCell"], {"InCellPhase.endTagTableCell"}),
}

# elements whose content model admits a p child (flow containers and transparent elements), with the phase in which
# their end tag is seen while the p is open
CAN_CONTAIN_P = {
    "address": "inBody", "article": "inBody", "aside": "inBody", "blockquote": "inBody", "details": "inBody",
    "dialog": "inBody", "div": "inBody", "fieldset": "inBody", "figcaption": "inBody", "figure": "inBody",
    "footer": "inBody", "header": "inBody", "main": "inBody", "nav": "inBody", "section": "inBody", "form": "inBody",
    "li": "inBody", "dd": "inBody", "dt": "inBody", "object": "inBody", "caption": "inCaption", "td": "inCell", "th": "inCell",
    "a": "inBody", "ins": "inBody", "del": "inBody", "map": "inBody", "audio": "inBody", "video": "inBody",
    "canvas": "inBody", "noscript": "inBody",
}

# foreign elements inside which HTML content is parsed (HTML integration points): a p can be their last child, and their
# end tag then arrives while the (HTML) p is the current node, i.e. it is handled by the in-body end-tag rules
FOREIGN_PARENTS_OF_P = {"desc": "svg", "title": "svg", "foreignObject": "svg", "annotation-xml": "mathml"}

# next-element names that cannot conformingly be the first child of body (no finding is claimed for them)
BODY_FIRST_CHILD_NONCONFORMING = {"base", "basefont", "bgsound", "noframes", "title", "head", "frameset", "body", "html",
                                  "command"}


def _reach(edges, roots):
    seen, work = set(roots), list(roots)
    while work:
        k = work.pop()
        for m in edges.get(k, ()):
            if m not in seen:
                seen.add(m)
                work.append(m)
    return seen


def run(ctx):
    from .c13 import tables
    r = ctx.r
    ce = ctx.ce
    pm = model(ctx)
    nodes, edges, sites, ents = graph(ctx)
    fs, fe, names_s, tab_s, names_e, tab_e = tables(ctx)
    void = ce.const("constants.py", "voidElements")
    r.rule("R13.4a", "end tag omitted before a start tag: that start tag's handler closes the element", floor=40)
    r.rule("R13.4b", "</p> omitted before an end tag: that end tag's handler generates implied end tags", floor=25)
    r.rule("R13.4c", "omitted start tag is implied by the handler of the next element", floor=8)
    stopmap = None
    f_li = ctx.repo.func(PARSER_REL, "InBodyPhase.startTagListItem")
    stopmap = ce.local_env(f_li.node, f_li.module).get("stopNamesMap")
    if not isinstance(stopmap, dict):
        raise AnalysisError("startTagListItem.stopNamesMap is not a constant mapping")
    implied = None
    for n in ast.walk(ctx.repo.func("treebuilders/base.py", "TreeBuilder.generateImpliedEndTags").node):
        if isinstance(n, ast.Compare) and isinstance(n.ops[0], ast.In):
            v = ce.try_eval(n.comparators[0], ctx.repo.module("treebuilders/base.py"))
            if isinstance(v, (set, frozenset)) and "dd" in v:
                implied = v
    if implied is None:
        raise AnalysisError("implied-end-tag set not found")

    # ---- (a)
    for (tag, nty, nname, pv), v in sorted(tab_e.items(), key=repr):
        if not v or nty != "StartTag" or tag not in CLOSERS or nname is None:
            continue
        if nname in void:
            continue      # void elements reach the filter as EmptyTag tokens (C11), never as StartTag
        if nname == FRESH:
            label = "<any other element>"
        else:
            label = nname
        phases, closers = CLOSERS[tag]
        ok_all, why = True, []
        for pk in phases:
            h, how = pm.handler(pm.phases[pk], "StartTag", nname if nname in pm.table_names else FRESH)
            if h is None:
                ok_all = False
                why.append("no handler in %s" % pk)
                continue
            ctxname = nname if nname in pm.table_names else FRESH
            rs = _reach(edges, [(h.fq, ctxname)])
            hit = {nodes[k][0].qual for k in rs} & closers
            ok = bool(hit)
            if ok and tag in ("li", "dd", "dt"):
                ok = nname in stopmap and tag in stopmap[nname]
            if ok and tag in ("rt", "rp"):
                ok = tag in implied and h.qual != "InBodyPhase.startTagOther"
            if tag == "option" and pk == "inBody":
                # in body an option is closed by startTagOpt only
                ok = h.qual == "InBodyPhase.startTagOpt"
            if not ok:
                ok_all = False
                why.append("%s -> %s does not close <%s>" % (pk, h.qual, tag))
        r.check("R13.4a", ok_all, "(%s,%s)" % (tag, label), fe.where,
                "the filter omits </%s> before <%s>, but the parser's handler for <%s> does not close the open %s (%s): the "
                "%s element is nested inside it" % (tag, label, label, tag, "; ".join(why), label),
                {"omitted": tag, "next": label}, detail={"omitted": tag, "next": label})

    # ---- (b)
    p_before_end = any(v and tag == "p" and nty == "EndTag" for (tag, nty, nname, pv), v in tab_e.items())
    if p_before_end:
        for x, pk in sorted(CAN_CONTAIN_P.items()):
            h, how = pm.handler(pm.phases[pk], "EndTag", x if x in pm.table_names else FRESH)
            if h is None:
                raise AnalysisError("no end-tag handler for %s in %s" % (x, pk))
            good = _implies_p(ctx, pm, h, x, implied)
            r.check("R13.4b", good, "p-before-end:%s" % x, fe.where,
                    "the filter omits </p> before </%s>, but %s does not generate implied end tags: with the p still open the "
                    "end tag is mis-handled (<%s><p>x</p></%s>z does not round-trip)" % (x, h.qual, x, x),
                    {"end_tag": x, "handler": h.qual}, detail={"end_tag": x, "handler": h.qual})
        foreign_parent_cases(ctx, "R13.4b")
    else:
        r.ok("R13.4b", "p-before-end:<none>", fe.where)

    # ---- (c)
    starts = {}
    for (tag, nty, nname, pv), v in tab_s.items():
        if v and nname is not None and ((nty == "StartTag" and nname not in void) or (nty == "EmptyTag" and nname in void)):
            starts.setdefault(tag, set()).add(nname)
    imply = {
        "head": ("beforeHead", lambda quals: "BeforeHeadPhase.startTagHead" in quals, {"html", "head"}),
        "body": ("afterHead", lambda quals: "AfterHeadPhase.anythingElse" in quals, BODY_FIRST_CHILD_NONCONFORMING),
        "colgroup": ("inTable", lambda quals: "InTablePhase.startTagColgroup" in quals, set()),
        "tbody": ("inTable", lambda quals: "InTablePhase.startTagRowGroup" in quals, set()),
    }
    for tag, (pk, pred, skip) in imply.items():
        for nname in sorted(starts.get(tag, ())):
            if nname in skip:
                continue
            cn = nname if nname in pm.table_names else FRESH
            h, how = pm.handler(pm.phases[pk], "StartTag", cn)
            rs = _reach(edges, [(h.fq, cn)])
            # only calls made while handling this token count (not what happens after the token is handed back)
            quals = {nodes[k][0].qual for k in rs}
            label = "<any other element>" if nname == FRESH else nname
            r.check("R13.4c", pred(quals), "(%s,%s)" % (tag, label), fs.where,
                    "the filter omits <%s> before <%s>, but in the %s phase the handler %s does not create the %s element "
                    "first" % (tag, label, pk, h.qual, tag), {"omitted": tag, "next": label},
                    detail={"omitted_start": tag, "next": label, "handler": h.qual})


def foreign_parent_cases(ctx, rid, only_namespaces=None):
    """`</p>` omitted before the end tag of a foreign integration point (<svg><desc><p>x</p></desc>): on re-parse that end tag
    is handled in the in-body mode with the HTML p as current node; unless its handler generates implied end tags it is
    ignored at the special element p, the foreign parent stays open and following siblings are parsed in a different context."""
    r = ctx.r
    pm = model(ctx)
    from .c13 import tables
    fs, fe, names_s, tab_s, names_e, tab_e = tables(ctx)
    implied = None
    for n in ast.walk(ctx.repo.func("treebuilders/base.py", "TreeBuilder.generateImpliedEndTags").node):
        if isinstance(n, ast.Compare) and isinstance(n.ops[0], ast.In):
            v = ctx.ce.try_eval(n.comparators[0], ctx.repo.module("treebuilders/base.py"))
            if isinstance(v, (set, frozenset)) and "dd" in v:
                implied = v
    p_before_end = any(v and tag == "p" and nty == "EndTag" for (tag, nty, nname, pv), v in tab_e.items())
    hip = {name for ns, name in ctx.ce.const("constants.py", "htmlIntegrationPointElements")}
    for x, nsk in sorted(FOREIGN_PARENTS_OF_P.items()):
        if x not in hip or (only_namespaces is not None and nsk not in only_namespaces):
            continue
        h, how = pm.handler(pm.phases["inBody"], "EndTag", x.lower() if x.lower() in pm.table_names else FRESH)
        good = (not p_before_end) or (h is not None and _implies_p(ctx, pm, h, x.lower(), implied or set()))
        r.check(rid, good, "p-before-end:%s %s" % (nsk, x), fe.where,
                "the filter omits </p> before </%s> (a %s integration point); the parser handles that end tag with %s, which does not "
                "generate implied end tags: with the p still open the end tag is ignored, the %s element stays open and what follows "
                "is parsed inside it (<%s><%s><p>x</p></%s>y does not round-trip)" % (
                    x, nsk, h.qual if h else "?", x, "svg" if nsk == "svg" else "math", x, x),
                {"end_tag": x, "namespace": nsk}, detail={"end_tag": x, "handler": h.qual if h else None})


def _implies_p(ctx, pm, h, x, implied):
    """the handler calls generateImpliedEndTags (not excluding p) outside any walk over the stack of open elements"""
    if "p" not in implied:
        return False
    for n in walk_no_nested(h.node):
        if isinstance(n, ast.Call) and isinstance(n.func, ast.Attribute) and n.func.attr == "generateImpliedEndTags":
            arg = n.args[0] if n.args else next((k.value for k in n.keywords if k.arg == "exclude"), None)
            if isinstance(arg, ast.Constant) and arg.value == "p":
                continue
            # inside `for node in ...openElements...`?
            inside = False
            for anc in ast.walk(h.node):
                if isinstance(anc, (ast.For, ast.While)) and any(y is n for y in ast.walk(anc)) and \
                        "openElements" in norm(anc.iter if isinstance(anc, ast.For) else anc.test):
                    inside = True
            if not inside:
                return True
    # delegation to another handler with the same token
    for n in walk_no_nested(h.node):
        if isinstance(n, ast.Call) and isinstance(n.func, ast.Attribute) and n.func.attr == "processEndTag" and n.args \
                and isinstance(n.args[0], ast.Name):
            for g, gn in pm.resolve_call(h, n, x):
                if g is not None and g is not h and _implies_p(ctx, pm, g, x, implied):
                    return True
    return False
