"""R13.4 (omission vs. implied end/start in the parser) -- filled in with the dispatcher model."""


def run(ctx):
    return
