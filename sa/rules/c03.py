"""C03 -- parsing is total; the document skeleton is html > head, body|frameset.

C03.1 CONSTKEY   constant-key subscripts into constant mappings name existing keys
C03.2 RECURSION  the resolved call graph of tree construction has no recursion whose depth grows with the input
C03.3 PROGRESS   tokenizer epsilon-graph acyclic, EOF graph ends in STOP (from the tokenizer model)
C03.4 SKELETON   insertRoot has one caller; html/head/body start tags reach insertElement only in the
                 handlers the standard names; no character insertion in the phases above <body>
C03.5 POP GUARD  every pop loop on the stack of open elements is guarded; deep indexes are guarded
C03.6 DISPATCH   every phase has a handler for every token kind (C01.2 c, d)
"""
from __future__ import annotations

import ast
import sys

from ..repo import AnalysisError, attr_chain, norm, walk_no_nested
from ..consteval import NotConstant
from ..parsermodel import ParserModel, sccs, ANY, NONAME, PARSER_REL
from ..partition import FRESH
from ..cfg import CFG, node_calls

LEVEL = "other"
TECHNIQUE = ('resolved dispatcher call graph with token-name propagation (SCC / reachability), constant-key evaluation, CFG dominance of scope tests over pop loops and evidence classes for single pops, tokenizer epsilon-graph acyclicity; interprocedural must-progress summaries (least fixpoint) for reprocessing hand-backs; insertion-mode transition table; abstract interpretation of the pre-scan cursor (position-below-length typestate, per-function summaries, try/except brackets) for escaping StopIteration / ValueError; recursion of standard-library callees read off their source')
CLAIM = ('Over all code (not sampled inputs): every constant key used to index a constant table exists (no '
         'KeyError on a rare path); the only recursion in tree construction is the bounded '
         'endTagP/startTagCloseP pair (no input-depth recursion -> no RecursionError); every loop that pops '
         'the stack of open elements is dominated by the scope test / sentinel that makes it stop before the '
         'root (no IndexError); every phase handles every token kind; html/head/body elements are created only '
         'by the handlers the standard names and no phase above <body> inserts non-white-space text; the '
         'tokenizer cannot loop without consuming input (epsilon-graph acyclic, EOF chain reaches STOP, every '
         'scanning loop has an end-of-input exit); a node detached while on the stack leaves the stack; None- '
         'initialised locals are not dereferenced where they can be None; a handler that hands its token back '
         'has changed the insertion mode or the stack first. A hand-back that follows only a call which may '
         "have done nothing is conditional; insertion-mode switches are the standard's (handlers rely on the "
         'skeleton their mode implies); name tests in resetInsertionMode apply to HTML elements only; a '
         'possibly-None result is not passed where it is dereferenced. int() of input text is guarded against '
         "CPython's digit limit; a name test on the current node that leads to an innerHTML assertion also "
         'tests the namespace in every phase in which the current node can be foreign; HTML-ness is tested '
         'against tree.defaultNamespace; the DOM back-end checks the real parent before removing a child. Neither '
         'StopIteration (the pre-scan cursor running off its buffer) nor ValueError (bytes.index) can leave '
         'EncodingParser.getEncoding, for any cursor position reachable through the calls as written.'
         " A single pop of the stack of open elements has evidence that the current node is not the root (just inserted / scope test, also through a verified helper / name test / mode invariant); within one insertion mode an element is looked up in one kind of scope; the DOM back-end calls no minidom method that recurses over the depth of the tree (read off the standard library's source)."
         " Every store that enters a mode whose handlers pop on the mode's current-node belief establishes it (insert-then-enter, or pop of the nested mode's node); the reset table names no such mode.")
NOT_DECIDED = ("unreachability of the `assert ...innerHTML` sites in document mode, termination of the tree-construction "
               "reprocessing loop, exceptions raised inside xml.dom.minidom / ElementTree, wall-clock; the TypeError the "
               "pre-scan cursor raises for a negative position (no lower-bound fact is tracked).")
MODULES = ["html5parser.py", "treebuilders/base.py", "treebuilders/etree.py", "treebuilders/dom.py", "_tokenizer.py",
           "_inputstream.py", "constants.py", "_utils.py"]

# SCCs allowed in the tree-construction call graph, each with the reason its depth is bounded
ALLOWED_SCCS = {
    frozenset(["InBodyPhase.endTagP", "InBodyPhase.startTagCloseP"]):
        "endTagP without a p in button scope inserts one via startTagCloseP (whose own scope test is then false) and "
        "re-enters endTagP once with the p in scope: depth <= 2, independent of the input",
}

# phases whose current node can be html/head (text may not be inserted there)
ABOVE_BODY = ["initial", "beforeHtml", "beforeHead", "inHead", "inHeadNoscript", "afterHead", "afterBody",
              "inFrameset", "afterFrameset", "afterAfterBody", "afterAfterFrameset"]


def model(ctx) -> ParserModel:
    return ctx.shared("parsermodel", lambda: ParserModel(ctx.repo, ctx.ce))


def graph(ctx):
    def build():
        pm = model(ctx)
        ents = pm.entries()
        roots = [(f, n) for f, n, _ in ents]
        for name in ("mainLoop", "_parse", "reset", "parse", "parseFragment", "resetInsertionMode"):
            roots.append((ctx.repo.func(PARSER_REL, "HTMLParser." + name), NONAME))
        return pm.build_graph(roots) + (ents,)
    return ctx.shared("parsergraph", build)


# ---------------------------------------------------------------------------- C03.1
def constkey(ctx):
    r = ctx.r
    repo, ce = ctx.repo, ctx.ce
    pm = model(ctx)
    nodes, edges, sites, ents = graph(ctx)
    names_reaching = {}
    for (fq, n) in nodes:
        names_reaching.setdefault(fq, set()).add(n)
    unjudged = []
    for f in repo.all_functions():
        mod = f.module
        if mod.rel.startswith("tests"):
            continue
        try:
            lenv = ce.local_env(f.node, mod)
        except Exception:
            lenv = {}
        cfg = None
        for n in walk_no_nested(f.node):
            if not (isinstance(n, ast.Subscript) and isinstance(n.ctx, ast.Load)):
                continue
            base = n.value
            label = None
            mapping = None
            ch = attr_chain(base)
            if isinstance(base, ast.Name):
                try:
                    v = ce.lookup(base.id, mod, lenv)
                except NotConstant:
                    v = None
                if isinstance(v, dict):
                    mapping, label = v, base.id
            elif ch and ch[-1] == "phases" and ch[:-1] in (["self"], ["self", "parser"]) and mod.rel == PARSER_REL:
                mapping, label = pm.phases, "phases"
            elif isinstance(base, ast.Attribute) and isinstance(base.value, ast.Name):
                try:
                    v = ce.eval(base, mod, lenv)
                except NotConstant:
                    v = None
                if isinstance(v, dict):
                    mapping, label = v, norm(base)
            if mapping is None:
                continue
            where = "%s:%d" % (mod.rel, n.lineno)
            sl = n.slice
            keyrepr = norm(sl)
            ident = "%s::%s::%s[%s]" % (mod.rel, f.qual, label, keyrepr)
            try:
                kv = ce.eval(sl, mod, lenv)
                const = True
            except NotConstant:
                const = False
            if const:
                try:
                    ok = kv in mapping
                except TypeError:
                    ok = False
                r.check("C03.1", ok, ident, where, "constant key %r is not a key of %s: this path raises KeyError" % (kv, label),
                        {"key": kv, "mapping": label}, detail={"mapping": label, "key": kv})
                continue
            # token["name"] keys: the names that can reach this handler
            if keyrepr in ("token['name']",) and f.fq in names_reaching and mod.rel == PARSER_REL:
                guarded = _guarded_by_in(f, n, label)
                if guarded:
                    r.ok("C03.1", ident, where)
                    continue
                reach = names_reaching[f.fq]
                bad = sorted(str(x) for x in reach if x is None or x is ANY or x == FRESH or x not in mapping)
                r.check("C03.1", not bad, ident, where,
                        "%s[token['name']] is reached with names outside the mapping: %s" % (label, bad[:5]),
                        {"names": bad}, detail={"mapping": label, "names_reaching": sorted(str(x) for x in reach)})
                continue
            # a local name whose every assignment is a constant
            if isinstance(sl, ast.Name):
                vals = _all_constant_assignments(f, sl.id, ce, mod)
                if vals is not None:
                    bad = [v for v in vals if v not in mapping]
                    r.check("C03.1", not bad, ident, where, "%s[%s] can be %r which is not a key" % (label, sl.id, bad),
                            {"values": bad})
                    continue
                if sl.id in f.params():
                    res = _param_call_sites(repo, f, sl.id, ce)
                    if res is not None:
                        bad = [v for v in res if v not in mapping]
                        r.check("C03.1", not bad, ident, where,
                                "%s[%s]: call sites pass %r which is not a key" % (label, sl.id, bad), {"values": bad},
                                detail={"mapping": label, "call_site_values": sorted(map(str, set(res)))})
                        continue
            if _guarded_by_in(f, n, label):
                r.ok("C03.1", ident, where)
                continue
            if isinstance(sl, ast.Subscript) and isinstance(sl.value, ast.Name):
                try:
                    inner = ce.lookup(sl.value.id, mod, lenv)
                except NotConstant:
                    inner = None
                if isinstance(inner, dict):
                    bad = sorted(v for v in inner.values() if v not in mapping)
                    r.check("C03.1", not bad, ident, where,
                            "values of %s used as keys of %s include %s, which is not a key" % (sl.value.id, label, bad),
                            {"values": bad})
                    continue
            unjudged.append("%s %s[%s]" % (where, label, keyrepr))
    r.extra["constkey_dynamic_unjudged"] = unjudged


def _guarded_by_in(f, sub, label) -> bool:
    """the subscript is dominated by `<key> in <mapping>` (syntactic: an enclosing If or an
    earlier `if key not in m: return`)"""
    key = norm(sub.slice)
    want = {"%s in %s" % (key, label)}
    cfg = CFG(f.node)
    targets = cfg.locate(sub)
    if not targets:
        return False
    return all(cfg.dominated_by(target, lambda n, lab: n.kind == "test" and (
        (lab is True and norm(n.ast) in want) or
        (lab is False and norm(n.ast) == "%s not in %s" % (key, label)))) for target in targets)


def _all_constant_assignments(f, name, ce, mod):
    vals = []
    for n in ast.walk(f.node):
        if isinstance(n, ast.Assign) and any(isinstance(t, ast.Name) and t.id == name for t in n.targets):
            try:
                vals.append(ce.eval(n.value, mod))
            except NotConstant:
                return None
        elif isinstance(n, (ast.For, ast.AugAssign)):
            t = n.target
            if any(isinstance(x, ast.Name) and x.id == name for x in ast.walk(t)):
                return None
    if name in f.params():
        return None
    return vals or None


def _param_call_sites(repo, f, pname, ce):
    """values passed for parameter `pname` at every call site `<anything>.fname(...)` / fname(...) in
    the package; None if some site passes a non-constant."""
    params = f.params()
    has_self = f.cls is not None
    idx = params.index(pname) - (1 if has_self else 0)
    a = f.node.args
    defaults = dict(zip([x.arg for x in a.args][-len(a.defaults):], a.defaults)) if a.defaults else {}
    vals = []
    found = 0
    for g in repo.all_functions():
        for c in walk_no_nested(g.node):
            if not isinstance(c, ast.Call):
                continue
            fn = c.func
            nm = fn.attr if isinstance(fn, ast.Attribute) else fn.id if isinstance(fn, ast.Name) else None
            if nm != f.name:
                continue
            found += 1
            arg = None
            if idx < len(c.args):
                arg = c.args[idx]
            else:
                for k in c.keywords:
                    if k.arg == pname:
                        arg = k.value
            if arg is None:
                arg = defaults.get(pname)
                if arg is None:
                    return None
            try:
                vals.append(ce.eval(arg, g.module, ce.local_env(g.node, g.module)))
            except NotConstant:
                # pass-through of the caller's own parameter of the same name with the same judgement
                if isinstance(arg, ast.Name) and arg.id in g.params():
                    sub = _param_call_sites(repo, g, arg.id, ce)
                    if sub is None:
                        return None
                    vals.extend(sub)
                elif isinstance(arg, ast.Name):
                    sub = _all_constant_assignments(g, arg.id, ce, g.module)
                    if sub is None:
                        return None
                    vals.extend(sub)
                else:
                    return None
    if a.defaults and pname in defaults:
        try:
            vals.append(ce.eval(defaults[pname], f.module))
        except NotConstant:
            return None
    return vals if found else None


# ---------------------------------------------------------------------------- C03.2
def recursion(ctx):
    r = ctx.r
    nodes, edges, sites, ents = graph(ctx)
    # collapse the token-name context for reporting; keep it for precision of the SCC computation
    comps = sccs(edges)
    seen = set()
    for comp in comps:
        funcs = frozenset(k[0].split("::", 1)[1] for k in comp)
        if funcs in seen:
            continue
        seen.add(funcs)
        key = "SCC{%s}" % ",".join(sorted(funcs))
        f0 = nodes[comp[0]][0]
        core = next((c for c in ALLOWED_SCCS if c <= funcs), None)
        helpers_ok = False
        if core is not None and funcs != core:
            # extra members (helpers extracted from the core) are fine if the bounding argument still holds:
            # (1) without endTagP the component is acyclic, (2) every in-component call made by endTagP is under the
            # negative scope test, (3) every in-component call of endTagP made by another member is under the positive one
            pivot = "InBodyPhase.endTagP"
            rest = {k: {m for m in edges.get(k, ()) if m in comp_set(comp) and m[0].split("::", 1)[1] != pivot}
                    for k in comp if k[0].split("::", 1)[1] != pivot}
            acyclic = not sccs(rest)
            ok2 = ok3 = True
            for k in comp:
                fk = nodes[k][0]
                qn = fk.qual
                in_comp_callees = {nodes[m][0].name for m in edges.get(k, ()) if m in comp_set(comp)}
                for callee in in_comp_callees:
                    if qn == pivot:
                        ok2 = ok2 and _call_under_scope_test(fk, callee, positive=False)
                    elif callee == "endTagP":
                        ok3 = ok3 and _call_under_scope_test(fk, callee, positive=True)
            helpers_ok = acyclic and ok2 and ok3
        if funcs in ALLOWED_SCCS or helpers_ok:
            r.ok("C03.2", key, f0.where, detail={"cycle": sorted(funcs), "bounded_because": ALLOWED_SCCS[core if core else funcs]})
        else:
            r.bad("C03.2", key, f0.where,
                  "recursion in tree construction that is not in the allow-table: %s (depth can grow with the input -> "
                  "RecursionError)" % sorted(funcs), {"cycle": sorted(funcs)})
    # the allowed SCC must still have its bounding structure
    pm = model(ctx)
    ip = ctx.repo.func(PARSER_REL, "InBodyPhase.endTagP")
    cp = ctx.repo.func(PARSER_REL, "InBodyPhase.startTagCloseP")
    ok1 = _call_under_scope_test(ip, "startTagCloseP", positive=False) and _call_under_scope_test(ip, "endTagP", positive=False)
    ok2 = _call_under_scope_test(cp, "endTagP", positive=True)
    r.check("C03.2", ok1 and ok2, "bound:endTagP/startTagCloseP", ip.where,
            "the mutual recursion endTagP <-> startTagCloseP is no longer guarded by complementary "
            "elementInScope('p', button) tests", detail={"guards": "complementary scope tests"})
    r.ok("C03.2", "graph", PARSER_REL, detail={"nodes": len(nodes), "edges": sum(len(v) for v in edges.values()),
                                                  "resolution": dict(pm.stats)})
    r.extra["callgraph"] = {"nodes": len(nodes), "edges": sum(len(v) for v in edges.values()), "entries": len(ents),
                            "resolution": dict(pm.stats), "unresolved": pm.unresolved[:10]}
    if pm.unresolved:
        raise AnalysisError("unresolved calls on repository receivers: %s" % pm.unresolved[:5])


def comp_set(comp):
    return set(comp)


def _is_scope_test(n, name=None):
    a = n.ast
    if n.kind != "test" or not isinstance(a, ast.Call) or not isinstance(a.func, ast.Attribute):
        return False
    if a.func.attr != "elementInScope":
        return False
    if name is None:
        return True
    return bool(a.args) and norm(a.args[0]) == name


def _call_under_scope_test(f, callee, positive) -> bool:
    cfg = CFG(f.node)
    targets = [n for n in cfg.stmt_nodes() if any(isinstance(c.func, ast.Attribute) and c.func.attr == callee
                                                  for c in node_calls(n))]
    if not targets and f.cls is not None:
        # the guarded call may have been extracted into a helper of the same class
        for n in cfg.stmt_nodes():
            for c in node_calls(n):
                if isinstance(c.func, ast.Attribute) and isinstance(c.func.value, ast.Name) and c.func.value.id == "self":
                    h = f.cls.find_method(c.func.attr)
                    if h is not None and h is not f and _call_under_scope_test(h, callee, positive):
                        return True
    if not targets:
        return False
    return all(cfg.dominated_by(t, lambda n, lab: _is_scope_test(n, "'p'") and lab is positive) for t in targets)


# ---------------------------------------------------------------------------- C03.4
def skeleton(ctx):
    r = ctx.r
    repo = ctx.repo
    pm = model(ctx)
    nodes, edges, sites, ents = graph(ctx)

    # (a) insertRoot callers
    callers = set()
    for f in repo.all_functions():
        for c in walk_no_nested(f.node):
            if isinstance(c, ast.Call) and isinstance(c.func, ast.Attribute) and c.func.attr == "insertRoot":
                callers.add(f.qual)
    r.check("C03.4", callers == {"BeforeHtmlPhase.insertHtmlElement"}, "insertRoot-callers", PARSER_REL,
            "insertRoot is called from %s (expected only BeforeHtmlPhase.insertHtmlElement)" % sorted(callers),
            {"callers": sorted(callers)}, detail={"callers": sorted(callers)})
    f_ins = repo.func(PARSER_REL, "BeforeHtmlPhase.insertHtmlElement")
    arg_ok = any(isinstance(c, ast.Call) and isinstance(c.func, ast.Attribute) and c.func.attr == "insertRoot"
                 and c.args and norm(c.args[0]).startswith("impliedTagToken('html'")
                 for c in walk_no_nested(f_ins.node))
    r.check("C03.4", arg_ok, "insertRoot-arg", f_ins.where, "the root is not created from an implied html start tag")

    # (b) insertion sites of html/head/body start tags
    expected = {
        "html": set(),
        "head": {"BeforeHeadPhase.startTagHead"},
        "body": {"AfterHeadPhase.startTagBody", "AfterHeadPhase.anythingElse"},
    }
    # reachable node set per start-tag entry
    def reach(roots):
        seen, work = set(roots), list(roots)
        while work:
            k = work.pop()
            for m in edges.get(k, ()):
                if m not in seen:
                    seen.add(m)
                    work.append(m)
        return seen
    for name, exp in expected.items():
        roots = []
        for key, c in pm.phases.items():
            h, how = pm.handler(c, "StartTag", name)
            if h is not None:
                roots.append((h.fq, name))
        rs = reach(roots)
        found = {}
        for k in nodes:
            f, n = nodes[k]
            for call, ks in sites.get(k, ()):
                if not (isinstance(call.func, ast.Attribute) and call.func.attr in ("insertElement", "insertRoot")):
                    continue
                if pm.expr_type(f, call.func.value, None) != ("tree",):
                    continue
                a = call.args[0] if call.args else None
                tn = pm.token_name_of_arg(f, a, n) if a is not None else None
                implied = isinstance(a, ast.Call)
                if (implied and tn == name) or (not implied and k in rs and (tn == name or (tn is ANY and n == name))):
                    if call.func.attr == "insertRoot":
                        continue
                    # foreign-content exemption: namespace store dominates the insert
                    if f.qual == "InForeignContentPhase.processStartTag":
                        cfg = CFG(f.node)
                        tgt = cfg.locate(call)
                        stores = lambda x: x.kind == "stmt" and isinstance(x.ast, ast.Assign) and \
                            norm(x.ast.targets[0]) == "token['namespace']" and "namespace" in norm(x.ast.value) \
                            and "defaultNamespace" not in norm(x.ast.value)  # noqa: E731
                        if tgt and not cfg.must_precede(tgt, stores):
                            continue
                    found.setdefault(f.qual, "%s:%d" % (f.module.rel, call.lineno))
        extra = set(found) - exp
        missing = exp - set(found)
        r.check("C03.4", not extra and not missing, "insert-sites:%s" % name, PARSER_REL,
                "a <%s> start tag can create an element in %s (expected %s)%s" % (
                    name, sorted(found.items()), sorted(exp), "; missing: %s" % sorted(missing) if missing else ""),
                {"found": found, "expected": sorted(exp)}, detail={"name": name, "sites": found})

    # (c) no text insertion above <body>
    tb_insert = {m.fq for c in pm.tree_classes for nm, m in c.methods.items() if nm == "insertText"}
    node_insert = {m.fq for c in pm.node_classes for nm, m in c.methods.items() if nm == "insertText"}
    for key in ABOVE_BODY:
        c = pm.phases.get(key)
        if c is None:
            raise AnalysisError("phase %s vanished" % key)
        m = c.find_method("processCharacters")
        rs = reach([(m.fq, NONAME)])
        hits = sorted(k[0] for k in rs if k[0] in tb_insert or k[0] in node_insert)
        ws_only = None
        if hits:
            # the handler may pass the white space of the run on: decided by running it on a mixed run with a recording tree
            from ..classeval import ClassEval, Record
            inserted = []
            tree = Record(insertText=lambda data, parent=None: inserted.append(data), openElements=[Record(name="html")],
                          reconstructActiveFormattingElements=lambda: None)
            body_model = Record(processSpaceCharacters=lambda tok: inserted.append(tok["data"]),
                                processCharacters=lambda tok: inserted.append(tok["data"]))
            try:
                ClassEval(ctx.ce, ctx.repo.module(PARSER_REL), c, {"tree": tree, "parser": Record(parseError=lambda *a: None, phases={"inBody": body_model})},
                          repo=ctx.repo).call("processCharacters", [{"type": 1, "data": "a \tb\nc"}])
                ws_only = all(ch in "\t\n\x0c\r " for piece in inserted for ch in piece)
            except AnalysisError:
                ws_only = None
        r.idiom("C03.4", not hits or ws_only is True, "no-text:%s" % key, m.where,
                "processCharacters of phase %s can insert text (%s) and could not be run to see what it inserts" % (key, hits[:2]),
                wrong=[(ws_only is False or (ws_only is None and m.cls is c and len(m.node.body) <= 2),
                        "processCharacters of phase %s can insert text directly (%s): non-white-space text may end up under html/head" % (key, hits[:2]))],
                data={"reaches": hits}, detail={"phase": key, "handler": m.qual, "white_space_only": ws_only})


# ---------------------------------------------------------------------------- C03.5
def pop_guard(ctx):
    r = ctx.r
    repo = ctx.repo
    pm = model(ctx)
    funcs = [f for f in repo.module(PARSER_REL).all_functions] + \
            [f for f in repo.module("treebuilders/base.py").all_functions]
    for f in funcs:
        loops = [n for n in walk_no_nested(f.node) if isinstance(n, (ast.While,))]
        if not loops:
            continue
        cfg = None
        for lp in loops:
            inner = {id(x) for w in ast.walk(lp) if isinstance(w, ast.While) and w is not lp for x in ast.walk(w)}
            pops = [c for c in ast.walk(lp) if isinstance(c, ast.Call) and isinstance(c.func, ast.Attribute)
                    and c.func.attr == "pop" and (attr_chain(c.func.value) or [""])[-1] == "openElements"
                    and id(c) not in inner]
            if pops:
                # only pops that can repeat (lie on a CFG cycle) make this a pop loop
                cfg = cfg or CFG(f.node)
                rep = []
                for pc in pops:
                    for nd in cfg.locate(pc):
                        if nd.id in cfg.reach_forward([nd], lambda n: False):
                            rep.append(pc)
                pops = rep
            if not pops:
                continue
            cfg = cfg or CFG(f.node)
            key = "%s::%s::while %s" % (f.module.rel, f.qual, norm(lp.test)[:70])
            where = "%s:%d" % (f.module.rel, lp.lineno)
            verdict, why = _loop_guarded(cfg, f, lp, ctx.ce)
            msg = ("loop pops the stack of open elements without a dominating scope test / sentinel: it can pop the "
                   "root and raise IndexError (%s)" % why)
            # `while True:` whose exit test is a break inside the body: the guard is not in the loop header, the shape is not read
            header_less = isinstance(lp.test, ast.Constant) and any(isinstance(b, ast.Break) for b in ast.walk(lp))
            r.idiom("C03.5", verdict, key, where, msg, wrong=[(not verdict and not header_less, msg)], data={"loop": norm(lp.test)}, detail={"guard": why})
    # deep indexes
    for f in funcs:
        cfg = None
        for n in walk_no_nested(f.node):
            if isinstance(n, ast.Subscript) and (attr_chain(n.value) or [""])[-1] == "openElements" \
                    and isinstance(n.slice, (ast.Constant, ast.UnaryOp)):
                try:
                    idx = ctx.ce.eval(n.slice, f.module)
                except NotConstant:
                    continue
                if idx in (0, -1) or not isinstance(idx, int):
                    continue
                cfg = cfg or CFG(f.node)
                tgt = cfg.locate(n)
                key = "%s::%s::openElements[%d]" % (f.module.rel, f.qual, idx)
                where = "%s:%d" % (f.module.rel, n.lineno)
                def depth_test(nd, lab):
                    if nd.kind != "test":
                        return False
                    t = norm(nd.ast)
                    if lab is False and t.startswith("len(") and t.endswith("openElements) == 1"):
                        return True
                    if lab is True and ("openElements[-1].name ==" in t) and "'html'" not in t:
                        return True
                    return False
                ok = bool(tgt) and all(cfg.dominated_by(t, depth_test) for t in tgt)
                r.check("C03.5", ok, key, where,
                        "openElements[%d] is read without a dominating test that implies the stack is that deep" % idx,
                        detail={"index": idx})


def _loop_guarded(cfg, f, lp, ce=None):
    test = norm(lp.test)
    # local aliases of the current node's name: `name = self.openElements[-1].name`
    aliases = {}
    for n in ast.walk(f.node):
        if isinstance(n, ast.Assign) and len(n.targets) == 1 and isinstance(n.targets[0], ast.Name):
            aliases.setdefault(n.targets[0].id, []).append(norm(n.value))
    cur_alias = {k for k, v in aliases.items() if all(x.endswith("openElements[-1].name") for x in v)}
    for c in ast.walk(lp.test):
        if isinstance(c, ast.Compare) and len(c.ops) == 1 and isinstance(c.ops[0], ast.In) and \
                ((isinstance(c.left, ast.Name) and c.left.id in cur_alias) or norm(c.left).endswith("openElements[-1].name")):
            try:
                coll = ce.eval(c.comparators[0], f.module) if ce is not None else None
            except NotConstant:
                coll = None
            if coll is not None and "html" not in coll:
                # the conjunct must be necessary for the loop to continue (top-level `and`)
                top = lp.test.values if isinstance(lp.test, ast.BoolOp) and isinstance(lp.test.op, ast.And) else [lp.test]
                if any(c is t for t in top):
                    return True, "loop continues only while the current node's name is in a constant set without html"
    # sentinel by evaluation: with the root html element as the current node (name html, default namespace) the guard is false,
    # whatever way it is written (De Morgan, `not (.. and ..)`, aliases)
    if ce is not None:
        from ..partition import MiniInterp, Opaque

        def root_hook(node, local):
            t = norm(node)
            if t.endswith("openElements[-1].name") or (isinstance(node, ast.Name) and node.id in cur_alias):
                return "html"
            if t.endswith("openElements[-1].namespace") or t.endswith(".defaultNamespace"):
                return "<default namespace>"
            return NotImplemented
        try:
            if MiniInterp(ce, f.module, expr_hook=root_hook).eval_guard(lp.test, {"self": Opaque("self")}) is False:
                return True, "the loop guard is false when the current node is the root html element (evaluated)"
        except Exception:      # noqa: BLE001
            pass
    # sentinel in the loop guard: compares the current node's name with a set containing 'html'
    if "'html'" in test and ("not in" in test or "!=" in test):
        return True, "html sentinel in the loop guard"
    if "namespace != self.tree.defaultNamespace" in test:
        return True, "namespace sentinel: the root html element has the default namespace"
    # loop header node(s) in the CFG
    heads = [n for n in cfg.nodes if n.kind == "test" and n.ast is not None and
             any(n.ast is x for x in ast.walk(lp.test))]
    if not heads and isinstance(lp.test, ast.Constant):
        heads = [n for n in cfg.stmt_nodes() if n.ast is not None and any(n.ast is s or
                 any(x is n.ast for x in ast.walk(s)) for s in lp.body)][:1]
    if not heads:
        raise AnalysisError("cannot locate loop `while %s` of %s in the CFG" % (test, f.fq))
    # what is the loop looking for?
    sought = None
    m = None
    for side in ast.walk(lp):
        if isinstance(side, ast.Compare) and len(side.ops) == 1:
            l, rr = norm(side.left), norm(side.comparators[0])
            if l.endswith(".name") or l.endswith("pop()") or l in ("element", "node", "item.name"):
                sought = rr
                break
            if rr.endswith(".name"):
                sought = l
                break
    helper_subst = _scope_helpers(f)

    def positive_scope(nd, lab):
        if nd.kind != "test":
            return False
        a = nd.ast
        t = norm(a)
        # direct test
        if isinstance(a, ast.Call) and isinstance(a.func, ast.Attribute) and a.func.attr == "elementInScope":
            return lab is True
        # alias: inScope = self.tree.elementInScope(...)
        if isinstance(a, ast.Name) and a.id in _scope_aliases(f):
            return lab is True
        # boolean helper `return not elementInScope(..)` / `return elementInScope(..)`
        if isinstance(a, ast.Call) and isinstance(a.func, ast.Attribute) and a.func.attr in helper_subst:
            return lab is helper_subst[a.func.attr]
        if isinstance(a, ast.Name) and a.id in _helper_aliases(f, helper_subst):
            pol = _helper_aliases(f, helper_subst)[a.id]
            return lab is pol
        # membership of the sought node in the stack itself
        if isinstance(a, ast.Compare) and len(a.ops) == 1 and "openElements" in norm(a.comparators[0]):
            if isinstance(a.ops[0], ast.In):
                return lab is True
            if isinstance(a.ops[0], ast.NotIn):
                return lab is False
        return False
    if all(cfg.dominated_by(h, positive_scope) for h in heads):
        return True, "dominated by a positive scope / membership test"
    # the target comes from iterating the stack itself
    for anc in ast.walk(f.node):
        if isinstance(anc, ast.For) and "openElements" in norm(anc.iter) and any(x is lp for x in ast.walk(anc)):
            if sought is not None and isinstance(anc.target, ast.Name) and sought == anc.target.id:
                return True, "the node sought was taken from the stack by the enclosing for loop"
    if sought is not None:
        for n in ast.walk(f.node):
            if isinstance(n, ast.Assign) and isinstance(n.targets[0], ast.Name) and n.targets[0].id == sought \
                    and "openElements[" in norm(n.value):
                return True, "the node sought was read from the stack (%s)" % norm(n)[:60]
    return False, "sought=%s" % sought


def _scope_aliases(f):
    out = set()
    for n in ast.walk(f.node):
        if isinstance(n, ast.Assign) and isinstance(n.targets[0], ast.Name) and isinstance(n.value, ast.Call) \
                and isinstance(n.value.func, ast.Attribute) and n.value.func.attr == "elementInScope":
            out.add(n.targets[0].id)
    return out


def _scope_helpers(f):
    """boolean helpers of the same class whose body is `return [not] <elementInScope(...)>`
    -> {name: polarity of the call outcome that implies 'in scope'}"""
    out = {}
    if f.cls is None:
        return out
    for c in f.cls.mro():
        for nm, m in c.methods.items():
            body = [s for s in m.node.body if not (isinstance(s, ast.Expr) and isinstance(s.value, ast.Constant))]
            if len(body) == 1 and isinstance(body[0], ast.Return) and body[0].value is not None:
                v = body[0].value
                pol = True
                if isinstance(v, ast.UnaryOp) and isinstance(v.op, ast.Not):
                    v, pol = v.operand, False
                if isinstance(v, ast.Call) and isinstance(v.func, ast.Attribute) and v.func.attr == "elementInScope":
                    out.setdefault(nm, pol)
    return out


def _helper_aliases(f, helpers):
    out = {}
    for n in ast.walk(f.node):
        if isinstance(n, ast.Assign) and isinstance(n.targets[0], ast.Name) and isinstance(n.value, ast.Call) \
                and isinstance(n.value.func, ast.Attribute) and n.value.func.attr in helpers:
            out[n.targets[0].id] = helpers[n.value.func.attr]
    return out


# ---------------------------------------------------------------------------- C03.7 / C03.8
def detached_leaves_stack(ctx):
    """C03.7: a node that is detached from the tree while it sits on the stack of open elements (`removeChild(openElements[i])`)
    is followed, on every path, by a truncation of the stack that removes index i: a loop popping down to the html sentinel,
    or `del openElements[i:]`.  Otherwise later insertions go into the detached node and the document loses body/frameset."""
    r = ctx.r
    n = 0
    for f in ctx.repo.module(PARSER_REL).all_functions:
        for c in walk_no_nested(f.node):
            if not (isinstance(c, ast.Call) and isinstance(c.func, ast.Attribute) and c.func.attr == "removeChild" and c.args):
                continue
            a = c.args[0]
            if not (isinstance(a, ast.Subscript) and (attr_chain(a.value) or [""])[-1] == "openElements" and isinstance(a.slice, ast.Constant)):
                continue
            idx = a.slice.value
            n += 1
            cfg = CFG(f.node)

            def truncates(x, idx=idx):
                if x.kind == "test" and isinstance(x.ast, ast.Compare) and "openElements[-1].name" in norm(x.ast.left) \
                        and isinstance(x.ast.ops[0], ast.NotEq) and norm(x.ast.comparators[0]) == "'html'" and idx == 1:
                    # loop header of `while openElements[-1].name != "html": pop()`
                    return any(isinstance(cc.func, ast.Attribute) and cc.func.attr == "pop" for m, lab in x.succ if lab is True
                               for cc in node_calls(m))
                if x.kind == "stmt" and isinstance(x.ast, ast.Delete):
                    t = x.ast.targets[0]
                    if isinstance(t, ast.Subscript) and (attr_chain(t.value) or [""])[-1] == "openElements" and isinstance(t.slice, ast.Slice):
                        lo = t.slice.lower
                        return isinstance(lo, ast.Constant) and lo.value == idx and t.slice.upper is None
                return False
            bad = cfg.must_follow(cfg.locate(c), truncates)
            r.check("C03.7", not bad, "detached-leaves-stack::%s" % f.qual, "%s:%d" % (PARSER_REL, c.lineno),
                    "openElements[%s] is detached from the tree but can stay on the stack of open elements: later elements are "
                    "inserted into the detached node (the document ends up without body/frameset)" % idx, detail={"function": f.qual})
    if n < 1:
        raise AnalysisError("C03.7: no removeChild(openElements[i]) site found")


def none_use(ctx):
    """C03.8 (contradiction rule): a local that is initialised to None and tested for truth somewhere is never used as a
    receiver (`v.attr`) or as the argument of `.index(v)` on a path on which it can still be None."""
    r = ctx.r
    n = 0
    for rel in (PARSER_REL, "treebuilders/base.py"):
        for f in ctx.repo.module(rel).all_functions:
            inits = {}
            for s in walk_no_nested(f.node):
                if isinstance(s, ast.Assign) and isinstance(s.value, ast.Constant) and s.value.value is None:
                    for t in s.targets:
                        if isinstance(t, ast.Name):
                            inits[t.id] = s
            if not inits:
                continue
            cfg = None
            for v in sorted(inits):
                tested = any(isinstance(x, ast.If) and any(isinstance(y, ast.Name) and y.id == v for y in ast.walk(x.test))
                             for x in ast.walk(f.node))
                if not tested:
                    continue
                uses = []
                for x in walk_no_nested(f.node):
                    if isinstance(x, ast.Attribute) and isinstance(x.value, ast.Name) and x.value.id == v and isinstance(x.ctx, ast.Load):
                        uses.append(x)
                    elif isinstance(x, ast.Call) and isinstance(x.func, ast.Attribute) and x.func.attr == "index" and x.args \
                            and isinstance(x.args[0], ast.Name) and x.args[0].id == v:
                        uses.append(x)
                if not uses:
                    continue
                cfg = cfg or CFG(f.node)

                def safe_edge(m, lab, v=v):
                    if m.kind == "test":
                        t = norm(m.ast)
                        if t == v and lab is True:
                            return True
                        if t in ("%s is not None" % v,) and lab is True:
                            return True
                        if t in ("%s is None" % v, "not %s" % v) and lab is False:
                            return True
                    if m.kind == "stmt" and isinstance(m.ast, ast.Assign) and any(isinstance(t, ast.Name) and t.id == v for t in m.ast.targets) \
                            and not (isinstance(m.ast.value, ast.Constant) and m.ast.value.value is None):
                        return True
                    if m.kind == "loopiter" and any(isinstance(t, ast.Name) and t.id == v for t in ast.walk(m.ast.target)) and lab is True:
                        return True
                    return False
                for u in uses:
                    n += 1
                    nodes = cfg.locate(u)
                    # a use inside the very test that checks it (`v and v.parent`) is handled by the short-circuit edges
                    ok = bool(nodes) and all(cfg.dominated_by(nd, safe_edge) for nd in nodes)
                    r.check("C03.8", ok, "none-use::%s::%s::%s" % (f.qual, v, norm(u)[:40]), "%s:%d" % (rel, u.lineno),
                            "`%s` can still be None where `%s` is evaluated (it is initialised to None and tested elsewhere): "
                            "AttributeError / ValueError on that path" % (v, norm(u)[:60]), detail={"variable": v})
    if n < 3:
        raise AnalysisError("C03.8 matched %d uses" % n)


# ---------------------------------------------------------------------------- C03.10 / C03.11
def html_names_need_html_namespace(ctx):
    """C03.10: resetInsertionMode decides by element *name*; the standard's names are HTML elements, so every name test on a
    node that is not the context element must be dominated by the filter that skips nodes outside the default namespace
    (otherwise a foreign element called `select` / `head` / ... reaches `assert self.innerHTML` in a document parse)."""
    r = ctx.r
    f = ctx.repo.func(PARSER_REL, "HTMLParser.resetInsertionMode")
    cfg = CFG(f.node)
    tests = [n for n in cfg.nodes if n.kind == "test" and isinstance(n.ast, ast.Compare) and norm(n.ast.left) == "nodeName"]
    if len(tests) < 2:
        raise AnalysisError("resetInsertionMode: name tests not found")

    def filtered(n, lab):
        if n.kind != "test":
            return False
        t = norm(n.ast)
        if t == "last" and lab is True:
            return True           # the context element of a fragment: its name is given by the caller
        if "namespace" in t and "defaultNamespace" in t and isinstance(n.ast, ast.Compare):
            neq = isinstance(n.ast.ops[0], ast.NotEq)
            return lab is (False if neq else True)
        return False
    for t in tests:
        r.check("C03.10", cfg.dominated_by(t, filtered), "name-test-after-namespace-filter::%s" % norm(t.ast)[:50],
                "%s:%d" % (PARSER_REL, t.lineno),
                "resetInsertionMode tests `%s` before skipping elements outside the HTML namespace: a foreign element with that "
                "name (e.g. <svg><select>) is taken for the HTML element (AssertionError in a document parse)" % norm(t.ast)[:60],
                detail={"test": norm(t.ast)[:60]})


def current_node_name_beliefs(ctx):
    """C03.10 (second clause): in a phase in which the current node can be a foreign element (the phase's handling of an
    <svg>/<math> start tag reaches the in-body handlers that insert one), a test of the current node's *name* that leads to
    `assert ...innerHTML` must also look at its namespace: a foreign element called `html` (<svg><html>) otherwise satisfies
    the belief "only the root can be called html here, so this is the fragment case" in a document parse."""
    r = ctx.r
    pm = model(ctx)
    inbody = pm.phases["inBody"]
    inserters = {m.fq for n, m in inbody.methods.items() if n in ("startTagSvg", "startTagMath")}
    if len(inserters) != 2:
        raise AnalysisError("InBodyPhase.startTagSvg / startTagMath not found")
    foreign_phases = set()
    for key, cls in pm.phases.items():
        h, how = pm.handler(cls, "StartTag", "svg")
        if h is None:
            continue
        nodes, edges, sites = pm.build_graph([(h, "svg")])
        if {f.fq for f, n in nodes.values()} & inserters:
            foreign_phases.add(key)
    if "inTable" not in foreign_phases or "inBody" not in foreign_phases:
        raise AnalysisError("phases in which a foreign element can become the current node were not recognised: %s" % sorted(foreign_phases))
    n = 0
    for key in sorted(foreign_phases):
        cls = pm.phases[key]
        for m in cls.methods.values():
            asserts = [s for s in walk_no_nested(m.node) if isinstance(s, ast.Assert) and norm(s.test).endswith("innerHTML")]
            if not asserts:
                continue
            cfg = CFG(m.node)
            for a in asserts:
                an = cfg.locate(a)
                if not an:
                    continue
                name_tests = [t for t in cfg.nodes if t.kind == "test" and isinstance(t.ast, ast.Compare) and
                              norm(t.ast.left).endswith("openElements[-1].name") and
                              (cfg.dominated_by(an[0], lambda x, lab, t=t: x is t and lab is True) or
                               cfg.dominated_by(an[0], lambda x, lab, t=t: x is t and lab is False))]
                if not name_tests:
                    continue
                n += 1
                ns_checked = cfg.dominated_by(an[0], lambda x, lab: x.kind == "test" and "openElements[-1].namespace" in norm(x.ast))
                r.check("C03.10", ns_checked, "current-node-name-belief::%s" % m.qual, "%s:%d" % (PARSER_REL, a.lineno),
                        "%s asserts the fragment case after testing only the *name* of the current node (`%s`); in the %s insertion mode "
                        "the current node can be a foreign element of that name (e.g. <table><svg><html>), so the assertion fails in a "
                        "document parse" % (m.qual, norm(name_tests[0].ast), key), {"method": m.qual},
                        detail={"method": m.qual, "test": norm(name_tests[0].ast)})
    r.extra["phases_with_foreign_current_node"] = sorted(foreign_phases)
    if n < 1:
        raise AnalysisError("C03.10: no innerHTML belief guarded by a current-node name test was found")


def html_namespace_tests(ctx):
    """C03.14: whether a node on the stack is an HTML element is decided by comparing its namespace with the tree builder's
    defaultNamespace (None when namespaceHTMLElements=False), never with the constant XHTML namespace: with namespacing off
    the constant matches no element, the foreign-content end-tag walk then runs past the root of the stack (IndexError) or
    never hands the token to the HTML rules (non-termination).
    C03.15: xml.dom raises NotFoundErr when asked to remove a node that is not a child; minidom's appendChild/insertBefore move
    a node silently, so the wrapper-level parent can be stale -- the DOM back-end's removeChild tests the real parent first."""
    r = ctx.r
    n = 0
    funcs = [(rel_, f) for rel_ in (PARSER_REL, "treebuilders/base.py", "_tokenizer.py") for f in ctx.repo.module(rel_).all_functions]
    for rel_, f in funcs:
        ns_locals = {s.targets[0].id for s in walk_no_nested(f.node) if isinstance(s, ast.Assign) and isinstance(s.targets[0], ast.Name)
                     and isinstance(s.value, ast.IfExp) is False and "namespace" in norm(s.value) and not isinstance(s.value, ast.Call)}
        ordinal = 0
        nested_defs = [d for d in ast.walk(f.node) if isinstance(d, (ast.FunctionDef, ast.AsyncFunctionDef)) and d is not f.node]
        in_nested = {id(y) for d in nested_defs for y in ast.walk(d)}
        # comparisons anywhere in the function, generator expressions and lambdas included
        for c in sorted((x for x in ast.walk(f.node) if isinstance(x, ast.Compare) and id(x) not in in_nested), key=lambda x: (x.lineno, x.col_offset)):
            if not (isinstance(c, ast.Compare) and len(c.ops) == 1 and isinstance(c.ops[0], (ast.Eq, ast.NotEq))):
                continue
            sides = [c.left, c.comparators[0]]
            is_ns = [isinstance(s, ast.Attribute) and s.attr == "namespace" or (isinstance(s, ast.Name) and s.id in ns_locals and "amespace" in s.id)
                     for s in sides]
            if not any(is_ns):
                continue
            other = sides[1] if is_ns[0] else sides[0]
            t = norm(other)
            ordinal += 1
            if t.endswith("defaultNamespace"):
                n += 1
                r.ok("C03.14", "html-test::%s#%d" % (f.qual, ordinal), "%s:%d" % (rel_, c.lineno), detail={"compares_with": t})
            elif t in ("namespaces['html']",) or (isinstance(other, ast.Constant) and other.value == "http://www.w3.org/1999/xhtml"):
                n += 1
                r.bad("C03.14", "html-test::%s#%d" % (f.qual, ordinal), "%s:%d" % (rel_, c.lineno),
                      "%s decides whether a node is an HTML element by comparing its namespace with the constant XHTML namespace; with "
                      "namespaceHTMLElements=False HTML elements carry the tree's defaultNamespace (None), so the test never matches "
                      "(<svg></br> raises IndexError, an end tag inside foreign content in a table cell never terminates)" % f.qual,
                      {"function": f.qual})
    if n < 5:
        raise AnalysisError("C03.14: only %d HTML-namespace tests found in the parser" % n)
    dom = ctx.repo.module("treebuilders/dom.py").find_class("getDomBuilder.NodeBuilder")
    rm = dom.methods.get("removeChild") if dom else None
    if rm is None:
        raise AnalysisError("dom NodeBuilder.removeChild vanished")
    cfg = CFG(rm.node)
    raw = [x for x in cfg.stmt_nodes() if any(norm(c.func) == "self.element.removeChild" for c in node_calls(x))]
    if not raw:
        r.idiom("C03.15", False, "dom-removeChild-guarded", rm.where, "the xml.dom removeChild call was not found")
    for x in raw:
        guarded = cfg.dominated_by(x, lambda m, lab: m.kind == "test" and "parentNode" in norm(m.ast) and lab is True)
        in_try = any(isinstance(t, ast.Try) and any(y is x.ast for y in ast.walk(t)) for t in ast.walk(rm.node))
        r.check("C03.15", guarded or in_try, "dom-removeChild-guarded", "%s:%d" % ("treebuilders/dom.py", x.ast.lineno),
                "the DOM back-end's removeChild asks xml.dom to remove the node without checking that it (still) is a child: after an "
                "implicit move by appendChild/insertBefore (adoption agency, e.g. <b><div><p>x</b>y) xml.dom raises NotFoundErr",
                detail={"guarded_by_parentNode_test": guarded})


def none_argument(ctx):
    """C03.11: a value that a function can return as None (a None-initialised local returned inside a tuple) is not passed to a
    parameter that every implementation dereferences without a None test."""
    r = ctx.r
    pm = model(ctx)
    base = ctx.repo.module("treebuilders/base.py")
    # (function name, tuple index) whose returned component may be None
    maybe_none = {}
    for f in base.all_functions:
        inits = {t.id for s in walk_no_nested(f.node) if isinstance(s, ast.Assign) and isinstance(s.value, ast.Constant)
                 and s.value.value is None for t in s.targets if isinstance(t, ast.Name)}
        if not inits:
            continue
        cfg = CFG(f.node)
        for rt in [n for n in cfg.stmt_nodes() if n.kind == "stmt" and isinstance(n.ast, ast.Return) and isinstance(n.ast.value, ast.Tuple)]:
            for i, e in enumerate(rt.ast.value.elts):
                if isinstance(e, ast.Name) and e.id in inits:
                    # is there a path from the None initialisation to the return without a non-None assignment?
                    init_nodes = [n for n in cfg.stmt_nodes() if n.kind == "stmt" and isinstance(n.ast, ast.Assign) and
                                  isinstance(n.ast.value, ast.Constant) and n.ast.value.value is None and
                                  any(isinstance(t, ast.Name) and t.id == e.id for t in n.ast.targets)]
                    def reassigned(n, v=e.id):
                        return n.kind == "stmt" and isinstance(n.ast, ast.Assign) and any(isinstance(t, ast.Name) and t.id == v for t in n.ast.targets) \
                            and not (isinstance(n.ast.value, ast.Constant) and n.ast.value.value is None)
                    par = cfg.reach_forward(init_nodes, reassigned)
                    if rt.id in par:
                        maybe_none[(f.name, i)] = f
    # parameters dereferenced without a None test by every node implementation
    deref = {}
    for cls in pm.node_classes:
        for mn, m in cls.methods.items():
            for pi, p in enumerate(m.params()[1:]):
                uses = [x for x in walk_no_nested(m.node) if isinstance(x, ast.Attribute) and isinstance(x.value, ast.Name) and x.value.id == p]
                if not uses:
                    continue
                cfg = CFG(m.node)
                guarded = all(cfg.dominated_by(nd, lambda n, lab, p=p: n.kind == "test" and (
                    (norm(n.ast) == p and lab is True) or (norm(n.ast) == "%s is None" % p and lab is False) or
                    (norm(n.ast) == "%s is not None" % p and lab is True))) for u in uses for nd in cfg.locate(u))
                if not guarded:
                    deref.setdefault((mn, pi), []).append(cls.name)
    n = 0
    for rel in (PARSER_REL, "treebuilders/base.py"):
        for f in ctx.repo.module(rel).all_functions:
            unpack = {}
            for s in walk_no_nested(f.node):
                if isinstance(s, ast.Assign) and isinstance(s.targets[0], ast.Tuple) and isinstance(s.value, ast.Call) and \
                        isinstance(s.value.func, ast.Attribute):
                    for i, e in enumerate(s.targets[0].elts):
                        if isinstance(e, ast.Name) and (s.value.func.attr, i) in maybe_none:
                            unpack[e.id] = (s.value.func.attr, i)
            if not unpack:
                continue
            cfg = CFG(f.node)
            for c in walk_no_nested(f.node):
                if not (isinstance(c, ast.Call) and isinstance(c.func, ast.Attribute)):
                    continue
                for ai, a in enumerate(c.args):
                    if isinstance(a, ast.Name) and a.id in unpack and (c.func.attr, ai) in deref:
                        n += 1
                        v = a.id
                        ok = all(cfg.dominated_by(nd, lambda m, lab, v=v: m.kind == "test" and (
                            (norm(m.ast) == "%s is None" % v and lab is False) or (norm(m.ast) == "%s is not None" % v and lab is True)
                            or (norm(m.ast) == v and lab is True))) for nd in cfg.locate(c))
                        r.check("C03.11", ok, "none-argument::%s::%s(%s)" % (f.qual, c.func.attr, v), "%s:%d" % (rel, c.lineno),
                                "`%s` comes from %s() and can be None, but is passed to %s(), whose implementations (%s) dereference it "
                                "unconditionally: AttributeError on that path" % (v, unpack[v][0], c.func.attr, ", ".join(sorted(set(deref[(c.func.attr, ai)])))),
                                detail={"value": v, "callee": c.func.attr})
    if n < 2:
        raise AnalysisError("C03.11 matched %d call sites" % n)


# ---------------------------------------------------------------------------- C03.9
def reprocess_progress(ctx):
    """C03.9: a handler that hands the token back for reprocessing (`return token`) has, on every path to that return, changed
    something first (a store to parser.phase, or a call on the phase / parser / tree other than parseError).  A handler that
    returned the token untouched in an unchanged state would be re-entered forever by mainLoop's `while new_token is not None`."""
    r = ctx.r
    pm = model(ctx)
    n = 0
    for f in ctx.repo.module(PARSER_REL).all_functions:
        if f.cls is None or not f.cls.is_subclass_of(pm.Phase) or len(f.params()) < 2:
            continue
        tok = f.params()[1]
        rets = [x for x in walk_no_nested(f.node) if isinstance(x, ast.Return) and isinstance(x.value, ast.Name) and x.value.id == tok]
        if not rets:
            continue
        # pure delegation `return other.processX(token)` is not a reprocess; only `return token`
        cfg = CFG(f.node)

        def progress(x):
            if x.kind == "stmt" and isinstance(x.ast, ast.Assign) and any((attr_chain(t) or [""])[-1] in ("phase", "state") for t in x.ast.targets):
                return True
            for c in node_calls(x):
                ch = attr_chain(c.func) or []
                if ch and ch[0] == "self" and ch[-1] != "parseError" and ch[-1] not in ("elementInScope", "ignoreEndTagCaption", "ignoreEndTagTr",
                                                                                          "ignoreEndTagColgroup"):
                    return True
            return False
        # frozen exemption: the foreign-content start-tag handler pops in a `while` whose guard is true on entry, because the
        # dispatcher (C01.9) sends a start tag here only when the current node is foreign and not an integration point
        loop_entry_true = f.qual == "InForeignContentPhase.processStartTag"

        def progress2(x, loop_entry_true=loop_entry_true):
            if progress(x):
                return True
            if loop_entry_true and x.kind == "test" and "namespace != self.tree.defaultNamespace" in norm(x.ast):
                return any(isinstance(cc.func, ast.Attribute) and cc.func.attr == "pop" for m, lab in x.succ if lab is True
                           for cc in node_calls(m)) or True
            return False
        for rt in rets:
            n += 1
            bad = cfg.must_precede(cfg.locate(rt), progress2)
            r.check("C03.9", not bad, "reprocess-progress::%s@%d" % (f.qual, rets.index(rt)), "%s:%d" % (PARSER_REL, rt.lineno),
                    "%s can hand the token back for reprocessing without having changed the insertion mode or the stack first: "
                    "mainLoop re-enters the same handler forever" % f.qual, detail={"handler": f.qual})
    if n < 40:
        raise AnalysisError("C03.9 matched %d reprocessing returns (expected >= 40)" % n)
    reprocess_guard(ctx)


# A handler whose only progress before `return token` is a call that can return without having done anything (the
# "fragment case" branch of an end-tag handler: the element is not in scope, parse error, ignore) must make the hand-back
# conditional; otherwise mainLoop re-enters it forever in exactly that case.
UNCONDITIONAL_REPROCESS_OK = {
    "InSelectInTablePhase.startTagTable":
        "the mode is entered only by InBodyPhase.startTagSelect from a table mode, with the select element just pushed; in "
        "select modes only option / optgroup are pushed above it, so `select` is always in select scope and endTagSelect pops",
}


def _progress_summaries(ctx):
    def build():
        pm = model(ctx)
        funcs = [f for f in ctx.repo.module(PARSER_REL).all_functions
                 if f.cls is not None and (f.cls.is_subclass_of(pm.Phase) or f.cls is pm.HTMLParser)]
        must = {f.fq: False for f in funcs}
        cfgs, lt = {}, {}

        def direct(x):
            if x.kind == "stmt" and isinstance(x.ast, ast.Assign) and \
                    any(len(attr_chain(t) or []) >= 2 and (attr_chain(t) or [""])[-1] == "phase" for t in x.ast.targets):
                return True
            for c in node_calls(x):
                ch = attr_chain(c.func) or []
                if len(ch) >= 2 and ch[-1] == "pop" and ch[-2] == "openElements":
                    return True
            return False

        def strong(f, x):
            if direct(x):
                return True
            for c in node_calls(x):
                if f.fq not in lt:
                    lt[f.fq] = (pm.local_types(f), pm.phase_refinements(f))
                cal = [g for g, _ in pm.resolve_call(f, c, FRESH, lt[f.fq][0], lt[f.fq][1]) if g is not None]
                if cal and all(must.get(g.fq, False) for g in cal):
                    return True
            return False
        changed = True
        while changed:
            changed = False
            for f in funcs:
                if must[f.fq]:
                    continue
                if f.fq not in cfgs:
                    cfgs[f.fq] = CFG(f.node)
                cfg = cfgs[f.fq]
                if cfg.entry.id not in cfg.reach_backward([cfg.exit], lambda n, f=f: strong(f, n)):
                    must[f.fq] = True
                    changed = True
        return must, strong, cfgs
    return ctx.shared("c03_progress_summaries", build)


def reprocess_guard(ctx):
    r = ctx.r
    pm = model(ctx)
    must, strong, cfgs = _progress_summaries(ctx)
    quiet = ("parseError", "elementInScope", "ignoreEndTagCaption", "ignoreEndTagTr", "ignoreEndTagColgroup")
    n = 0
    for f in ctx.repo.module(PARSER_REL).all_functions:
        if f.cls is None or not f.cls.is_subclass_of(pm.Phase) or len(f.params()) < 2:
            continue
        tok = f.params()[1]
        rets = [x for x in walk_no_nested(f.node) if isinstance(x, ast.Return) and isinstance(x.value, ast.Name) and x.value.id == tok]
        if not rets:
            continue
        cfg = cfgs.get(f.fq) or CFG(f.node)
        for rt in rets:
            nodes = cfg.locate(rt)
            if not cfg.must_precede(nodes, lambda x: strong(f, x)):
                continue                        # certain progress on every path to this return
            R = nodes[0]
            par = cfg.reach_backward([R], lambda x: strong(f, x))
            weak = [x for x in cfg.stmt_nodes() if x.id in par and x is not R and x.kind != "test" and
                    any((attr_chain(c.func) or [""])[0] == "self" and (attr_chain(c.func) or [""])[-1] not in quiet for c in node_calls(x))]
            if not weak:
                continue                        # judged by the first half of C03.9
            n += 1
            # is the hand-back conditional?  (some path entry -> exit avoids this return)
            conditional = cfg.exit.id in cfg.reach_forward([cfg.entry], lambda x: x is R)
            key = "reprocess-guard::%s@%d" % (f.qual, rets.index(rt))
            if f.qual in UNCONDITIONAL_REPROCESS_OK and not conditional:
                r.ok("C03.9", key, "%s:%d" % (PARSER_REL, rt.lineno), detail={"handler": f.qual, "exempt": UNCONDITIONAL_REPROCESS_OK[f.qual]})
                continue
            r.check("C03.9", conditional, key, "%s:%d" % (PARSER_REL, rt.lineno),
                    "%s hands the token back for reprocessing unconditionally although the only progress before it, %s, can return "
                    "without having changed anything (element not in scope / fragment case): mainLoop then re-enters this handler forever"
                    % (f.qual, norm(weak[-1].ast)[:70]), {"handler": f.qual, "call": norm(weak[-1].ast)[:80]},
                    detail={"handler": f.qual, "weak_progress": [norm(w.ast)[:60] for w in weak]})
    if n < 15:
        raise AnalysisError("C03.9 (guard) matched %d hand-backs after a possibly ineffective call (expected >= 15)" % n)


# ---------------------------------------------------------------------------- C03.13
def bounded_int(ctx):
    """C03.13: CPython (>= 3.11) refuses to convert a decimal string of more than 4300 digits (`int()` raises ValueError;
    radixes that are powers of two are exempt).  On the parse path every `int(<text taken from the input>, radix)` must
    therefore use a power-of-two radix, sit in a `try` that catches ValueError, or be guarded by a test on the length of its
    argument -- otherwise a long run of digits in the input makes parse() raise."""
    r = ctx.r
    n = 0
    for rel in ("_tokenizer.py", "_inputstream.py", "html5parser.py", "treebuilders/base.py", "treebuilders/etree.py", "treebuilders/dom.py"):
        mod = ctx.repo.module(rel)
        for f in mod.all_functions:
            parents = {}
            for p in ast.walk(f.node):
                for c in ast.iter_child_nodes(p):
                    parents[id(c)] = p
            for c in walk_no_nested(f.node):
                if not (isinstance(c, ast.Call) and isinstance(c.func, ast.Name) and c.func.id == "int" and c.args):
                    continue
                arg = c.args[0]
                if ctx.ce.try_eval(arg, mod) is not None or isinstance(arg, (ast.Constant, ast.Num if hasattr(ast, "Num") else ast.Constant)):
                    continue
                if not any(isinstance(x, (ast.Name, ast.Attribute, ast.Subscript, ast.Call)) for x in ast.walk(arg)):
                    continue
                n += 1
                radix = ctx.ce.try_eval(c.args[1], mod) if len(c.args) > 1 else 10
                names = {x.id for x in ast.walk(arg) if isinstance(x, ast.Name)}
                guarded = None
                if radix in (2, 4, 8, 16, 32):
                    guarded = "power-of-two radix"
                p = c
                while guarded is None and id(p) in parents:
                    q = parents[id(p)]
                    if isinstance(q, ast.Try) and p in q.body and any(
                            h.type is None or any(nm in norm(h.type) for nm in ("ValueError", "Exception")) for h in q.handlers):
                        guarded = "try/except ValueError"
                    if isinstance(q, (ast.IfExp, ast.If)) and any(
                            isinstance(t, ast.Call) and norm(t.func) == "len" and t.args and
                            ({x.id for x in ast.walk(t.args[0]) if isinstance(x, ast.Name)} & names) for t in ast.walk(q.test)):
                        guarded = "length test"
                    p = q
                key = "bounded-int::%s::%s" % (f.qual, norm(arg)[:30])
                r.check("C03.13", guarded is not None, key, "%s:%d" % (rel, c.lineno),
                        "%s converts input text with int(%s, %s) without a length guard or ValueError handler: CPython refuses decimal "
                        "strings longer than 4300 digits, so a numeric reference with thousands of digits makes parse() raise ValueError"
                        % (f.qual, norm(arg)[:40], norm(c.args[1]) if len(c.args) > 1 else "10"),
                        {"function": f.qual}, detail={"function": f.qual, "guard": guarded})
    if n < 1:
        raise AnalysisError("C03.13: no int() conversion of input text found on the parse path")


# ---------------------------------------------------------------------------- C03.19
def prescan_exception_flow(ctx, rid="C03.19", entries=(("EncodingParser", "getEncoding"),), floor_sites=4):
    """The encoding pre-scan reports "ran off the end of the buffer" by raising StopIteration from the accessors of its cursor
    (`EncodingBytes`) and relies on try/except brackets in `EncodingParser.getEncoding`; `jumpTo` turns bytes.index's ValueError
    into it.  `detectEncodingMeta` calls getEncoding with no bracket of its own, so either exception escaping getEncoding comes
    out of parse().  Whether an accessor raises depends on the cursor's position, i.e. on what the previous calls did; the
    decision is made by abstract interpretation of the classes (sa/excstate.py): position facts `< len(cursor)`, per-function
    summaries, brackets as written."""
    from ..excstate import Interp, TRACKED_EXC
    r = ctx.r
    mod = ctx.repo.module("_inputstream.py")
    cursor = mod.classes.get("EncodingBytes")
    if cursor is None:
        raise AnalysisError("%s: class EncodingBytes vanished" % rid)
    for cname, fname in entries:
        cls = mod.classes.get(cname)
        f = cls.find_method(fname) if cls else None
        if f is None:
            raise AnalysisError("%s: %s.%s vanished" % (rid, cname, fname))
        init = cls.find_method("__init__")
        holders = []
        if init is not None:
            for a in walk_no_nested(init.node):
                if isinstance(a, ast.Assign) and len(a.targets) == 1 and isinstance(a.targets[0], ast.Attribute) and \
                        norm(a.targets[0].value) == "self":
                    v = a.value
                    if isinstance(v, ast.Call) and norm(v.func) == "EncodingBytes":
                        holders.append(a.targets[0].attr)
                    elif isinstance(v, ast.Name) and v.id in init.params()[1:]:
                        # a parameter for which a constructor call in this module passes a new cursor
                        k = init.params()[1:].index(v.id)
                        sites = [c for c in ast.walk(mod.tree) if isinstance(c, ast.Call) and norm(c.func) == cname]
                        if sites and all(len(c.args) > k and isinstance(c.args[k], ast.Call) and norm(c.args[k].func) == "EncodingBytes" for c in sites):
                            holders.append(a.targets[0].attr)
        key = "no-escape::%s.%s" % (cname, fname)
        if len(holders) != 1:
            r.idiom(rid, False, key, cls.where, "%s.__init__ does not keep exactly one cursor attribute (found %s)" % (cname, holders))
            continue
        try:
            it = Interp(mod, cursor, holders[0])
            outs = it.summary(f, cls, it.fresh_cursor_state(), {})
        except AnalysisError as e:
            r.idiom(rid, False, key, f.where, "exception flow of the pre-scan is not understood: %s" % e)
            continue
        if it.stats["raise_sites"] < floor_sites or it.stats["handlers"] < 1:
            r.idiom(rid, False, key, f.where, "the pre-scan's raise / except structure was not found (%s)" % it.stats)
            continue
        esc = [o for o in outs if o.kind == "raise" and o.val in TRACKED_EXC]
        for o in esc:
            r.bad(rid, "%s::%s" % (key, o.val), "_inputstream.py:%s" % (o.trace[-1].rsplit(":", 1)[-1] if o.trace else f.node.lineno),
                  "%s can leave %s.%s: %s -- outside every `except %s` bracket, so it comes out of %s"
                  % (o.val, cname, fname, " -> ".join(o.trace), o.val,
                     "parse() for bytes input that contains `<meta`" if fname == "getEncoding" else "the attribute loop and ends the whole pre-scan"),
                  {"trace": list(o.trace)})
        if not esc:
            r.ok(rid, key, f.where, detail=dict(it.stats, outcomes=sorted({"%s %s" % (o.kind, o.val if o.kind == "raise" else "") for o in outs})))



# ---------------------------------------------------------------------------- C03.20 / C03.21 / C03.22
# Phases in which the current node is known from the insertion mode itself (why a single pop there cannot reach the root)
MODE_CURRENT_NODE = {
    "InHeadPhase.endTagHead": "in 'in head' the current node is the head element (the mode is only entered after inserting it and left when it is popped)",
    "InHeadNoscriptPhase.endTagNoscript": "in 'in head noscript' the current node is the noscript element",
    "TextPhase.processEOF": "the text mode is entered right after inserting the raw-text / RCDATA element, which stays the current node",
    "TextPhase.endTagScript": "as above: the current node is the script element",
    "TextPhase.endTagOther": "as above: the current node is the element whose text is being read",
}


def single_pops(ctx):
    """C03.20: a pop of the stack of open elements that is not in a loop (C03.5 covers loops) needs evidence that the current node
    is not the root html element: (a) it pops what the same handler has just inserted; (b) a positive scope test dominates it
    (directly, through a local holding the result, or through a helper that *is* a scope test -- its body is checked); (c) a test of
    the current node's name that excludes html dominates it with no other pop in between; (d) the insertion mode fixes the current
    node (table above).  Anything else can pop the root, after which every `openElements[-1]` raises IndexError."""
    r = ctx.r
    repo = ctx.repo
    mod = repo.module(PARSER_REL)
    helpers_ok = {}
    for f in mod.all_functions:
        if f.cls is not None and f.name.startswith("ignoreEndTag"):
            rets = [x for x in walk_no_nested(f.node) if isinstance(x, ast.Return) and x.value is not None]
            if rets and all(norm(x.value) in ("self.tree.openElements[-1].name == 'html'",) for x in rets):
                helpers_ok[(f.cls.name, f.name)] = "isroot"
                continue
            helpers_ok[(f.cls.name, f.name)] = bool(rets) and all(
                isinstance(x.value, ast.UnaryOp) and isinstance(x.value.op, ast.Not) and "elementInScope(" in norm(x.value.operand) for x in rets) or \
                (bool(rets) and all("elementInScope(" in norm(x.value) and " and " in norm(x.value) and norm(x.value).count("not ") >= 2 for x in rets))
    for rel in (PARSER_REL, "treebuilders/base.py"):
        for f in repo.module(rel).all_functions:
            pops = [c for c in walk_no_nested(f.node) if isinstance(c, ast.Call) and isinstance(c.func, ast.Attribute) and c.func.attr == "pop"
                    and (attr_chain(c.func.value) or [""])[-1] == "openElements" and not c.args]
            if not pops:
                continue
            cfg = CFG(f.node)
            scope_vars = {a.targets[0].id for a in walk_no_nested(f.node) if isinstance(a, ast.Assign) and len(a.targets) == 1 and
                          isinstance(a.targets[0], ast.Name) and "elementInScope(" in norm(a.value) and not norm(a.value).startswith("not ")}
            ignore_vars = {a.targets[0].id: norm(a.value) for a in walk_no_nested(f.node) if isinstance(a, ast.Assign) and len(a.targets) == 1 and
                           isinstance(a.targets[0], ast.Name) and "ignoreEndTag" in norm(a.value)}

            def is_pop_node(n):
                return any((attr_chain(c.func) or [""])[-2:] == ["openElements", "pop"] for c in node_calls(n)) or \
                    any((attr_chain(c.func) or [""])[-1].startswith("clearStackTo") or (attr_chain(c.func) or [""])[-1] == "generateImpliedEndTags"
                        for c in node_calls(n))
            for pc in pops:
                nds = cfg.locate(pc)
                if not nds or any(nd.id in cfg.reach_forward([nd], lambda n: False) for nd in nds):
                    continue        # in a loop: C03.5
                key = "single-pop::%s::line-order-%d" % (f.qual, pops.index(pc))
                where = "%s:%d" % (rel, pc.lineno)
                why = None
                # (a) every path to the pop passes an insertElement after which nothing else was popped
                ins = lambda n: any((attr_chain(c.func) or [""])[-1] in ("insertElement", "insertHtmlElement", "insertElementNormal", "insertElementTable")  # noqa: E731
                                    for c in node_calls(n))
                if not cfg.must_precede(nds, ins):
                    par = cfg.reach_backward(nds, ins)
                    between = [cfg.nodes[i] for i in par if cfg.nodes[i] not in nds and is_pop_node(cfg.nodes[i]) and not ins(cfg.nodes[i])]
                    if not between:
                        why = "pops the element the handler has just inserted"
                # (b) scope evidence
                helper_bad = None
                isroot_tests = []
                if why is None:
                    def scope_ev(n, lab):
                        nonlocal helper_bad
                        if n.kind != "test":
                            return False
                        t = norm(n.ast)
                        if "elementInScope(" in t and not t.startswith("not ") and lab is True:
                            return True
                        if t.startswith("not ") and "elementInScope(" in t and lab is False:
                            return True
                        if t in scope_vars and lab is True:
                            return True
                        m_ = None
                        for txt, neg in ((t, False), (t[4:], True)) if t.startswith("not ") else ((t, False),):
                            src_ = ignore_vars.get(txt, txt)
                            if src_.startswith("self.ignoreEndTag") and src_.endswith("()"):
                                m_ = (src_[5:-2], neg)
                        if m_ is not None and f.cls is not None:
                            name_, neg = m_
                            cls_ = next((c for c in f.cls.mro() if name_ in c.methods), None)
                            ok_ = helpers_ok.get((cls_.name, name_)) if cls_ else None
                            if (lab is False) != neg:          # the "not ignored" edge
                                if ok_ is True:
                                    return True
                                if ok_ == "isroot":
                                    isroot_tests.append(n)
                                    return False
                                helper_bad = name_
                        return False
                    if all(cfg.dominated_by(nd, scope_ev) for nd in nds):
                        why = "dominated by a positive scope test"
                # (c) a name test on the current node that excludes html, no pop in between
                if why is None:
                    def name_ev(n, lab):
                        if n.kind != "test":
                            return False
                        t = norm(n.ast)
                        if "openElements[-1].name" not in t and "currentNode.name" not in t:
                            return False
                        if ("== 'html'" in t) and lab is False and " or " not in t and " and " not in t:
                            return True
                        return lab is True and "'html'" not in t and "!=" not in t and "not in" not in t and ("==" in t or " in " in t)
                    if all(cfg.dominated_by(nd, name_ev) for nd in nds):
                        tests = [n for n in cfg.nodes if n.kind == "test" and name_ev(n, True) or n.kind == "test" and name_ev(n, False)]
                        par = cfg.reach_backward(nds, lambda n: n in tests)
                        between = [cfg.nodes[i] for i in par if cfg.nodes[i] not in nds and is_pop_node(cfg.nodes[i])]
                        if not between:
                            why = "dominated by a test of the current node's name that excludes html"
                if why is None and isroot_tests:
                    # guard helper = "the current node is the root": on its false edge the current node is another element,
                    # provided nothing is popped between the test and the pop
                    dom = all(cfg.dominated_by(nd, lambda n, lab: n in isroot_tests) for nd in nds)
                    par = cfg.reach_backward(nds, lambda n: n in isroot_tests)
                    between = [cfg.nodes[i] for i in par if cfg.nodes[i] not in nds and is_pop_node(cfg.nodes[i])]
                    if dom and not between:
                        why = "dominated by an is-the-root test of the current node (helper), nothing popped in between"
                        helper_bad = None
                if why is None and f.qual in MODE_CURRENT_NODE:
                    why = "mode invariant: " + MODE_CURRENT_NODE[f.qual]
                r.check("C03.20", why is not None, key, where,
                        "%s pops the stack of open elements once with no evidence that the current node is not the root html element%s: "
                        "with nothing but html on the stack (fragment parsing, stray end tags) the root is popped and the next "
                        "`openElements[-1]` raises IndexError" % (
                            f.qual, (" (its guard %s() is no longer a scope test)" % helper_bad) if helper_bad else ""),
                        {"function": f.qual}, detail={"function": f.qual, "evidence": why})


# leaving a nested mode by popping its current node returns to the mode whose current node lies right below it
NESTED_MODE = {"inHeadNoscript": "inHead"}


def mode_entry_evidence(ctx):
    """C03.23: the handlers listed in MODE_CURRENT_NODE pop once *because the insertion mode fixes the current node*.  That belief
    is an obligation on every statement that enters such a mode: (a) the statement is preceded on every path by the insertion of
    the element, nothing popped in between; or (b) it leaves the nested mode by popping that mode's current node (noscript ->
    head).  A table-driven entry (reset the insertion mode appropriately) looks at names on the stack -- in the fragment case at
    the *context* name, with nothing but html on the stack -- and so may never name such a mode."""
    r = ctx.r
    pm = model(ctx)
    cls_key = {c.name: k for k, c in pm.phases.items()}
    inv = {}
    for qual, reason in MODE_CURRENT_NODE.items():
        k = cls_key.get(qual.split(".")[0])
        r.idiom("C03.23", k is not None, "mode-of::" + qual, pm.phases_where,
                "%s (listed as relying on a mode invariant) is not a method of a registered phase" % qual)
        if k is not None:
            inv.setdefault(k, []).append(qual)
    n_lit = n_tab = 0
    ins = lambda n: any((attr_chain(c.func) or [""])[-1] in ("insertElement", "insertHtmlElement", "insertElementNormal", "insertElementTable")  # noqa: E731
                        for c in node_calls(n))
    is_pop = lambda n: any((attr_chain(c.func) or [""])[-2:] == ["openElements", "pop"] for c in node_calls(n))  # noqa: E731
    for f, st, k in pm.phase_stores:
        where = "%s:%d" % (f.module.rel, st.lineno)
        if k == "<newModes>":
            n_tab += 1
            for ctx_name, mode in sorted(pm.new_modes.items()):
                r.check("C03.23", mode not in inv, "reset-enters::%s" % ctx_name, where,
                        "resetting the insertion mode for a %r node enters %r, a mode whose handlers (%s) pop the current node on the belief "
                        "that it is the element the mode was entered for; in the fragment case the stack holds only html, so the first such "
                        "handler pops the root and the next `openElements[-1]` raises IndexError" % (
                            ctx_name, mode, ", ".join(inv.get(mode, []))),
                        {"context": ctx_name, "mode": mode}, detail={"context": ctx_name, "mode": mode})
            continue
        if k not in inv:
            continue
        n_lit += 1
        cfg = CFG(f.node)
        nds = cfg.locate(st)
        why = None
        if nds and not cfg.must_precede(nds, ins):
            par = cfg.reach_backward(nds, ins)
            if not [i for i in par if cfg.nodes[i] not in nds and is_pop(cfg.nodes[i]) and not ins(cfg.nodes[i])]:
                why = "enters the mode right after inserting the element"
        if why is None and f.cls is not None and NESTED_MODE.get(cls_key.get(f.cls.name)) == k and nds and not cfg.must_precede(nds, is_pop):
            why = "leaves the nested mode %r by popping its current node" % cls_key.get(f.cls.name)
        r.check("C03.23", why is not None, "enters::%s::%s" % (f.qual, k), where,
                "%s enters %r without inserting the element that mode's handlers (%s) pop unconditionally: the first of them pops "
                "whatever is the current node -- the root html element when nothing else is open" % (f.qual, k, ", ".join(inv[k])),
                {"function": f.qual, "mode": k}, detail={"function": f.qual, "mode": k, "evidence": why})
    r.idiom("C03.23", n_lit >= 5 and n_tab >= 1, "mode-entries", pm.phases_where,
            "expected at least 5 literal entries into current-node modes and the reset table, found %d / %d" % (n_lit, n_tab))


def scope_variant_agreement(ctx):
    """C03.21: within one insertion mode an element name is looked up in *one* kind of scope (in cell: td / th in table scope, ...).
    A guard that tests "td in table scope" in front of a helper that closes "td in (default) scope" can be true while the helper
    does nothing (an applet / object / marquee / foreign integration point open inside the cell): the handler then hands the token
    back for reprocessing with nothing changed -- the main loop never ends."""
    r = ctx.r
    mod = ctx.repo.module(PARSER_REL)
    table = {}
    for f in mod.all_functions:
        if f.cls is None:
            continue
        loops = {}
        for lp in ast.walk(f.node):
            if isinstance(lp, ast.For) and isinstance(lp.target, ast.Name):
                vals = ctx.ce.try_eval(lp.iter, mod)
                if isinstance(vals, (tuple, list)) and all(isinstance(v, str) for v in vals):
                    loops[lp.target.id] = list(vals)
        for c in ast.walk(f.node):
            if isinstance(c, ast.Call) and isinstance(c.func, ast.Attribute) and c.func.attr == "elementInScope" and c.args:
                a0 = c.args[0]
                names = [a0.value] if isinstance(a0, ast.Constant) and isinstance(a0.value, str) else loops.get(a0.id, []) if isinstance(a0, ast.Name) else []
                var = next((ctx.ce.try_eval(k.value, mod) for k in c.keywords if k.arg == "variant"), None)
                if var is None and len(c.args) > 1:
                    var = ctx.ce.try_eval(c.args[1], mod)
                for nm in names:
                    table.setdefault((f.cls.name, nm), []).append((var or "default", f.name, c.lineno))
    for (cls, nm), uses in sorted(table.items()):
        variants = sorted({u[0] for u in uses})
        r.check("C03.21", len(variants) == 1, "scope-variant::%s::%s" % (cls, nm), "%s:%d" % (PARSER_REL, uses[0][2]),
                "%s looks `%s` up in different scopes: %s -- a guard in one scope in front of an action in another can hold while the action does "
                "nothing, and a handler that then returns the token for reprocessing loops for ever (`<table><tr><td><object><param></tr>`)"
                % (cls, nm, ", ".join("%s in %s" % (v, sorted({u[1] for u in uses if u[0] == v})) for v in variants)),
                {"class": cls, "element": nm}, detail={"variant": variants[0] if len(variants) == 1 else variants})


def stdlib_recursion(ctx):
    """C03.22: the DOM back-end calls into xml.dom.minidom; a minidom method that recurses once per tree level (read off the
    standard library's source: normalize, writexml / toxml, unlink, a deep cloneNode, ...) turns input nesting depth into Python
    recursion depth, i.e. RecursionError for a few thousand nested elements.  No function on the parse path may call one."""
    from .c04 import _stdlib_source
    r = ctx.r
    tree = _stdlib_source("xml.dom.minidom")
    if tree is None:
        r.idiom("C03.22", False, "minidom-recursive-methods", "treebuilders/dom.py", "the source of xml.dom.minidom was not found")
        return
    # a function recurses over the *depth* of the tree when, inside a loop over child nodes, it calls itself (by its own name) on /
    # with the loop variable; wrappers of such functions (toxml -> toprettyxml -> writexml, cloneNode -> _clone_node) inherit that
    calls, depth_rec = {}, set()
    for fn in ast.walk(tree):
        if isinstance(fn, ast.FunctionDef):
            out = calls.setdefault(fn.name, set())
            for c in ast.walk(fn):
                if isinstance(c, ast.Call):
                    out.add(c.func.attr if isinstance(c.func, ast.Attribute) else c.func.id if isinstance(c.func, ast.Name) else "")
            for lp in ast.walk(fn):
                if isinstance(lp, ast.For) and isinstance(lp.target, ast.Name) and "childNodes" in norm(lp.iter):
                    v = lp.target.id
                    for c in ast.walk(lp):
                        if isinstance(c, ast.Call):
                            nm = c.func.attr if isinstance(c.func, ast.Attribute) else c.func.id if isinstance(c.func, ast.Name) else ""
                            uses_v = (isinstance(c.func, ast.Attribute) and norm(c.func.value) == v) or any(norm(a) == v for a in c.args)
                            if nm == fn.name and uses_v:
                                depth_rec.add(fn.name)
    if not {"normalize", "unlink", "writexml", "_clone_node"} <= depth_rec:
        raise AnalysisError("C03.22: the depth-recursive minidom methods were not recognised (%s)" % sorted(depth_rec))
    # wrappers, each confirmed against the source: the wrapper's own body reaches the depth-recursive function it is listed with
    WRAPPERS = {"toprettyxml": "writexml", "toxml": "toprettyxml", "cloneNode": "_clone_node", "importNode": "_clone_node"}
    reach_rec = set(depth_rec)
    for w, target in WRAPPERS.items():
        if target in calls.get(w, ()) and (target in reach_rec or WRAPPERS.get(target) in calls.get(target, ())):
            reach_rec.add(w)
    mod = ctx.repo.module("treebuilders/dom.py")
    n = 0
    for f in mod.all_functions:
        if f.name in ("testSerializer", "serializeElement", "dom2sax"):
            continue                  # debugging / conversion helpers, not on the parse path
        for c in walk_no_nested(f.node):
            if isinstance(c, ast.Call) and isinstance(c.func, ast.Attribute):
                nm = c.func.attr
                n += 1
                shallow_clone = nm == "cloneNode" and c.args and isinstance(c.args[0], ast.Constant) and c.args[0].value is False
                rec = nm in reach_rec and not shallow_clone and not norm(c.func.value).startswith(("self.tree", "base.", "self.parser"))
                own = any(nm in cl.methods for cl in mod.all_classes)
                r.check("C03.22", not rec or own, "minidom-call::%s::%s" % (f.qual, nm), "treebuilders/dom.py:%d" % c.lineno,
                        "%s calls %s(), which in xml.dom.minidom calls itself once per tree level: parsing a document nested a few thousand "
                        "elements deep with the dom tree builder raises RecursionError" % (f.qual, nm), {"method": nm})
    if n < 10:
        raise AnalysisError("C03.22: only %d calls found in treebuilders/dom.py" % n)


# ---------------------------------------------------------------------------- C03.6
def dispatch_total(ctx):
    r = ctx.r
    pm = model(ctx)
    for key, c in pm.phases.items():
        for kind in ("StartTag", "EndTag"):
            missing = []
            for n in pm.domain:
                h, how = pm.handler(c, kind, n)
                if h is None:
                    missing.append((n, how))
            r.check("C03.6", not missing, "%s/%s" % (key, kind), c.where,
                    "phase %s has no %s handler for %s" % (key, kind, missing[:3]), {"missing": missing[:5]})
        for meth in ("processCharacters", "processSpaceCharacters", "processComment", "processDoctype", "processEOF"):
            m = c.find_method(meth)
            bad = m is None
            if m is not None and meth == "processEOF" and key in pm.assignable_keys:
                # the base implementation raises NotImplementedError
                bad = m.cls is pm.Phase
            r.check("C03.6", not bad, "%s/%s" % (key, meth), c.where,
                    "phase %s can be the current phase but has no concrete %s" % (key, meth))


def run(ctx):
    r = ctx.r
    r.explanation = (
        "The tree-construction stage is modelled as a call graph whose dispatcher tables (MethodDispatcher literals) are "
        "evaluated and whose tag-token names are propagated through impliedTagToken constants and dispatcher keys; on "
        "it: SCCs (recursion), reachability of element/text insertion per phase and tag name (skeleton), handler "
        "totality. Pop loops and deep indexes on the stack of open elements are checked for a dominating scope test "
        "or sentinel on the per-function CFG. Constant-key subscripts are checked against evaluated tables.")
    r.not_decided = NOT_DECIDED
    r.rule("C03.1", "constant / statically known keys index existing entries of constant mappings", floor=300)
    r.rule("C03.2", "call-graph SCCs of tree construction are in the allow-table of input-independent depth", floor=3)
    r.rule("C03.4", "skeleton: one root creator; html/head/body created only by the standard's handlers; no text above body", floor=15)
    r.rule("C03.5", "pop loops / deep indexes on the open-element stack are dominated by a scope test or sentinel", floor=20)
    r.rule("C03.7", "a node detached from the tree while on the stack of open elements is removed from the stack on every path", floor=1)
    r.rule("C03.8", "a local initialised to None and tested elsewhere is not dereferenced on a path on which it can be None", floor=3)
    r.rule("C03.10", "name tests in resetInsertionMode apply to HTML-namespace elements only", floor=2)
    r.rule("C03.11", "a possibly-None return component is not passed to a parameter that is dereferenced unconditionally", floor=2)
    r.rule("C03.9", "a handler that hands the token back for reprocessing has changed the insertion mode / stack first", floor=40)
    r.rule("C03.12", "insertion-mode transitions are the standard's (handlers rely on the skeleton their mode implies: body element, frameset, table context)", floor=120)
    r.rule("C03.14", "HTML-ness of a stack node is tested against tree.defaultNamespace, never the constant XHTML namespace", floor=5)
    r.rule("C03.15", "the DOM back-end removes a child only after checking the real parent", floor=1)
    r.rule("C03.13", "int() of input text uses a power-of-two radix, a ValueError handler or a length guard", floor=1)
    r.rule("C03.19", "neither StopIteration nor ValueError can leave the encoding pre-scan (cursor typestate + exception flow)", floor=1)
    r.rule("C03.20", "a single pop of the stack of open elements has evidence that the current node is not the root", floor=30)
    r.rule("C03.21", "within one insertion mode an element name is looked up in one kind of scope", floor=15)
    r.rule("C03.22", "the DOM back-end calls no minidom method that recurses over the depth of the tree", floor=10)
    r.rule("C03.23", "every entry into a mode whose handlers pop on the mode's current-node invariant establishes that invariant", floor=20)
    r.rule("C03.6", "every phase has a concrete handler for every token kind and tag name", floor=100)
    constkey(ctx)
    recursion(ctx)
    skeleton(ctx)
    pop_guard(ctx)
    detached_leaves_stack(ctx)
    none_use(ctx)
    reprocess_progress(ctx)
    html_names_need_html_namespace(ctx)
    current_node_name_beliefs(ctx)
    none_argument(ctx)
    from . import modes
    modes.run(ctx, "C03.12")
    bounded_int(ctx)
    from . import wslint
    wslint.run(ctx, "C03.16")
    html_namespace_tests(ctx)
    from .c06 import bom_read_and_seek
    bom_read_and_seek(ctx, "C03.17", "C03.18")
    prescan_exception_flow(ctx)
    single_pops(ctx)
    mode_entry_evidence(ctx)
    scope_variant_agreement(ctx)
    stdlib_recursion(ctx)
    dispatch_total(ctx)
    from . import c03_tok
    c03_tok.run(ctx)


def thorough(ctx):
    from .. import selftest
    selftest.run(ctx, sys.modules[__name__])


def mutants():
    from ..selftest import TextMutant as T
    return [
        T("single-pop-guard-not-a-scope-test", "html5parser.py", "    def ignoreEndTagTr(self):\n        return not self.tree.elementInScope(\"tr\", variant=\"table\")", "    def ignoreEndTagTr(self):\n        return self.tree.openElements[-1].name == \"html\"", "C03.20"),
        T("closecell-default-scope", "html5parser.py", "        if self.tree.elementInScope(\"td\", variant=\"table\"):\n            self.endTagTableCell(impliedTagToken(\"td\"))", "        if self.tree.elementInScope(\"td\"):\n            self.endTagTableCell(impliedTagToken(\"td\"))", "C03.21"),
        T("reset-head-context-inhead", "html5parser.py", '            "head": "inBody",', '            "head": "inHead",', "C03.23"),
        T("noscript-rawtext-no-insert", "html5parser.py", "        else:\n            self.tree.insertElement(token)\n            self.parser.phase = self.parser.phases[\"inHeadNoscript\"]",
          "        else:\n            self.parser.phase = self.parser.phases[\"inHeadNoscript\"]", "C03.23"),
        T("dom-normalize", "treebuilders/dom.py", "            return base.TreeBuilder.getFragment(self).element", "            fragment = base.TreeBuilder.getFragment(self).element\n            fragment.normalize()\n            return fragment", "C03.22"),
        T("bom-single-read", "_inputstream.py", "        while len(string) < 4:\n            more = self.rawStream.read(4 - len(string))\n            if not more:\n                break\n            string += more\n", "", "C03.18"),
        T("bom-seek-constant", "_inputstream.py", "        encoding = None\n        seek = 0\n        for bom, name in bomDict.items():\n            if string.startswith(bom):\n                encoding = name\n                seek = len(bom)\n                break\n",
          "        encoding = bomDict.get(string[:3])\n        seek = 3\n        if not encoding:\n            encoding = bomDict.get(string[:2])\n            seek = 2\n", "C03.17"),
        T("foreign-endtag-constant-ns", "html5parser.py", "            if node.namespace != self.tree.defaultNamespace:\n                continue\n            else:\n                new_token = self.parser.phase.processEndTag(token)", "            if node.namespace != namespaces[\"html\"]:\n                continue\n            else:\n                new_token = self.parser.phase.processEndTag(token)", "C03.14"),
        T("dom-removechild-unguarded", "treebuilders/dom.py", "            if node.element.parentNode == self.element:\n                self.element.removeChild(node.element)", "            self.element.removeChild(node.element)", "C03.15"),
        T("table-eof-name-only", "html5parser.py", "        if (self.tree.openElements[-1].name != \"html\" or\n                self.tree.openElements[-1].namespace != self.tree.defaultNamespace):\n            self.parser.parseError(\"eof-in-table\")",
          "        if self.tree.openElements[-1].name != \"html\":\n            self.parser.parseError(\"eof-in-table\")", "C03.10"),
        T("table-body-context-name-only", "html5parser.py", "        while (self.tree.openElements[-1].namespace != self.tree.defaultNamespace or\n               self.tree.openElements[-1].name not in (\"tbody\", \"tfoot\",\n                                                       \"thead\", \"html\")):",
          "        while self.tree.openElements[-1].name not in (\"tbody\", \"tfoot\", \"thead\", \"html\"):", "C03.10"),
        T("int-unbounded-digits", "_tokenizer.py", "        number = \"\".join(charStack).lstrip(\"0\")\n        if len(number) > 7:\n            charAsInt = 0x110000\n        else:\n            charAsInt = int(number or \"0\", radix)\n",
          "        charAsInt = int(\"\".join(charStack), radix)\n", "C03.13"),
        T("inrow-endtable-unguarded", "html5parser.py",
          "        # Reprocess the current tag if the tr end tag was not ignored\n        # XXX how are we sure it's always ignored in the innerHTML case?\n        if not ignoreEndTag:\n            return token",
          "        # Reprocess the current tag if the tr end tag was not ignored\n        return token", "C03.9"),
        T("intable-table-unguarded", "html5parser.py",
          "        self.parser.phase.processEndTag(impliedTagToken(\"table\"))\n        if not ignoreEndTag:\n            return token\n\n    def startTagStyleScript",
          "        self.parser.phase.processEndTag(impliedTagToken(\"table\"))\n        return token\n\n    def startTagStyleScript", "C03.9"),
        T("mode-tr-to-cell", "html5parser.py",
          "        self.tree.insertElement(token)\n        self.parser.phase = self.parser.phases[\"inRow\"]\n",
          "        self.tree.insertElement(token)\n        self.parser.phase = self.parser.phases[\"inCell\"]\n", "C03.12"),
        T("mode-afterbody-html-to-frameset", "html5parser.py",
          "            self.parser.phase = self.parser.phases[\"afterAfterBody\"]", "            self.parser.phase = self.parser.phases[\"afterAfterFrameset\"]", "C03.12"),
        T("mode-space-after-after-body", "html5parser.py",
          "    def processSpaceCharacters(self, token):\n        return self.parser.phases[\"inBody\"].processSpaceCharacters(token)\n\n    def processCharacters(self, token):\n        self.parser.parseError(\"expected-eof-but-got-char\")\n        self.parser.phase = self.parser.phases[\"inBody\"]",
          "    def processSpaceCharacters(self, token):\n        self.parser.phase = self.parser.phases[\"inBody\"]\n        return self.parser.phases[\"inBody\"].processSpaceCharacters(token)\n\n    def processCharacters(self, token):\n        self.parser.parseError(\"expected-eof-but-got-char\")\n        self.parser.phase = self.parser.phases[\"inBody\"]", "C03.12"),
        T("mode-frameset-end-dropped", "html5parser.py",
          "            self.parser.phase = self.parser.phases[\"afterFrameset\"]", "            pass", "C03.12"),
        T("phase-key-typo", "html5parser.py", 'self.parser.phase = self.parser.phases["afterAfterFrameset"]',
          'self.parser.phase = self.parser.phases["afterAfterFramset"]', "C03"),
        T("tokentype-typo", "html5parser.py", '{"type": tokenTypes["Characters"], "data": prompt}',
          '{"type": tokenTypes["Character"], "data": prompt}', "C03.1"),
        T("recursive-implied", "treebuilders/base.py",
          "            name = self.openElements[-1].name\n\n    def getDocument",
          "            name = self.openElements[-1].name\n            return self.generateImpliedEndTags(exclude)\n\n    def getDocument", "C03.2"),
        T("image-loop", "html5parser.py", 'self.processStartTag(impliedTagToken("img", "StartTag",',
          'self.processStartTag(impliedTagToken("image", "StartTag",', "C03.2"),
        T("drop-scope-test", "html5parser.py",
          '        if self.tree.elementInScope("select", variant="select"):\n            node = self.tree.openElements.pop()\n            while node.name != "select":\n                node = self.tree.openElements.pop()\n            self.parser.resetInsertionMode()\n        else:\n            # innerHTML case\n            assert self.parser.innerHTML\n            self.parser.parseError()',
          '        node = self.tree.openElements.pop()\n        while node.name != "select":\n            node = self.tree.openElements.pop()\n        self.parser.resetInsertionMode()', "C03.5"),
        T("html-generic", "html5parser.py",
          '    startTagHandler = _utils.MethodDispatcher([\n        ("html", Phase.startTagHtml),\n        (("base", "basefont", "bgsound", "command", "link", "meta",\n          "script", "style", "title"),\n         startTagProcessInHead),',
          '    startTagHandler = _utils.MethodDispatcher([\n        (("base", "basefont", "bgsound", "command", "link", "meta",\n          "script", "style", "title"),\n         startTagProcessInHead),', "C03.4"),
        T("body-in-inbody", "html5parser.py", '        ("body", startTagBody),\n        ("frameset", startTagFrameset),\n        (("address",',
          '        ("frameset", startTagFrameset),\n        (("address",', "C03.4"),
        T("text-after-frameset", "html5parser.py",
          '    def processCharacters(self, token):\n        self.parser.parseError("unexpected-char-after-frameset")',
          '    def processCharacters(self, token):\n        self.parser.parseError("unexpected-char-after-frameset")\n        self.tree.insertText(token["data"])', "C03.4"),
        T("second-root", "html5parser.py", '    def processEOF(self):\n        self.startTagHead(impliedTagToken("head", "StartTag"))\n        return True',
          '    def processEOF(self):\n        self.tree.insertRoot(impliedTagToken("html", "StartTag"))\n        self.startTagHead(impliedTagToken("head", "StartTag"))\n        return True', "C03.4"),
        T("missing-eof", "html5parser.py", '    def processEOF(self):\n        # Stop parsing\n        pass\n\n    def processCharacters(self, token):\n        self.parser.parseError("unexpected-char-after-frameset")',
          '    def processCharacters(self, token):\n        self.parser.parseError("unexpected-char-after-frameset")', "C03.6"),
        T("deep-index", "html5parser.py", '        if (self.tree.openElements[-1].name == "option" and\n                self.tree.openElements[-2].name == "optgroup"):',
          '        if (self.tree.openElements[-2].name == "optgroup"):', "C03.5"),
        T("tok-self-reconsume", "_tokenizer.py", "            self.stream.unget(data)\n            self.state = self.beforeAttributeNameState\n        return True\n\n    def selfClosingStartTagState",
          "            self.stream.unget(data)\n            self.state = self.afterAttributeValueState\n        return True\n\n    def selfClosingStartTagState", "C03.3"),
        T("tok-eof-loop", "_tokenizer.py", "        elif data is EOF:\n            self.tokenQueue.append({\"type\": tokenTypes[\"ParseError\"], \"data\":\n                                    \"eof-in-tag-name\"})\n            self.state = self.dataState",
          "        elif data is EOF:\n            self.tokenQueue.append({\"type\": tokenTypes[\"ParseError\"], \"data\":\n                                    \"eof-in-tag-name\"})", "C03.3"),
        T("frameset-inserts-whole-run", "html5parser.py", "        self.parser.parseError(\"unexpected-char-in-frameset\")\n        # the white space inside a run of characters is not ignored\n        data = \"\".join([c for c in token[\"data\"] if c in spaceCharacters])\n",
          "        self.parser.parseError(\"unexpected-char-in-frameset\")\n        data = token[\"data\"]\n", "C03.4"),
        T("frameset-keeps-body-on-stack", "html5parser.py", "            while (self.tree.openElements[-1].namespace != self.tree.defaultNamespace or\n                   self.tree.openElements[-1].name != \"html\"):\n                self.tree.openElements.pop()\n            self.tree.insertElement(token)\n            self.parser.phase = self.parser.phases[\"inFrameset\"]",
          "            del self.tree.openElements[2:]\n            self.tree.insertElement(token)\n            self.parser.phase = self.parser.phases[\"inFrameset\"]", "C03.7"),
        T("none-deref", "treebuilders/base.py", "            if lastTable.parent:\n                fosterParent = lastTable.parent", "            if lastTable.parent or fosterParent.parent:\n                fosterParent = lastTable.parent", "C03.8"),
        T("cdata-no-eof-exit", "_tokenizer.py", "            if char == EOF:\n                break\n            else:\n                assert char == \">\"", "            if False:\n                break\n            else:\n                pass", "C03.3"),
        T("reprocess-without-progress", "html5parser.py", "    def startTagHead(self, token):\n        self.parser.parseError(\"unexpected-start-tag\", {\"name\": token[\"name\"]})\n\n    def startTagOther(self, token):\n        self.anythingElse()\n        return token",
          "    def startTagHead(self, token):\n        self.parser.parseError(\"unexpected-start-tag\", {\"name\": token[\"name\"]})\n        return token\n\n    def startTagOther(self, token):\n        self.anythingElse()\n        return token", "C03.9"),
        T("name-test-before-ns-filter", "html5parser.py", "            if not last and node.namespace != self.tree.defaultNamespace:\n                continue\n\n            # Check for conditions that should only happen in the innerHTML\n            # case\n            if nodeName in (\"select\", \"colgroup\", \"head\", \"html\"):\n                assert self.innerHTML\n",
          "            if nodeName in (\"select\", \"colgroup\", \"head\", \"html\"):\n                assert self.innerHTML\n\n            if not last and node.namespace != self.tree.defaultNamespace:\n                continue\n", "C03.10"),
        T("none-insertbefore", "html5parser.py", "                if insertBefore is None:\n                    parent.appendChild(lastNode)\n                else:\n                    parent.insertBefore(lastNode, insertBefore)",
          "                parent.insertBefore(lastNode, insertBefore)", "C03.11"),
        T("prescan-setter-validates-new-position", "_inputstream.py", "    def setPosition(self, position):\n        if self._position >= len(self):",
          "    def setPosition(self, position):\n        if position >= len(self):", "C03.19"),
        T("prescan-jumpto-outside-bracket", "_inputstream.py", "            try:\n                self.data.jumpTo(b\"<\")\n            except StopIteration:\n                break\n",
          "            self.data.jumpTo(b\"<\")\n", "C03.19"),
        T("prescan-jumpto-valueerror-unconverted", "_inputstream.py", "        try:\n            self._position = self.index(bytes, self.position) + len(bytes) - 1\n        except ValueError:\n            raise StopIteration\n",
          "        self._position = self.index(bytes, self.position) + len(bytes) - 1\n", "C03.19"),
        T("prescan-handler-bracket-catches-valueerror", "_inputstream.py", "                    except StopIteration:\n                        keepParsing = False\n                        break",
          "                    except ValueError:\n                        keepParsing = False\n                        break", "C03.19"),
        T("prescan-matchbytes-rereads-position", "_inputstream.py", "        if rv:\n            self.position += len(bytes)\n        return rv",
          "        if rv:\n            self.position += len(bytes)\n        return rv and self.position is not None", "C03.19"),
        T("variant-typo", "html5parser.py", 'return not self.tree.elementInScope("tr", variant="table")', 'return not self.tree.elementInScope("tr", variant="tables")', "C03.1"),
    ]


def preserving():
    from ..selftest import TextMutant as T
    return [
        T("loop-instead", "html5parser.py", '            node = self.tree.openElements.pop()\n            while node.name != "select":\n                node = self.tree.openElements.pop()\n',
          '            while self.tree.openElements.pop().name != "select":\n                pass\n', None),
        T("frameset-del-slice", "html5parser.py", "            while (self.tree.openElements[-1].namespace != self.tree.defaultNamespace or\n                   self.tree.openElements[-1].name != \"html\"):\n                self.tree.openElements.pop()\n            self.tree.insertElement(token)\n            self.parser.phase = self.parser.phases[\"inFrameset\"]",
          "            del self.tree.openElements[1:]\n            self.tree.insertElement(token)\n            self.parser.phase = self.parser.phases[\"inFrameset\"]", None),
        T("prescan-setter-not-lt", "_inputstream.py", "    def setPosition(self, position):\n        if self._position >= len(self):",
          "    def setPosition(self, position):\n        if not self._position < len(self):", None),
        T("prescan-getter-alias", "_inputstream.py", "    def getPosition(self):\n        if self._position >= len(self):\n            raise StopIteration\n        if self._position >= 0:\n            return self._position",
          "    def getPosition(self):\n        here = self._position\n        if len(self) <= here:\n            raise StopIteration\n        if here >= 0:\n            return here", None),
        T("prescan-matchbytes-early-return", "_inputstream.py", "        if rv:\n            self.position += len(bytes)\n        return rv",
          "        if not rv:\n            return False\n        self.position += len(bytes)\n        return True", None),
        T("prescan-bracket-tuple", "_inputstream.py", "            try:\n                self.data.jumpTo(b\"<\")\n            except StopIteration:\n                break\n",
          "            try:\n                self.data.jumpTo(b\"<\")\n            except (StopIteration, ValueError):\n                break\n", None),
        T("reorder-dispatch", "html5parser.py", '        ("html", startTagHtml),\n        ("body", startTagBody),\n        ("frameset", startTagFrameset),',
          '        ("body", startTagBody),\n        ("html", startTagHtml),\n        ("frameset", startTagFrameset),', None),
    ]
