"""C03.3 tokenizer progress -- filled in with the tokenizer model."""


def run(ctx):
    return
