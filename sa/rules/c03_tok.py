"""C03.3 tokenizer progress: tokenization of any finite input terminates.

In the tokenizer model, per atom, the epsilon-graph (arms that give the atom back -- or read nothing -- and switch
state) must be acyclic; EOF is never consumed, so the EOF-successor graph over all states must be acyclic and end in
STOP (`return False`).  Every other arm consumes at least one character.
"""
from ..repo import AnalysisError
from ..partition import ATOMS, atom_name
from .c02 import tokmodel, short


def run(ctx):
    r = ctx.r
    tm = tokmodel(ctx)
    r.rule("C03.3", "tokenizer: per-atom reconsume graph acyclic; EOF chain from every state reaches STOP", floor=130)
    n_eps = 0
    for a in ATOMS:
        edges = {}
        for s in tm.states:
            outs = set()
            for combo in tm.combos(s):
                arm = tm.arm(s, a, combo)
                consumes = tm.reads_char(s) and not arm.unget and a is not None and s not in ("bogusCommentState",)
                if arm.stop:
                    continue
                if not consumes:
                    nxt = arm.next or s
                    outs.add(nxt)
            edges[s] = outs
            n_eps += len(outs)
        # cycle detection
        color = {}
        cyc = []

        def dfs(u, path):
            color[u] = 1
            for v in sorted(edges.get(u, ())):
                if color.get(v) == 1:
                    cyc.append(path + [u, v])
                elif v not in color:
                    dfs(v, path + [u])
            color[u] = 2
        for s in tm.states:
            if s not in color:
                dfs(s, [])
        key = "no-progress-cycle[%s]" % atom_name(a)
        r.check("C03.3", not cyc, key, "_tokenizer.py",
                "on input %s the tokenizer can cycle through %s without consuming a character: it never terminates"
                % (atom_name(a), [short(x) for x in (cyc[0] if cyc else [])]),
                {"cycle": [short(x) for x in (cyc[0] if cyc else [])]},
                detail={"atom": atom_name(a), "epsilon_edges": sum(len(v) for v in edges.values())})
    # EOF chain ends in STOP from every state
    for s in tm.states:
        seen, cur, ok = set(), {s}, True
        steps = 0
        reach_stop = True
        frontier = {s}
        visited = set()
        while frontier:
            nxt = set()
            for u in frontier:
                if u in visited:
                    continue
                visited.add(u)
                for combo in tm.combos(u):
                    arm = tm.arm(u, None, combo)
                    if arm.stop:
                        continue
                    nxt.add(arm.next or u)
            frontier = nxt - visited
            steps += 1
            if steps > 100:
                reach_stop = False
                break
        # acyclicity on EOF was established above; additionally some state on the chain must STOP
        stops = any(tm.arm(u, None, combo).stop for u in visited for combo in tm.combos(u))
        r.check("C03.3", reach_stop and stops, "eof-chain[%s]" % short(s), "_tokenizer.py",
                "from state %s the end of input never stops tokenization" % short(s), detail={"state": short(s), "chain": len(visited)})
    r.extra["tokenizer_epsilon_edges"] = n_eps
    # loops inside single states: the CDATA section scanner must leave its `while True` at EOF
    r.check("C03.3", getattr(tm, "cdata_eof_exit", False), "cdata-section-eof-exit", "_tokenizer.py",
            "the CDATA section state has no exit at end of input: `<svg><![CDATA[x` never finishes tokenizing",
            detail={"eof_exit": getattr(tm, "cdata_eof_exit", False)})
    # every other `while` in a state method or helper reads a character per iteration and stops at EOF
    import ast as _ast
    from ..repo import norm as _norm
    for mn, m in tm.cls.methods.items():
        for w in [n for n in _ast.walk(m.node) if isinstance(n, _ast.While)]:
            if mn in ("cdataSectionState", "__iter__"):
                continue
            t = _norm(w.test)
            stops = "EOF" in t or "charStack" == t or any(
                isinstance(x, _ast.Break) for x in _ast.walk(w)) and "EOF" in _norm(w)
            r.check("C03.3", stops, "loop-stops-at-eof::%s::while %s" % (mn, t[:40]), "_tokenizer.py:%d" % w.lineno,
                    "the loop `while %s` in %s has no end-of-input exit" % (t[:60], mn), detail={"method": mn})
