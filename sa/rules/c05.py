"""C05 -- the result does not depend on how the input characters are delivered.

The property quantifies over segmentations of the input; positions and buffer arithmetic are
run-time quantities and are NOT decided.  Three structural necessary conditions are:

C05.1 ORDER      "\\r\\n" -> "\\n" is applied before the lone "\\r" -> "\\n" on the same variable
C05.2 PAIRING    withholding the last character is paired with truncating the data; re-injecting
                 the withheld character is paired with clearing it
C05.3 COVERAGE   on every path from the read to the normalisation with non-empty data, the
                 trailing-CR / lead-surrogate test has been evaluated (abstract len(data) in {0, 1, >=2})
"""
from __future__ import annotations

import ast
import sys

from ..repo import AnalysisError, attr_chain, norm, walk_no_nested
from ..cfg import CFG, node_calls

LEVEL = "other"
TECHNIQUE = "CFG ordering / pairing queries and a branch partition over abstract data lengths on readChunk; reachability of the normalisation from every read-ahead without a re-evaluated last-character test; source evaluation (sa/classeval.py) of DecodingReader and BufferedStream on byte sources that deliver short reads"
CLAIM = ('Three necessary conditions of chunk-boundary independence in readChunk, over all paths: CR LF is '
         'normalised before lone CR; a withheld trailing character is removed from the data exactly when it is '
         'buffered and is cleared exactly when it is re-injected; every non-empty read evaluates the trailing- '
         'CR / lead-surrogate test before normalisation; chunk and chunkSize are updated together with '
         'agreeing values; char() refills at the chunk end and unget() prepends at a chunk start. Whatever '
         'readChunk publishes as the chunk has passed the lone-CR replacement; the position of the chunk being '
         'replaced is accumulated from its old size on every path that replaces or resets it; charsUntil '
         "treats 'no match' as a stop only when the offset is not at the chunk end. BufferedStream records "
         'every read, and run from its source on sources delivering short reads it returns at every read the bytes that follow its position (C05.18); the decoder is the one of the resolved encoding object; reset() re-initialises every '
         'attribute the reading methods write; unget() at a chunk start compensates the position counters '
         '(known finding: it does not).'
         ' A one-character read that is a CR / lead surrogate is extended by the next read; errors queued by the chunk-level character scan carry no position (known finding); the pre-scan buffer is completed across short reads. After every read-ahead that appends to the chunk the last-character test is evaluated again before the chunk is normalised. The decoding reader over a byte source returns \'\' only at the end of the input (run on sources that split a character across reads).')
NOT_DECIDED = ('everything else: line/column arithmetic inside _position, decoder behaviour, '
               'equality of trees and error lists for all segmentations.')
MODULES = ["_inputstream.py"]
REL = "_inputstream.py"


def run(ctx):
    r = ctx.r
    repo = ctx.repo
    r.explanation = (
        "readChunk's CFG is queried for: order of the two newline replacements; pairing of the carry-over stores; and, for "
        "abstract data lengths 1 and >=2, whether every path from the read to the replacements evaluates the test on the last "
        "character (guards on len(data)/truthiness of data are decided, all other tests explored both ways).")
    r.not_decided = NOT_DECIDED
    publish_rules(ctx)
    replay_buffer(ctx)
    r.rule("C05.8", "bytes are decoded by the codec of the encoding object the label resolved to", floor=1)
    from .c06 import decoder_rule
    decoder_rule(ctx, "C05.8")
    stream_reset(ctx, "C05.9")
    unget_position(ctx)
    delivery_rules(ctx)
    reader_never_empty_midstream(ctx)
    buffered_stream_replay(ctx)
    stream_error_positions(ctx)
    from .c06 import bom_read_and_seek
    bom_read_and_seek(ctx, "C05.13", "C05.14")
    from .c06 import prescan_buffer_complete
    prescan_buffer_complete(ctx, "C05.16")
    r.rule("C05.1", "CR LF replacement precedes lone CR replacement on the same variable", floor=1)
    r.rule("C05.2", "carry-over stores are paired (buffer<->truncate, re-inject<->clear)", floor=2)
    r.rule("C05.3", "every non-empty read evaluates the trailing-CR / lead-surrogate test before normalisation", floor=2)
    f = repo.func(REL, "HTMLUnicodeInputStream.readChunk")
    cfg = CFG(f.node)

    def replace_node(old):
        out = []
        for n in cfg.stmt_nodes():
            if n.kind == "stmt" and isinstance(n.ast, ast.Assign) and isinstance(n.ast.value, ast.Call) and \
                    isinstance(n.ast.value.func, ast.Attribute) and n.ast.value.func.attr == "replace" and \
                    len(n.ast.value.args) == 2 and isinstance(n.ast.value.args[0], ast.Constant) and \
                    n.ast.value.args[0].value == old and isinstance(n.ast.value.args[1], ast.Constant) and \
                    n.ast.value.args[1].value == "\n" and norm(n.ast.targets[0]) == norm(n.ast.value.func.value):
                out.append(n)
        return out
    crlf, cr = replace_node("\r\n"), replace_node("\r")
    if len(crlf) != 1 or len(cr) != 1:
        raise AnalysisError("readChunk: newline normalisation idiom not found (crlf=%d cr=%d)" % (len(crlf), len(cr)))
    same_var = norm(crlf[0].ast.targets[0]) == norm(cr[0].ast.targets[0])
    bad = cfg.must_precede(cr, lambda n: n is crlf[0])
    r.check("C05.1", same_var and not bad, "crlf-before-cr", "%s:%d" % (REL, cr[0].lineno),
            "the lone-CR replacement can run before the CR LF replacement: every CR LF becomes two newlines",
            detail={"order": [crlf[0].lineno, cr[0].lineno]})
    var = norm(crlf[0].ast.targets[0])

    # ---- C05.2
    def store_buf(n, pred):
        return n.kind == "stmt" and isinstance(n.ast, ast.Assign) and attr_chain(n.ast.targets[0]) == ["self", "_bufferedCharacter"] \
            and pred(n.ast.value)
    last_aliases = {a.targets[0].id for a in ast.walk(f.node) if isinstance(a, ast.Assign) and len(a.targets) == 1 and isinstance(a.targets[0], ast.Name)
                    and norm(a.value) == "%s[-1]" % var}
    withhold = [n for n in cfg.stmt_nodes() if store_buf(n, lambda v: norm(v) == "%s[-1]" % var or (isinstance(v, ast.Name) and v.id in last_aliases))]
    clear = [n for n in cfg.stmt_nodes() if store_buf(n, lambda v: isinstance(v, ast.Constant) and v.value is None)]
    trunc = lambda n: n.kind == "stmt" and isinstance(n.ast, ast.Assign) and norm(n.ast.targets[0]) == var and \
        norm(n.ast.value) == "%s[:-1]" % var  # noqa: E731
    inject = [n for n in cfg.stmt_nodes() if n.kind == "stmt" and isinstance(n.ast, ast.Assign) and norm(n.ast.targets[0]) == var
              and norm(n.ast.value) == "self._bufferedCharacter + %s" % var]
    if len(withhold) != 1 or len(inject) != 1:
        raise AnalysisError("readChunk: carry-over idiom not found (withhold=%d inject=%d)" % (len(withhold), len(inject)))
    b1 = cfg.must_follow(withhold, trunc)
    truncs = [n for n in cfg.stmt_nodes() if trunc(n)]
    b1b = cfg.must_precede(truncs, lambda n: n in withhold) if truncs else [1]
    r.check("C05.2", not b1 and not b1b, "withhold<->truncate", "%s:%d" % (REL, withhold[0].lineno),
            "the last character is buffered without being removed from the data (duplicated) or removed without being buffered (lost)",
            detail={"paired": True})
    b2 = cfg.must_follow(inject, lambda n: n in clear)
    r.check("C05.2", not b2 and bool(clear), "inject<->clear", "%s:%d" % (REL, inject[0].lineno),
            "the withheld character is re-injected without clearing the buffer: it is duplicated at the next chunk",
            detail={"paired": True})

    # ---- C05.3
    reads = [n for n in cfg.stmt_nodes() if n.kind == "stmt" and isinstance(n.ast, ast.Assign) and norm(n.ast.targets[0]) == var
             and any(norm(c.func) == "self.dataStream.read" for c in node_calls(n))]
    if len(reads) != 1:
        raise AnalysisError("readChunk: the read of dataStream was not found")

    def _is_last_char_text(t):
        return ("13" in t or "0x0D" in t or "'\\r'" in t) and ("lastv" in t or "%s[-1]" % var in t or t.startswith("%s == " % var))
    # named booleans: `endsWithCR = lastv == 0x0D` ... `if endsWithCR or ..:`
    test_aliases = {a.targets[0].id for a in ast.walk(f.node) if isinstance(a, ast.Assign) and len(a.targets) == 1 and isinstance(a.targets[0], ast.Name)
                    and isinstance(a.value, (ast.Compare, ast.BoolOp)) and _is_last_char_text(norm(a.value))}

    def last_char_test(n):
        if n.kind != "test":
            return False
        if any(isinstance(x, ast.Name) and x.id in test_aliases for x in ast.walk(n.ast)):
            return True
        t = norm(n.ast)
        # `lastv == 0x0D` / `data[-1] == '\r'`, or -- for a one-character read -- `data == '\r'`
        return ("13" in t or "0x0D" in t or "'\\r'" in t) and ("lastv" in t or "%s[-1]" % var in t or t.startswith("%s == " % var))
    tests = [n for n in cfg.nodes if last_char_test(n)]
    if not tests:
        raise AnalysisError("readChunk: trailing-CR test not found")

    def decide(node, length):
        """truth value of a test that depends only on len(data)/truthiness, else None"""
        t = norm(node.ast)
        if t == var:
            return length > 0
        if t == "len(%s) > 1" % var:
            return length > 1
        if t == "len(%s) > 0" % var or t == "len(%s) >= 1" % var:
            return length > 0
        if t == "len(%s) >= 2" % var:
            return length >= 2
        if t == "len(%s) == 1" % var:
            return length == 1
        # any other test (including length tests against run-time quantities) is explored both ways
        return None
    for length, label in ((1, "len(data)=1"), (2, "len(data)>=2")):
        def edge_ok(src, dst, lab, length=length):
            if src.kind == "test":
                d = decide(src, length)
                if d is not None and lab is not d:
                    return False
            return True
        par = cfg.reach_forward(reads, last_char_test, edge_ok)
        reached = crlf[0].id in par
        key = "carry-test-evaluated::%s" % label
        r.check("C05.3", not reached, key, "%s:%d" % (REL, tests[0].lineno),
                "with %s a path from the read reaches the newline normalisation without evaluating the trailing-CR / "
                "lead-surrogate test (path: %s): a CR delivered alone is not held back for the LF that follows"
                % (label, " -> ".join(reversed(cfg.witness(par, crlf[0]))) if reached else ""),
                {"abstract_length": label}, detail={"abstract_length": label, "test_evaluated_on_every_path": True})
    # characters appended to the chunk after the test (a read-ahead) can end in CR / a lead surrogate themselves: the test is
    # evaluated again before the chunk is normalised
    def whole_or_last_test(n):
        return last_char_test(n) or (n.kind == "test" and ("%s == '\\r'" % var) in norm(n.ast))
    ext = [n for n in cfg.stmt_nodes() if n.kind == "stmt" and (
        (isinstance(n.ast, ast.AugAssign) and isinstance(n.ast.op, ast.Add) and norm(n.ast.target) == var) or
        (isinstance(n.ast, ast.Assign) and norm(n.ast.targets[0]) == var and isinstance(n.ast.value, ast.BinOp) and isinstance(n.ast.value.op, ast.Add)
         and norm(n.ast.value.left) == var))]
    for k, e in enumerate(ext):
        # after a non-empty read-ahead the chunk holds at least two characters (an empty one changes nothing: end of input)
        def edge_ok2(src, dst, lab):
            if src.kind == "test":
                d = decide(src, 2)
                if d is not None and lab is not d:
                    return False
            return True
        par = cfg.reach_forward([e], whole_or_last_test, edge_ok2)
        reached = crlf[0].id in par
        r.check("C05.3", not reached, "carry-test-after-read-ahead::%d" % k, "%s:%d" % (REL, e.lineno),
                "`%s` appends what a further read delivered and the chunk is then normalised without looking at its (new) last character "
                "(path: %s): a CR read on its own followed by a read that ends in CR splits the CR LF that the next read completes (CR CR LF "
                "counts three line breaks)" % (norm(e.ast)[:60], " -> ".join(reversed(cfg.witness(par, crlf[0]))) if reached else ""),
                detail={"extension": norm(e.ast)[:60]})
    chunk_invariants(ctx)


def chunk_invariants(ctx):
    """C05.4: `chunkSize` is the length of `chunk` -- every path of a stream method that stores the one stores the other
    (prepending an ungot character at a chunk start grows both); C05.5: char() refills exactly when the offset has
    reached the size, and unget() at a chunk start prepends instead of stepping back."""
    r = ctx.r
    r.rule("C05.4", "chunk and chunkSize are updated together on every path of every stream method", floor=3)
    r.rule("C05.5", "char() refills at offset >= size; unget() prepends at offset 0 and steps back otherwise", floor=3)
    cls = ctx.repo.cls(REL, "HTMLUnicodeInputStream")
    n = 0
    for mn, m in cls.methods.items():
        cfg = CFG(m.node)

        def stores(attr):
            return [x for x in cfg.stmt_nodes() if x.kind == "stmt" and isinstance(x.ast, (ast.Assign, ast.AugAssign)) and any(
                attr_chain(t) == ["self", attr] for t in (x.ast.targets if isinstance(x.ast, ast.Assign) else [x.ast.target]))]
        ch, sz = stores("chunk"), stores("chunkSize")
        if not ch and not sz:
            continue
        n += 1
        bad1 = [a for a in ch if cfg.must_follow([a], lambda x: x in sz) and cfg.must_precede([a], lambda x: x in sz)]
        bad2 = [a for a in sz if cfg.must_follow([a], lambda x: x in ch) and cfg.must_precede([a], lambda x: x in ch)]
        r.check("C05.4", not bad1 and not bad2, "chunk~chunkSize::%s" % mn, m.where,
                "%s updates %s without the other on some path: char() then treats the chunk as shorter/longer than it is and "
                "characters at its end are lost or read twice" % (mn, "self.chunk" if bad1 else "self.chunkSize"),
                detail={"method": mn, "chunk_stores": len(ch), "size_stores": len(sz)})
        # the size stored next to a chunk store agrees with it
        for a in ch:
            v = norm(a.ast.value)
            if v in ("''", '""'):
                ok = any(isinstance(b.ast, ast.Assign) and norm(b.ast.value) == "0" for b in sz)
            elif v == "data":
                ok = any(isinstance(b.ast, ast.Assign) and norm(b.ast.value) == "len(data)" for b in sz)
            elif v == "char + self.chunk":
                ok = any(isinstance(b.ast, ast.AugAssign) and isinstance(b.ast.op, ast.Add) and norm(b.ast.value) == "1" for b in sz)
            else:
                raise AnalysisError("%s: unrecognised chunk store `%s`" % (mn, v))
            r.check("C05.4", ok, "size-agrees::%s::%s" % (mn, v), "%s:%d" % (REL, a.lineno),
                    "%s stores chunk = %s but the size stored with it does not match" % (mn, v))
    if n < 3:
        raise AnalysisError("C05.4 matched %d stream methods" % n)
    # whatever else readChunk derives from the published chunk (an index of its line feeds, a cached length ...) is part of the
    # same invariant: a method that replaces the chunk by a different non-empty text (unget at a chunk start) stores it as well
    rc = cls.methods.get("readChunk")
    if rc is not None:
        cfg = CFG(rc.node)
        pub = [x for x in cfg.stmt_nodes() if x.kind == "stmt" and isinstance(x.ast, ast.Assign) and any(attr_chain(t) == ["self", "chunk"] for t in x.ast.targets)
               and norm(x.ast.value) not in ("''", '""')]
        derived = {}
        for x in cfg.stmt_nodes():
            if x.kind == "stmt" and isinstance(x.ast, ast.Assign) and len(x.ast.targets) == 1 and pub:
                chn = attr_chain(x.ast.targets[0])
                if chn and len(chn) == 2 and chn[0] == "self" and chn[1] not in ("chunk", "chunkSize", "chunkOffset") and \
                        any(norm(y) in ("data", "self.chunk") for y in ast.walk(x.ast.value)) and not cfg.must_precede([x], lambda z: z in pub):
                    derived[chn[1]] = x
        for mn, m in cls.methods.items():
            if mn == "readChunk":
                continue
            repl = [a for a in walk_no_nested(m.node) if isinstance(a, ast.Assign) and any(attr_chain(t) == ["self", "chunk"] for t in a.targets)
                    and norm(a.value) not in ("''", '""')]
            for d, st in sorted(derived.items()):
                if not repl:
                    continue
                has = any(isinstance(a, (ast.Assign, ast.AugAssign)) and any(attr_chain(t) == ["self", d] for t in (a.targets if isinstance(a, ast.Assign) else [a.target]))
                          for a in walk_no_nested(m.node)) or any(isinstance(c_, ast.Call) and attr_chain(c_.func) and attr_chain(c_.func)[:2] == ["self", d]
                                                                   for c_ in walk_no_nested(m.node))
                r.check("C05.4", has, "derived-state::%s::%s" % (mn, d), "%s:%d" % (REL, repl[0].lineno),
                        "readChunk derives self.%s from the chunk it publishes (`%s`), but %s replaces the chunk (`%s`) without bringing self.%s "
                        "up to date: after an unget() at a chunk start everything computed from it (line / column positions of later parse "
                        "errors) is off" % (d, norm(st.ast)[:60], mn, norm(repl[0])[:40], d), {"method": mn, "attribute": d})
    ch = ctx.repo.func(REL, "HTMLUnicodeInputStream.char")
    src = " ".join(norm(ch.node).split())
    r.idiom("C05.5", "if self.chunkOffset >= self.chunkSize: if not self.readChunk(): return EOF" in src, "char-refill", ch.where,
            "char() does not refill exactly when the offset has reached the chunk size",
            wrong=[("if self.chunkOffset > self.chunkSize:" in src or "if self.chunkOffset == self.chunkSize + 1" in src, None)])
    r.idiom("C05.5", "char = self.chunk[chunkOffset] self.chunkOffset = chunkOffset + 1" in src, "char-advance", ch.where,
            "char() does not return the character at the offset and advance by one",
            wrong=[("self.chunkOffset = chunkOffset + 2" in src or "self.chunk[chunkOffset + 1]" in src, None)])
    ug = ctx.repo.func(REL, "HTMLUnicodeInputStream.unget")
    cfg = CFG(ug.node)
    pre = [x for x in cfg.stmt_nodes() if x.kind == "stmt" and norm(x.ast) == "self.chunk = char + self.chunk"]
    back = [x for x in cfg.stmt_nodes() if x.kind == "stmt" and norm(x.ast) == "self.chunkOffset -= 1"]
    def offset_test(x):
        """truth value of a test of the offset alone at offset 0 and at a later offset, or None"""
        if x.kind != "test" or "self.chunkOffset" not in norm(x.ast):
            return None
        vals = []
        for off in (0, 3):
            saved = ctx.ce.hook
            ctx.ce.hook = lambda node, local, off=off: off if norm(node) == "self.chunkOffset" else NotImplemented
            try:
                vals.append(bool(ctx.ce.eval(x.ast, ug.module, {})))
            except Exception:       # noqa: BLE001 -- depends on more than the offset
                return None
            finally:
                ctx.ce.hook = saved
        return tuple(vals)
    at0 = lambda x, lab: offset_test(x) in ((True, False), (False, True)) and offset_test(x)[0] is lab  # noqa: E731
    not0 = lambda x, lab: offset_test(x) in ((True, False), (False, True)) and offset_test(x)[1] is lab  # noqa: E731
    ok = len(pre) == 1 and len(back) == 1 and cfg.dominated_by(pre[0], at0) and cfg.dominated_by(back[0], not0)
    r.idiom("C05.5", ok, "unget-arms", ug.where, "unget() does not prepend at a chunk start and step back otherwise",
            wrong=[(len(pre) == 1 and len(back) == 1 and not ok, None)])


def reader_never_empty_midstream(ctx):
    """C05.17: readChunk takes an empty read for the end of the input (C05.11).  A text reader put over a byte source must
    honour that: when a raw read delivered only the first bytes of a multi-byte character the decoder has nothing to return
    yet -- the reader reads on instead of returning ''.  DecodingReader.read is run from its source (sa/classeval.py) on byte
    sources that split a character across reads, with the standard library's incremental UTF-8 decoder as the model."""
    import codecs
    from ..classeval import ClassEval, Record
    r = ctx.r
    r.rule("C05.17", "the decoding reader returns '' only at the end of the input", floor=3)
    cls = next((c for c in ctx.repo.module(REL).all_classes if "read" in c.methods and any(
        isinstance(x, ast.Call) and isinstance(x.func, ast.Attribute) and x.func.attr == "decode" and (norm(x.func.value) == "self" or norm(x.func.value).startswith("self."))
        for x in ast.walk(c.methods["read"].node))), None)
    if cls is None:
        r.idiom("C05.17", False, "reader-class", REL, "no reader class that decodes what it reads was found")
        return
    f = cls.methods["read"]
    for label, pieces in (("split-two-byte", [b"a\xc3", b"\xa9b", b""]), ("lone-lead-byte-read", [b"\xc3", b"\xa9", b"x", b""]),
                          ("three-byte-in-three-reads", [b"\xe2", b"\x82", b"\xac", b""]), ("plain", [b"ab", b""])):
        src = list(pieces)
        dec = codecs.getincrementaldecoder("utf-8")("replace")
        stream = Record(read=lambda size=-1, src=src: src.pop(0) if src else b"")
        decoder = Record(decode=lambda data, final=False, dec=dec: dec.decode(data, final))
        attrs = {}
        # the attribute names are the class's own: whatever __init__ stores the stream / decoder under
        init = cls.methods.get("__init__")
        names = [a.targets[0].attr for a in (ast.walk(init.node) if init else []) if isinstance(a, ast.Assign) and len(a.targets) == 1 and
                 isinstance(a.targets[0], ast.Attribute) and norm(a.targets[0].value) == "self"]
        for nm in names:
            attrs[nm] = decoder if "decod" in nm.lower() else stream
        # preferably the class's own constructor decides what the object holds: it is run on models of the byte stream and of
        # the codec (`incrementaldecoder(errors)` -> the incremental decoder above; `decode(data, errors)` -> the codec's
        # stateless decode, which consumes everything it is given, as codecs.CodecInfo.decode does)
        if init is not None:
            codec_info = Record(incrementaldecoder=lambda errors="strict", decoder=decoder: decoder,
                                decode=lambda data, errors="strict": codecs.utf_8_decode(data, errors, True), name="utf-8")
            built = {}
            try:
                ClassEval(ctx.ce, ctx.repo.module(REL), cls, built, repo=ctx.repo).call("__init__", [stream, codec_info, "replace"])
                if built:
                    attrs = built
            except (AnalysisError, TypeError):
                pass
        outs = []
        key = "reader::%s" % label
        try:
            for _ in range(len(pieces) + 1):
                evl = ClassEval(ctx.ce, ctx.repo.module(REL), cls, attrs, repo=ctx.repo)
                outs.append(evl.call("read", [4]))
                if outs[-1] == "":
                    break           # the consumer stops at the first empty read
        except AnalysisError as e:
            r.idiom("C05.17", False, key, f.where, "%s.read is not evaluable (%s)" % (cls.name, str(e)[:80]))
            continue
        text = "".join(o for o in outs if isinstance(o, str))
        want = b"".join(pieces).decode("utf-8")
        r.check("C05.17", text == want and all(isinstance(o, str) for o in outs), key, f.where,
                "%s.read over the byte reads %r returns %r: an empty string before the source is exhausted is taken for the end of the input by "
                "readChunk (the document is truncated at a character that a socket happened to split)" % (cls.name, pieces, outs),
                {"reads": [repr(p_) for p_ in pieces]}, detail={"returned": outs})


def buffered_stream_replay(ctx):
    """C05.18: BufferedStream (put over non-seekable byte sources so that the encoding sniffers can seek back) must hand out, at
    every read, exactly the bytes that follow its current position -- from its buffer while the position is inside what was read
    before, from the source afterwards -- whatever the sizes in which the source delivered them.  The class is run from its
    source (sa/classeval.py: __init__, read, seek and the helpers they call) on sources that deliver short reads, through
    sequences of read / seek; every read must return a non-empty piece of the data starting at the position (empty only at the
    end), and the position advances by what was returned."""
    from ..classeval import ClassEval, Record
    r = ctx.r
    r.rule("C05.18", "BufferedStream.read returns the bytes that follow the position, for every split of the source into short reads", floor=3)
    cls = next((c for c in ctx.repo.module(REL).all_classes if c.name == "BufferedStream"), None)
    if cls is None or not {"__init__", "read", "seek"} <= set(cls.methods):
        r.idiom("C05.18", False, "buffered-stream", REL, "BufferedStream with __init__ / read / seek not found")
        return
    f = cls.methods["read"]
    ops = [("read", 2), ("read", 3), ("seek", 0), ("read", 1), ("read", 1), ("read", 4), ("seek", 1), ("read", 10), ("read", 10),
           ("seek", 0), ("read", 2), ("read", 100), ("read", 5), ("read", 5)]
    for label, pieces in (("bom-alone-then-rest", [b"\xef\xbb\xbf", b"<!DOCTYPE html>", b"<p>x"]), ("one-byte-reads", [b"a", b"b", b"c", b"d", b"e", b"f", b"g"]),
                          ("one-piece", [b"abcdefghij"]), ("two-and-three", [b"ab", b"cde", b"f", b"ghij"])):
        src = list(pieces)
        whole = b"".join(pieces)

        def sread(n=-1, src=src):
            if not src:
                return b""
            head = src[0]
            if n is None or n < 0 or n >= len(head):
                return src.pop(0)
            src[0] = head[n:]
            return head[:n]
        attrs = {}
        key = "buffered-stream::%s" % label
        problems = []
        try:
            ClassEval(ctx.ce, ctx.repo.module(REL), cls, attrs, repo=ctx.repo).call("__init__", [Record(read=sread)])
            pos = 0
            for op, arg in ops:
                evl = ClassEval(ctx.ce, ctx.repo.module(REL), cls, attrs, repo=ctx.repo)
                if op == "seek":
                    evl.call("seek", [arg])
                    pos = arg
                    continue
                got = evl.call("read", [arg])
                if not isinstance(got, bytes):
                    raise AnalysisError("read returned %r" % (got,))
                want_any = whole[pos:pos + arg]
                if not (len(got) <= arg and whole[pos:pos + len(got)] == got and (got or not want_any)):
                    problems.append("read(%d) at position %d returns %r, the data there is %r" % (arg, pos, got, want_any))
                    break
                pos += len(got)
        except (AnalysisError, TypeError, IndexError, AssertionError) as e:
            r.idiom("C05.18", False, key, f.where, "BufferedStream is not evaluable on this sequence (%s: %s)" % (type(e).__name__, str(e)[:80]))
            continue
        r.check("C05.18", not problems, key, f.where,
                "BufferedStream over a source that delivers %r: %s -- bytes are skipped or repeated when the sniffers have sought back and the "
                "position stands at the end of a buffered chunk (a BOM that arrives as a read of its own: `<!DOCTYPE html>` loses its `<`)"
                % (pieces, "; ".join(problems)), {"source": [repr(p_) for p_ in pieces]}, detail={"source": [repr(p_) for p_ in pieces]})


def publish_rules(ctx):
    """C05.6: (a) whatever readChunk publishes as the chunk has been through the lone-CR replacement on every path;
    (b) the line/column position of the chunk being replaced is accumulated (from the *old* chunkSize) on every path that
    replaces or resets the chunk; (c) charsUntil treats "no match" as a stop only when the offset is not at the chunk end."""
    r = ctx.r
    r.rule("C05.6", "published chunks are normalised; position accumulated before the chunk is replaced; charsUntil continues across a chunk end", floor=5)
    f = ctx.repo.func(REL, "HTMLUnicodeInputStream.readChunk")
    cfg = CFG(f.node)
    pubs = [x for x in cfg.stmt_nodes() if x.kind == "stmt" and isinstance(x.ast, ast.Assign) and
            any(attr_chain(t) == ["self", "chunk"] for t in x.ast.targets) and
            not (isinstance(x.ast.value, ast.Constant) and x.ast.value.value == "")]
    if not pubs:
        raise AnalysisError("readChunk publishes no chunk")
    for p in pubs:
        var = norm(p.ast.value)

        def is_cr_replace(x, var=var):
            # decided by what the statement does to a sample: `data = <expression over data>` leaves no CR in "a\rb\r" and
            # leaves "ab" alone (a single replace, a chain of them, a regular-expression substitution folded by the evaluator)
            if x.kind == "stmt" and isinstance(x.ast, ast.Assign) and len(x.ast.targets) == 1 and norm(x.ast.targets[0]) == var and \
                    isinstance(x.ast.targets[0], ast.Name):
                try:
                    out1 = ctx.ce.eval(x.ast.value, ctx.repo.module(REL), {var: "a\rb\r"})
                    out2 = ctx.ce.eval(x.ast.value, ctx.repo.module(REL), {var: "ab"})
                    if isinstance(out1, str) and isinstance(out2, str):
                        return "\r" not in out1 and out1.replace("\n", "") == "ab" and out2 == "ab"
                except Exception:       # noqa: BLE001 -- not a constant function of the variable: the shape test below decides
                    pass
            return x.kind == "stmt" and isinstance(x.ast, ast.Assign) and norm(x.ast.targets[0]) == var and \
                isinstance(x.ast.value, ast.Call) and isinstance(x.ast.value.func, ast.Attribute) and x.ast.value.func.attr == "replace" and \
                len(x.ast.value.args) == 2 and isinstance(x.ast.value.args[0], ast.Constant) and x.ast.value.args[0].value == "\r" and \
                isinstance(x.ast.value.args[1], ast.Constant) and x.ast.value.args[1].value == "\n" and norm(x.ast.value.func.value) == var
        bad = cfg.must_precede([p], is_cr_replace)
        r.check("C05.6", not bad, "normalised-before-publish::%s@%d" % (var, pubs.index(p)), "%s:%d" % (REL, p.ast.lineno),
                "readChunk publishes `%s` as the chunk on a path that has not replaced lone CR by LF (path: %s): the tokenizer sees a "
                "carriage return" % (var, " -> ".join(bad[0][1][:6]) if bad else ""), detail={"store": norm(p.ast)})
    acc = [x for x in cfg.stmt_nodes() if x.kind == "stmt" and isinstance(x.ast, ast.Assign) and
           {"self.prevNumLines", "self.prevNumCols"} <= {norm(e) for t in x.ast.targets for e in (t.elts if isinstance(t, ast.Tuple) else [t])}]
    if len(acc) != 1:
        raise AnalysisError("readChunk: position accumulation statement not found")
    r.idiom("C05.6", norm(acc[0].ast.value) == "self._position(self.chunkSize)", "position-accumulates-old-chunk", "%s:%d" % (REL, acc[0].ast.lineno),
            "the accumulated position is `%s`, not the position at the end of the old chunk" % norm(acc[0].ast.value),
            wrong=[(norm(acc[0].ast.value) in ("self._position(self.chunkOffset)", "self._position(0)"), None)])
    resets = [x for x in cfg.stmt_nodes() if x.kind == "stmt" and isinstance(x.ast, ast.Assign) and
              any(attr_chain(t) in (["self", "chunkSize"], ["self", "chunkOffset"], ["self", "chunk"]) for t in x.ast.targets)]
    for x in resets:
        bad = cfg.must_precede([x], lambda y: y is acc[0])
        r.check("C05.6", not bad, "position-before::%s" % norm(x.ast)[:40], "%s:%d" % (REL, x.ast.lineno),
                "readChunk executes `%s` on a path on which the position of the chunk being discarded has not been added to "
                "prevNumLines/prevNumCols: position() (and the positions of errors reported at EOF) fall back to the start of that chunk"
                % norm(x.ast), detail={"store": norm(x.ast)})
    # (c)
    g = ctx.repo.func(REL, "HTMLUnicodeInputStream.charsUntil")
    outer = [n for n in walk_no_nested(g.node) if isinstance(n, ast.If) and norm(n.test) in ("m is None", "not m", "m == None")]
    if len(outer) != 1:
        r.idiom("C05.6", False, "charsuntil-no-match", g.where, "charsUntil: `if m is None` not found")
        return
    inner = [n for n in outer[0].body if isinstance(n, ast.If)]
    ok_tests = ("self.chunkOffset != self.chunkSize", "self.chunkOffset < self.chunkSize", "self.chunkSize != self.chunkOffset",
                "self.chunkOffset != len(self.chunk)", "self.chunkOffset < len(self.chunk)")
    shape = len(inner) == 1 and len(inner[0].body) == 1 and isinstance(inner[0].body[0], ast.Break)
    t = norm(inner[0].test) if inner else ""
    uncond = any(isinstance(s, ast.Break) for s in outer[0].body)
    r.idiom("C05.6", shape and t in ok_tests, "charsuntil-no-match", "%s:%d" % (REL, outer[0].lineno),
            "charsUntil: the no-match test `%s` is not recognised" % t,
            wrong=[(shape and "chunkOffset" not in t,
                    "charsUntil stops on `%s` when nothing matches; when the offset is at the end of the chunk the run may continue in "
                    "the next chunk, so a run of characters that starts exactly at a chunk boundary is cut short" % t),
                   (uncond, "charsUntil stops whenever nothing matches, even at the end of a chunk")],
            detail={"test": t})


def replay_buffer(ctx):
    """C05.7: BufferedStream (used for non-seekable byte sources) replays what it has read after the encoding sniffers seek
    back.  seek() indexes the first recorded chunk unconditionally, so every read -- including an empty one at the end of the
    input -- has to be recorded, with the position moved to the end of the new chunk, on every path of _readStream."""
    r = ctx.r
    r.rule("C05.7", "BufferedStream records every read (chunk appended, position advanced) on every path", floor=2)
    f = ctx.repo.func(REL, "BufferedStream._readStream")
    sk = ctx.repo.func(REL, "BufferedStream.seek")
    guarded_seek = any(isinstance(n, (ast.If, ast.While)) and norm(n.test) in ("self.buffer", "not self.buffer", "len(self.buffer)", "i < len(self.buffer)")
                       for n in ast.walk(sk.node))
    indexes = any(isinstance(n, ast.Subscript) and norm(n.value) == "self.buffer" for n in ast.walk(sk.node))
    cfg = CFG(f.node)
    reads = [n for n in cfg.stmt_nodes() if any(norm(c.func) == "self.stream.read" for c in node_calls(n))]
    if len(reads) != 1:
        r.idiom("C05.7", False, "read-recorded", f.where, "_readStream: the read of the underlying stream was not found")
        return
    for label, pred in (("chunk-appended", lambda n: any(norm(c.func) == "self.buffer.append" for c in node_calls(n))),
                        ("position-advanced", lambda n: n.kind == "stmt" and isinstance(n.ast, (ast.Assign, ast.AugAssign)) and
                         "self.position" in norm(n.ast.targets[0] if isinstance(n.ast, ast.Assign) else n.ast.target))):
        bad = cfg.must_follow(reads, pred)
        r.check("C05.7", not bad or (guarded_seek or not indexes), label, f.where,
                "_readStream can return without having %s (path %s) while seek() indexes the recorded chunks unconditionally: for an "
                "empty input on a non-seekable byte stream the sniffers' seek(0) raises IndexError" % (
                    "recorded the chunk" if label == "chunk-appended" else "advanced the position", " -> ".join(bad[0][1][:5]) if bad else ""),
                detail={"seek_indexes_buffer": indexes, "seek_guarded": guarded_seek})


def stream_reset(ctx, rid="C05.9"):
    """The input stream is restarted *within* a parse (changeEncoding -> reset()).  Every attribute that the reading methods
    (readChunk, char, charsUntil, unget, position bookkeeping) write has to be re-initialised on every path of reset();
    initialising it in __init__ only lets line/column counters, the held-back character or the chunk survive the restart."""
    from .c12 import must_stores
    r = ctx.r
    r.rule(rid, "HTMLUnicodeInputStream.reset() re-initialises every attribute the reading methods write", floor=5)
    cls = ctx.repo.cls(REL, "HTMLUnicodeInputStream")
    rs = cls.methods.get("reset")
    if rs is None:
        raise AnalysisError("HTMLUnicodeInputStream.reset vanished")
    must, _calls = must_stores(rs)
    written = {}
    for mn, m in cls.methods.items():
        if mn in ("__init__", "reset", "openStream"):
            continue
        for n in walk_no_nested(m.node):
            if isinstance(n, (ast.Assign, ast.AugAssign)):
                for t in (n.targets if isinstance(n, ast.Assign) else [n.target]):
                    for e in (t.elts if isinstance(t, ast.Tuple) else [t]):
                        ch = attr_chain(e)
                        if ch and len(ch) == 2 and ch[0] == "self":
                            written.setdefault(ch[1], set()).add(mn)
    if len(written) < 5:
        raise AnalysisError("only %d attributes written by the reading methods were found" % len(written))
    for attr, writers in sorted(written.items()):
        r.check(rid, attr in must, "stream-reset::%s" % attr, rs.where,
                "self.%s is written while reading (%s) but reset() does not re-initialise it on every path: after the restart that a "
                "late <meta charset> triggers, the second pass starts with the first pass's value (line/column numbers of errors "
                "point outside the input, a held-back character is replayed, ...)" % (attr, sorted(writers)),
                {"attribute": attr}, detail={"attribute": attr, "writers": sorted(writers)})


def unget_position(ctx):
    """C05.10: position() = (lines, columns accumulated from the chunks already discarded) + position inside the current chunk.
    readChunk adds a chunk's extent to the accumulated counters when it discards it; when unget() at offset 0 puts a
    character *back in front of the new chunk*, that character has been counted already, so the prepend arm has to take it
    out of the accumulated counters again -- otherwise every later position on the line is shifted by the number of
    characters pushed back across a chunk boundary, i.e. error positions depend on the chunk size."""
    r = ctx.r
    r.rule("C05.10", "unget() at a chunk start compensates the accumulated line/column counters for the prepended character", floor=1)
    ug = ctx.repo.func(REL, "HTMLUnicodeInputStream.unget")
    cfg = CFG(ug.node)
    pre = [x for x in cfg.stmt_nodes() if x.kind == "stmt" and isinstance(x.ast, ast.Assign) and norm(x.ast.targets[0]) == "self.chunk"
           and "self.chunk" in norm(x.ast.value)]
    if len(pre) != 1:
        r.idiom("C05.10", False, "unget-prepend-compensates-position", ug.where, "unget(): the prepend statement was not found")
        return
    def adjusts(n):
        return n.kind == "stmt" and isinstance(n.ast, (ast.Assign, ast.AugAssign)) and any(
            a in norm(n.ast.targets[0] if isinstance(n.ast, ast.Assign) else n.ast.target) for a in ("prevNumCols", "prevNumLines"))
    bad = cfg.must_follow(pre, adjusts) and cfg.must_precede(pre, adjusts)
    r.check("C05.10", not bad, "unget-prepend-compensates-position", "%s:%d" % (REL, pre[0].ast.lineno),
            "unget() prepends the character to the new chunk without taking it out of prevNumLines / prevNumCols, which already "
            "count it: positions after a push-back across a chunk boundary are shifted (`<!doctyp><p>x` reports its errors at "
            "column 2 with the default chunk size and at column 8 with a chunk size of 2)", detail={"compensated": not bad})


def stream_error_positions(ctx):
    """C05.15: the input stream scans each chunk for invalid code points *when the chunk is read* (readChunk ->
    reportCharacterErrors) and queues the findings in `self.errors`; the tokenizer drains that queue after its next state
    step and the parser stamps every error with the position the tokenizer is at by then.  An entry that carries no position
    of its own is therefore reported at "wherever the tokenizer was when the chunk holding the character was fetched", which
    depends on the chunk size and the read sizes.  Necessary for C05: what the chunk-level scan queues carries the
    character's own position (or the scan is not chunk-level)."""
    r = ctx.r
    r.rule("C05.15", "errors found by the chunk-level character scan carry the position of the character, not of the chunk fetch", floor=1)
    cls = ctx.repo.cls(REL, "HTMLUnicodeInputStream")
    rc = cls.find_method("readChunk")
    if rc is None:
        raise AnalysisError("readChunk vanished")
    # scan functions: methods reachable from readChunk through self.<attr>(...) where <attr> is a method or an attribute bound to methods
    bound = {}
    for m in cls.methods.values():
        for a in ast.walk(m.node):
            if isinstance(a, ast.Assign) and isinstance(a.targets[0], ast.Attribute) and norm(a.targets[0].value) == "self" and \
                    isinstance(a.value, ast.Attribute) and norm(a.value.value) == "self" and a.value.attr in cls.methods:
                bound.setdefault(a.targets[0].attr, set()).add(a.value.attr)
    called = set()
    for c in ast.walk(rc.node):
        if isinstance(c, ast.Call) and isinstance(c.func, ast.Attribute) and norm(c.func.value) == "self":
            called |= bound.get(c.func.attr, set()) | ({c.func.attr} if c.func.attr in cls.methods else set())
    sites = []
    for name in sorted(called):
        for c in ast.walk(cls.methods[name].node):
            if isinstance(c, ast.Call) and norm(c.func) == "self.errors.append" and c.args:
                sites.append((name, c))
    if not sites:
        r.idiom("C05.15", False, "chunk-scan-errors-carry-position", rc.where, "no error is queued by a scan called from readChunk: the shape changed")
        return
    for name, c in sites:
        positionless = isinstance(c.args[0], ast.Constant)
        r.idiom("C05.15", not positionless and any(isinstance(x, (ast.Name, ast.Attribute, ast.Call)) for x in ast.walk(c.args[0])),
                "chunk-scan-errors-carry-position::%s" % name, "%s:%d" % (REL, c.lineno),
                "%s queues %s: not recognised" % (name, norm(c.args[0])),
                wrong=[(positionless,
                        "%s (called from readChunk on a whole chunk) queues the bare code %s; the parser stamps it with the tokenizer's "
                        "position when the queue is drained, i.e. where the tokenizer was when the chunk was fetched: "
                        "`<p>aaaa</p>\\n<p>b\\x01b</p>` reports invalid-codepoint at (1, 1) with the default chunk size and at (2, 6) with "
                        "a chunk size of 4" % (name, norm(c.args[0])))],
                detail={"function": name})


def delivery_rules(ctx):
    """C05.11: a read that returns fewer characters than asked for is not the end of the input (text streams, pipes and
    multi-byte decoders return short reads at will): nothing in the stream classes may compare the length of what a read
    returned with the size requested.  Only an empty read ends the input.
    C05.12: whether a file-like source delivers text or bytes is decided by what read() returns, not by the class of the
    source (codecs.StreamReader objects and duck-typed readers are text sources without being io.TextIOBase)."""
    from ..repo import ModuleInfo
    r = ctx.r
    r.rule("C05.11", "no decision in the stream classes depends on a read being shorter than requested", floor=15)
    mod = ctx.repo.module(REL)

    def short_read_tests(fn):
        out = []
        sizes = {norm(c.args[0]) for c in walk_no_nested(fn) if isinstance(c, ast.Call) and isinstance(c.func, ast.Attribute)
                 and c.func.attr == "read" and c.args and isinstance(c.args[0], ast.Name)}
        # the top-up idiom `while len(data) < size: more = read(..); if not more: break; data += more` reads on *because* a read
        # may be short and ends at an empty read: its loop condition is not a short-read-means-end test
        topup = set()
        for w in walk_no_nested(fn):
            if isinstance(w, ast.While) and any(isinstance(x, ast.Call) and isinstance(x.func, ast.Attribute) and x.func.attr == "read" for b in w.body for x in ast.walk(b)) \
                    and any(isinstance(b, ast.If) and isinstance(b.test, ast.UnaryOp) and isinstance(b.test.op, ast.Not) and any(isinstance(y, ast.Break) for y in b.body)
                            for b in w.body):
                topup |= {id(x) for x in ast.walk(w.test)}
        for c in walk_no_nested(fn):
            if isinstance(c, ast.Compare) and len(c.ops) == 1 and isinstance(c.ops[0], (ast.Lt, ast.LtE, ast.NotEq, ast.Gt, ast.GtE, ast.Eq)):
                sides = [norm(c.left), norm(c.comparators[0])]
                if any(s.startswith("len(") for s in sides) and any(s in sizes for s in sides) and id(c) not in topup:
                    out.append(c)
        return out
    for f in mod.all_functions:
        tests = short_read_tests(f.node)
        if not tests:
            r.ok("C05.11", "no-short-read-test::%s" % f.qual, f.where)
        for c in tests:
            r.bad("C05.11", "no-short-read-test::%s::%s" % (f.qual, norm(c)[:40]), "%s:%d" % (REL, c.lineno),
                  "%s compares the length of what a read returned with the size it asked for (`%s`): a text stream that returns short "
                  "reads, or a multi-byte decoder that returns fewer characters than bytes requested, is taken to be exhausted and the "
                  "rest of the document is dropped" % (f.qual, norm(c)), {"function": f.qual})
    pos = ModuleInfo("positive_c0511.py", "<positive example>", source="def f(self, chunkSize):\n    data = self.dataStream.read(chunkSize)\n    self.done = len(data) < chunkSize\n    return data\n")
    r.positive("C05.11", len(short_read_tests(pos.all_functions[0].node)) == 1)
    r.rule("C05.12", "text vs bytes is decided by the type read() returns", floor=1)
    fac = ctx.repo.func(REL, "HTMLInputStream")
    decs = [s for s in ast.walk(fac.node) if isinstance(s, ast.Assign) and norm(s.targets[0]) == "isUnicode" and isinstance(s.value, ast.Call)
            and norm(s.value.func) == "isinstance"]
    by_read = [s for s in decs if ".read(" in norm(s.value.args[0])]
    by_class = [s for s in decs if norm(s.value.args[0]) == fac.params()[0] and "IO" in norm(s.value.args[1])]
    r.idiom("C05.12", bool(by_read), "text-or-bytes-by-read-result", fac.where, "the text/bytes decision for file-like sources was not recognised",
            wrong=[(bool(by_class) and not by_read,
                    "HTMLInputStream decides text vs bytes from the class of the source (`%s`): text readers that are not io.TextIOBase "
                    "(codecs.StreamReader, duck-typed objects) are sent to the byte stream and fail in BOM sniffing"
                    % (norm(by_class[0].value) if by_class else ""))], detail={"decisions": [norm(s.value) for s in decs]})


def thorough(ctx):
    from .. import selftest
    selftest.run(ctx, sys.modules[__name__])


def mutants():
    from ..selftest import TextMutant as T
    return [
        T("derived-line-count-not-kept-by-unget", REL, "        self.chunk = data\n        self.chunkSize = len(data)\n",
          "        self.chunk = data\n        self.chunkSize = len(data)\n        self.chunkLineFeeds = data.count(\"\\n\")\n", "C05.4"),
        T("buffer-replay-ignores-offset", REL, "                bytesToRead = len(bufferedData) - bufferOffset\n                self.position = [bufferIndex, len(bufferedData)]",
          "                bytesToRead = len(bufferedData)\n                self.position = [bufferIndex, len(bufferedData)]", "C05.18"),
        T("buffer-replay-only-inside-chunk", REL, "        else:\n            return self._readFromBuffer(bytes)\n",
          "        elif self.position[1] < len(self.buffer[self.position[0]]):\n            return self._readFromBuffer(bytes)\n        return self._readStream(bytes)\n", "C05.18"),
        T("bom-single-read", "_inputstream.py", "        while len(string) < 4:\n            more = self.rawStream.read(4 - len(string))\n            if not more:\n                break\n            string += more\n", "", "C05.14"),
        T("bom-seek-constant", "_inputstream.py", "        encoding = None\n        seek = 0\n        for bom, name in bomDict.items():\n            if string.startswith(bom):\n                encoding = name\n                seek = len(bom)\n                break\n",
          "        encoding = bomDict.get(string[:3])\n        seek = 3\n        if not encoding:\n            encoding = bomDict.get(string[:2])\n            seek = 2\n", "C05.13"),
        T("skip-empty-reads", REL, "        self.buffer.append(data)\n        self.position[0] += 1\n        self.position[1] = len(data)\n        return data", "        if data:\n            self.buffer.append(data)\n            self.position[0] += 1\n            self.position[1] = len(data)\n        return data", "C05.7"),
        T("counters-init-only", REL, "        # number of (complete) lines in previous chunks\n        self.prevNumLines = 0\n        # number of columns in the last line of the previous chunk\n        self.prevNumCols = 0\n\n        # Deal with CR LF and surrogates split over chunk boundaries", "        # Deal with CR LF and surrogates split over chunk boundaries", "C05.9"),
        T("stdlib-codec", REL, "        self.decoder = codec_info.incrementaldecoder(errors)", "        self.decoder = codecs.getincrementaldecoder(codec_info.name)(errors)", "C05.8"),
        T("stdlib-codec-reader", REL, "DecodingReader(self.rawStream, self.charEncoding[0].codec_info, 'replace')", "codecs.getreader(self.charEncoding[0].name)(self.rawStream, 'replace')", "C05.8"),
        T("charsuntil-stop-at-chunk-end", REL, "                if self.chunkOffset != self.chunkSize:\n                    break",
          "                if self.chunk:\n                    break", "C05.6"),
        T("publish-before-normalise", REL, "        # Replace invalid characters\n        data = data.replace(\"\\r\\n\", \"\\n\")\n        data = data.replace(\"\\r\", \"\\n\")\n\n        self.chunk = data\n        self.chunkSize = len(data)\n",
          "        self.chunk = data\n        self.chunkSize = len(data)\n        # Replace invalid characters\n        data = data.replace(\"\\r\\n\", \"\\n\")\n        data = data.replace(\"\\r\", \"\\n\")\n", "C05.6"),
        T("position-after-reset", REL, "        self.prevNumLines, self.prevNumCols = self._position(self.chunkSize)\n\n        self.chunk = \"\"\n        self.chunkSize = 0\n        self.chunkOffset = 0\n",
          "        self.chunk = \"\"\n        self.chunkSize = 0\n        self.chunkOffset = 0\n        self.prevNumLines, self.prevNumCols = self._position(self.chunkSize)\n", "C05.6"),
        T("swap-replaces", REL, '        data = data.replace("\\r\\n", "\\n")\n        data = data.replace("\\r", "\\n")',
          '        data = data.replace("\\r", "\\n")\n        data = data.replace("\\r\\n", "\\n")', "C05.1"),
        T("no-truncate", REL, "                self._bufferedCharacter = data[-1]\n                data = data[:-1]",
          "                self._bufferedCharacter = data[-1]", "C05.2"),
        T("no-clear", REL, "            data = self._bufferedCharacter + data\n            self._bufferedCharacter = None",
          "            data = self._bufferedCharacter + data", "C05.2"),
        T("unget-no-size", REL, "                self.chunk = char + self.chunk\n                self.chunkSize += 1", "                self.chunk = char + self.chunk", "C05.4"),
        T("char-off-by-one", REL, "        if self.chunkOffset >= self.chunkSize:\n            if not self.readChunk():", "        if self.chunkOffset > self.chunkSize:\n            if not self.readChunk():", "C05.5"),
        T("decoding-reader-single-read", REL, "        while True:\n            data = self.stream.read(size)\n            text = self.decoder.decode(data, not data)\n            if text or not data:\n                return text\n",
          "        data = self.stream.read(size)\n        return self.decoder.decode(data, not data)\n", "C05.17"),
        T("read-ahead-not-retested", REL, "        if len(data) > 1:\n            lastv = ord(data[-1])\n            if lastv == 0x0D or 0xD800 <= lastv <= 0xDBFF:\n                self._bufferedCharacter = data[-1]\n                data = data[:-1]\n",
          "        if len(data) > 1:\n            lastv = ord(data[-1])\n            if lastv == 0x0D or 0xD800 <= lastv <= 0xDBFF:\n                self._bufferedCharacter = data[-1]\n                data = data[:-1]\n        elif data == \"\\r\":\n            data += self.dataStream.read(chunkSize)\n", "C05.3"),
        T("lone-cr-not-extended", REL, "        while len(data) == 1 and (data == \"\\r\" or 0xD800 <= ord(data) <= 0xDBFF):\n            more = self.dataStream.read(chunkSize)\n            if not more:\n                break\n            data += more\n", "", "C05.3"),
        T("guard-gt-2", REL, "        if len(data) > 1:\n            lastv = ord(data[-1])", "        if len(data) > 2:\n            lastv = ord(data[-1])", "C05"),
    ]


def preserving():
    from ..selftest import TextMutant as T
    return [
        T("hex-to-dec", REL, "if lastv == 0x0D or 0xD800 <= lastv <= 0xDBFF:", "if lastv == 13 or 55296 <= lastv <= 56319:", None),
        T("read-ahead-by-concatenation", REL, "            data += more\n", "            data = data + more\n", None),
    ]
