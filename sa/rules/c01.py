"""C01 -- tree construction follows the WHATWG algorithm (structural clauses only).

C01.1 AMBIENT    results depend on input + documented options only (no ambient reads, no set-order leaks)
C01.2 DISPATCH   dispatcher tables are well formed
C01.3 PAIRING    invariants of the standard as X-must-come-with-Y rules (P1, P3, P4, P5, P8, P9, P10)
C01.4 FRAGMENT   tokenizer state chosen for a fragment context == state chosen by the start-tag handler
C01.5 TABLES     evaluated tables vs. transcribed standard sets (three-valued)
C02.7 CONTENT    element -> tokenizer state map of the handlers equals the standard's
"""
from __future__ import annotations

import ast
import json
import os
import sys

from ..repo import AnalysisError, attr_chain, norm, walk_no_nested
from ..consteval import NotConstant
from ..parsermodel import ParserModel, PARSER_REL, ANY, NONAME
from ..partition import MiniInterp, Opaque, FRESH
from ..cfg import CFG, node_calls, node_stores
from ..contentmodel import content_model_map, state_store
from .c03 import model, graph

LEVEL = "other"
TECHNIQUE = ('evaluated dispatcher tables and constant tables compared with transcribed standard sets; pairing '
             'rules (must-follow / must-precede on per-function CFGs); ambient-source and set-order lint over the '
             'parse path; fragment-context vs. handler content-model agreement; insertion-mode transition table '
             '(allowed / required switches) over the resolved dispatcher call graph; guard partition of the '
             'dispatcher and breakout conditions; source evaluation (sa/classeval.py) of addFormattingElement (Noah\'s Ark), the table and frameset character handlers and the </form> end tag handler on model trees')
CLAIM = ('Necessary structural conditions of WHATWG conformance, each over all code paths: the parser reads no '
         'ambient state; dispatcher tables are well formed; switching the tokenizer to RCDATA/RAWTEXT/script '
         'data is always paired with entering the text insertion mode; the formatting-element, scope-marker, '
         'form/head-pointer, foster-parenting bracket and scope-variant pairings of the standard hold at every '
         'site; fragment contexts choose the tokenizer state the corresponding start-tag handler chooses; the '
         'element tables, the frameset-ok and reconstruct-formatting start-tag lists, the 55 quirks prefixes '
         'and the quirks decision, the tree-construction dispatcher condition and the integration-point '
         "predicates equal the standard's; stack searches run in the standard's direction. Every insertion- "
         "mode switch is one the standard's steps for that mode and token make, and every switch the standard "
         "requires is reachable from that token's handler; backward scans of the formatting list stop at "
         'markers; a stale formatting element is removed from both lists; the foreign-content breakout pops to '
         'an HTML element or integration point; a discarded delegation result cannot lose a reprocess request. '
         'Foster parenting is applied exactly when it is enabled and the current node is a table, tbody, '
         "tfoot, thead or tr; the adoption agency's outer loop is bounded by 8 and its inner loop is not "
         'bounded by a counter (known finding).'
         " The newline-dropping handler, the fragment form pointer and adoption-agency step 2 are looked for as code shapes (two known findings); the switch to 'after frameset' carries both conditions of the standard's sentence; first-match searches written as generators are read too. The </form> end tag handler is run on model trees: the form element pointer is null afterwards whether or not the end tag is ignored, and the pointed-to node (not the current node) leaves the stack (C01.27)."
         ' A foster-parenting bracket that can be re-entered restores the value it found; in table, characters become table text only when the current node is table / tbody / tfoot / thead / tr (both handlers run on nine current-node names).')
NOT_DECIDED = ('the tree itself: adoption agency, reconstruction of formatting elements, foster parenting positions, '
               'the conditions under which a mode switch is taken (only its possible and required targets are '
               'decided), quirks-mode effects.')
MODULES = ["html5parser.py", "treebuilders/base.py", "constants.py", "_tokenizer.py", "_inputstream.py", "_utils.py"]

DATA = os.path.join(os.path.dirname(os.path.dirname(os.path.abspath(__file__))), "data", "whatwg_sets.json")

PARSE_PATH = ["html5parser.py", "_tokenizer.py", "_inputstream.py", "treebuilders/base.py", "treebuilders/etree.py",
              "treebuilders/dom.py", "treebuilders/__init__.py", "_utils.py", "_trie/py.py", "_trie/_base.py",
              "_trie/__init__.py", "constants.py", "__init__.py", "_ihatexml.py"]
AMBIENT_MODULES = {"time", "random", "os", "locale", "datetime", "uuid", "secrets", "platform", "socket", "getpass",
                   "tempfile", "threading", "multiprocessing", "subprocess", "glob", "pathlib", "gc", "weakref_"}
AMBIENT_ALLOW = {
    ("_tokenizer.py", "sys", "version_info"): "import-time choice between dict and OrderedDict, both insertion-ordered",
}
AMBIENT_CALLS = {"id", "hash", "input", "open", "getattr_"}


# ---------------------------------------------------------------------------- C01.1
def ambient(ctx):
    r = ctx.r
    repo = ctx.repo
    for rel in PARSE_PATH:
        mod = repo.module(rel)
        for n in ast.walk(mod.tree):
            names = []
            if isinstance(n, ast.Import):
                names = [(a.name.split(".")[0], None) for a in n.names]
            elif isinstance(n, ast.ImportFrom) and n.level == 0 and n.module:
                names = [(n.module.split(".")[0], a.name) for a in n.names]
            for m, attr in names:
                key = "%s::import %s%s" % (rel, m, ("." + attr) if attr else "")
                where = "%s:%d" % (rel, n.lineno)
                if m == "sys":
                    okk = (rel, m, attr) in AMBIENT_ALLOW
                    r.check("C01.1", okk, key, where, "sys is imported on the parse path outside the allow-table")
                elif m in AMBIENT_MODULES:
                    r.bad("C01.1", key, where, "ambient module `%s` imported on the parse path: results may depend on "
                          "something other than the input and documented options" % m)
                else:
                    r.ok("C01.1", key, where)
        for f in mod.all_functions:
            for c in walk_no_nested(f.node):
                if isinstance(c, ast.Call) and isinstance(c.func, ast.Name) and c.func.id in ("id", "hash"):
                    r.bad("C01.1", "%s::%s::%s()" % (rel, f.qual, c.func.id), "%s:%d" % (rel, c.lineno),
                          "%s() on the parse path: value differs between interpreter runs" % c.func.id)
                if isinstance(c, ast.Attribute) and norm(c) in ("os.environ", "sys.argv", "sys.flags", "sys.maxsize"):
                    r.bad("C01.1", "%s::%s::%s" % (rel, f.qual, norm(c)), "%s:%d" % (rel, c.lineno),
                          "ambient read %s on the parse path" % norm(c))
    # set-order leaks, whole package
    for f in repo.all_functions():
        for n in walk_no_nested(f.node):
            loops = []
            if isinstance(n, ast.For):
                loops.append((n.iter, n.target, n.body, "for"))
            elif isinstance(n, (ast.ListComp, ast.GeneratorExp, ast.DictComp)):
                for g in n.generators:
                    loops.append((g.iter, g.target, None, type(n).__name__))
            for it, tgt, body, kind in loops:
                how = _set_typed(ctx, it, f)
                if not how:
                    continue
                key = "%s::%s::%s over %s" % (f.module.rel, f.qual, kind, norm(it)[:50])
                where = "%s:%d" % (f.module.rel, n.lineno)
                sens = _order_sensitive(body, tgt) if body is not None else "comprehension builds an ordered result"
                if kind in ("ListComp", "GeneratorExp") and _consumed_order_free(n):
                    sens = None
                r.check("C01.1", not sens, key, where,
                        "iteration over a set (%s) with an order-sensitive effect (%s): hash randomisation leaks into the "
                        "result" % (how, sens), detail={"set_typed_by": how, "order_sensitive": bool(sens)})


def _set_typed(ctx, e, f, depth=0):
    try:
        v = ctx.ce.eval(e, f.module, ctx.ce.local_env(f.node, f.module))
        return "constant set" if isinstance(v, (set, frozenset)) else None
    except NotConstant:
        pass
    if isinstance(e, (ast.Set, ast.SetComp)):
        return "set literal"
    if isinstance(e, ast.Call) and isinstance(e.func, ast.Name) and e.func.id in ("set", "frozenset", "viewkeys"):
        return "%s(...)" % e.func.id
    if isinstance(e, ast.BinOp) and isinstance(e.op, (ast.BitAnd, ast.BitOr, ast.Sub, ast.BitXor)):
        if _set_typed(ctx, e.left, f, depth) or _set_typed(ctx, e.right, f, depth):
            return "set algebra"
    if isinstance(e, ast.Name) and depth < 2:
        vals = [n.value for n in ast.walk(f.node) if isinstance(n, ast.Assign)
                and any(isinstance(t, ast.Name) and t.id == e.id for t in n.targets)]
        if vals and all(_set_typed(ctx, v, f, depth + 1) for v in vals):
            return "local set"
    return None


def _order_sensitive(body, tgt):
    tnames = {x.id for x in ast.walk(tgt) if isinstance(x, ast.Name)}
    for st in body:
        for n in ast.walk(st):
            if isinstance(n, (ast.Yield, ast.YieldFrom)):
                return "yield"
            if isinstance(n, ast.Call) and isinstance(n.func, ast.Attribute) and n.func.attr in (
                    "append", "insert", "extend", "write", "appendChild", "insertBefore", "insertText"):
                return ".%s()" % n.func.attr
            if isinstance(n, ast.AugAssign) and not isinstance(n.value, ast.Constant):
                return "accumulation with %s" % norm(n)[:40]
            if isinstance(n, ast.Break):
                return "break (first match wins)"
            if isinstance(n, ast.Return) and n.value is not None and \
                    any(isinstance(x, ast.Name) and x.id in tnames for x in ast.walk(n.value)):
                return "return of the element (first match wins)"
            if isinstance(n, ast.Assign):
                for t in n.targets:
                    # keyed by the element itself -> order-insensitive; anything else keeps the last -> sensitive
                    if isinstance(t, ast.Subscript) and any(isinstance(x, ast.Name) and x.id in tnames
                                                             for x in ast.walk(t.slice)):
                        continue
                    if isinstance(t, ast.Name) and t.id in tnames:
                        continue
                    if isinstance(t, ast.Name):
                        # a local recomputed per element is fine if it depends only on the element
                        continue
                    return "store %s" % norm(t)[:40]
    return None


def _consumed_order_free(comp):
    p = getattr(comp, "_parent", None)
    return False


# ---------------------------------------------------------------------------- C01.2
def dispatch(ctx):
    r = ctx.r
    pm = model(ctx)
    for where, tab, msg in pm.table_problems:
        r.bad("C01.2", "%s::%s" % (tab, msg), where, "dispatcher table %s: %s" % (tab, msg))
    for (cid, attr), tab in pm.tables.items():
        key = "%s.%s" % (tab.cls.name, attr)
        r.check("C01.2", tab.default is not None, key + "::default", tab.where,
                "%s has no default handler: unknown tag names dispatch to None" % key)
        r.check("C01.2", not tab.duplicates, key + "::unique", tab.where,
                "names registered twice in %s: %s (the later entry silently wins)" % (key, sorted(set(tab.duplicates))),
                {"duplicates": sorted(set(tab.duplicates))}, detail={"entries": len(tab.entries), "names": len(tab.map)})
    # phases["k"] literals
    mod = ctx.repo.module(PARSER_REL)
    n_lit = 0
    for f in mod.all_functions:
        for n in walk_no_nested(f.node):
            if isinstance(n, ast.Subscript) and isinstance(n.slice, ast.Constant) and \
                    (attr_chain(n.value) or [""])[-1] == "phases":
                n_lit += 1
                r.check("C01.2", n.slice.value in pm.phases, "%s::phases[%r]" % (f.qual, n.slice.value),
                        "%s:%d" % (PARSER_REL, n.lineno), "phases[%r] is not a key of _phases" % (n.slice.value,))
    r.extra["phase_literals"] = n_lit
    r.extra["assignable_phases"] = sorted(pm.assignable_keys)


# ---------------------------------------------------------------------------- C01.3
def _is_store(n, target_suffix, value_pred=None):
    if n.kind != "stmt" or not isinstance(n.ast, ast.Assign):
        return False
    for t in n.ast.targets:
        ch = attr_chain(t)
        if ch and ch[-len(target_suffix):] == target_suffix:
            if value_pred is None or value_pred(n.ast.value):
                return True
    return False


def pairing(ctx):
    r = ctx.r
    repo = ctx.repo
    pm = model(ctx)
    mod = repo.module(PARSER_REL)

    # ---- P1: content-model switch is paired with the text insertion mode
    n_sites = 0
    for f in mod.all_functions:
        if f.qual == "HTMLParser.reset":
            continue      # fragment set-up: the standard switches the tokenizer only
        cfg = None
        for n0 in walk_no_nested(f.node):
            st = state_store(n0) if isinstance(n0, ast.Assign) else None
            if st not in ("rcdata", "rawtext", "scriptData"):
                continue
            cfg = cfg or CFG(f.node)
            sites = cfg.locate(n0)
            n_sites += 1
            key = "P1::%s::%s" % (f.qual, st)
            where = "%s:%d" % (PARSER_REL, n0.lineno)
            switch = lambda n: _is_store(n, ["phase"], lambda v: (attr_chain(v) or [""])[-1] == 'phases["text"]')  # noqa: E731
            # local aliases of the current phase taken before the switch: `saved = self.phase`
            aliases = set()
            for an in cfg.stmt_nodes():
                if an.kind == "stmt" and isinstance(an.ast, ast.Assign) and len(an.ast.targets) == 1 and \
                        isinstance(an.ast.targets[0], ast.Name) and (attr_chain(an.ast.value) or [""])[-1] == "phase":
                    sw = [x for x in cfg.stmt_nodes() if switch(x)]
                    reach = cfg.reach_forward(sw, lambda n: False)
                    if an.id not in reach:
                        aliases.add(an.ast.targets[0].id)
            save = lambda n: _is_store(n, ["originalPhase"], lambda v: (attr_chain(v) or [""])[-1] == "phase"  # noqa: E731
                                       or (isinstance(v, ast.Name) and v.id in aliases))
            b1 = cfg.must_follow(sites, save)
            b2 = cfg.must_follow(sites, switch)
            r.check("C01.3", not b1 and not b2, key, where,
                    "the tokenizer is switched to %s without saving the insertion mode and entering the text mode in the "
                    "same handler: start tags inside the element are processed by the ordinary rules (path: %s)" % (
                        st, " -> ".join((b1 or b2)[0][1][:6]) if (b1 or b2) else ""),
                    {"state": st}, detail={"state": st, "paired": True})
    if n_sites < 3:
        raise AnalysisError("P1 matched %d tokenizer-state stores in handlers (expected >= 3)" % n_sites)

    # ---- P3: formatting-element lists agree
    inbody = pm.phases["inBody"]
    st_tab = pm.table_for(inbody, "startTagHandler")
    en_tab = pm.table_for(inbody, "endTagHandler")

    def calls_method(f, name, depth=0):
        for c in walk_no_nested(f.node):
            if isinstance(c, ast.Call) and isinstance(c.func, ast.Attribute) and c.func.attr == name:
                return True
        return False
    start_fmt = {k for k, f in st_tab.map.items() if calls_method(f, "addFormattingElement")}
    end_fmt = set()
    for k, f in en_tab.map.items():
        for c in walk_no_nested(f.node):
            if isinstance(c, ast.Call) and isinstance(c.func, ast.Attribute) and \
                    c.func.attr == "elementInActiveFormattingElements" and c.args and norm(c.args[0]) == "token['name']":
                end_fmt.add(k)
    r.check("C01.3", start_fmt == end_fmt and len(start_fmt) >= 10, "P3::formatting", st_tab.where,
            "start tags that push a formatting element %s != end tags that run the adoption agency %s" % (
                sorted(start_fmt - end_fmt), sorted(end_fmt - start_fmt)),
            {"only_start": sorted(start_fmt - end_fmt), "only_end": sorted(end_fmt - start_fmt)},
            detail={"formatting": sorted(start_fmt)})

    # ---- P4: scope markers
    def marker_push(f):
        for c in walk_no_nested(f.node):
            if isinstance(c, ast.Call) and isinstance(c.func, ast.Attribute) and c.func.attr == "append" and \
                    (attr_chain(c.func.value) or [""])[-1] == "activeFormattingElements" and c.args and \
                    norm(c.args[0]) == "Marker":
                return True
        return False
    push, clear = set(), set()
    for (cid, attr), tab in pm.tables.items():
        for k, f in tab.map.items():
            if attr == "startTagHandler" and marker_push(f):
                push.add(k)
            if attr == "endTagHandler" and calls_method(f, "clearActiveFormattingElements"):
                clear.add(k)
    r.check("C01.3", push == clear and len(push) >= 5, "P4::markers", PARSER_REL,
            "elements that push a scope marker %s != elements whose end tag clears to the marker %s" % (
                sorted(push - clear), sorted(clear - push)),
            {"only_push": sorted(push - clear), "only_clear": sorted(clear - push)}, detail={"markers": sorted(push)})

    # ---- P5: insertFromTable brackets
    n5 = 0
    for f in mod.all_functions:
        sets_true = [n for n in walk_no_nested(f.node) if isinstance(n, ast.Assign)
                     and (attr_chain(n.targets[0]) or [""])[-1] == "insertFromTable"
                     and isinstance(n.value, ast.Constant) and n.value.value is True]
        if not sets_true:
            continue
        cfg = CFG(f.node)
        # the closing store: `= False`, or `= <local>` where the local was read from the flag before it was switched on
        saved = {a.targets[0].id for a in walk_no_nested(f.node) if isinstance(a, ast.Assign) and len(a.targets) == 1 and isinstance(a.targets[0], ast.Name)
                 and (attr_chain(a.value) or [""])[-1] == "insertFromTable" and all(a.lineno < s_.lineno for s_ in sets_true)}
        for s in sets_true:
            n5 += 1
            bad = cfg.must_follow(cfg.locate(s), lambda n: _is_store(
                n, ["insertFromTable"], lambda v: (isinstance(v, ast.Constant) and v.value is False) or (isinstance(v, ast.Name) and v.id in saved)))
            r.check("C01.3", not bad, "P5::%s" % f.qual, "%s:%d" % (PARSER_REL, s.lineno),
                    "insertFromTable is set and not cleared on a normal exit: later inserts are foster-parented "
                    "(path %s)" % (bad[0][1][:5] if bad else ""), detail={"bracket": f.qual})
    if n5 < 3:
        raise AnalysisError("P5 matched %d insertFromTable brackets (expected >= 3)" % n5)

    # ---- P8: head / form pointers
    n8 = 0
    for (cid, attr), tab in pm.tables.items():
        if attr != "startTagHandler":
            continue
        for nm, ptr in (("head", "headPointer"), ("form", "formPointer")):
            f = tab.map.get(nm)
            if f is None:
                continue
            ins = [c for c in walk_no_nested(f.node) if isinstance(c, ast.Call) and isinstance(c.func, ast.Attribute)
                   and c.func.attr == "insertElement" and c.args and norm(c.args[0]) == "token"]
            if not ins:
                continue
            cfg = CFG(f.node)
            for c in ins:
                n8 += 1
                bad = cfg.must_follow(cfg.locate(c), lambda n: _is_store(
                    n, [ptr], lambda v: norm(v).endswith("openElements[-1]")))
                r.check("C01.3", not bad, "P8::%s::%s" % (f.qual, ptr), "%s:%d" % (PARSER_REL, c.lineno),
                        "<%s> is inserted without setting %s to the new element" % (nm, ptr), detail={"pointer": ptr})
    if n8 < 3:
        raise AnalysisError("P8 matched %d head/form insertions (expected >= 3)" % n8)

    # ---- P9: scope variants
    expected_variant = {"p": "button", "li": "list", "select": "select"}
    for t in ("table", "tbody", "tfoot", "thead", "tr", "td", "th", "caption"):
        expected_variant[t] = "table"
    n9 = 0
    for f in mod.all_functions:
        for c in walk_no_nested(f.node):
            if not (isinstance(c, ast.Call) and isinstance(c.func, ast.Attribute) and c.func.attr == "elementInScope"):
                continue
            if not (c.args and isinstance(c.args[0], ast.Constant) and isinstance(c.args[0].value, str)):
                continue
            name = c.args[0].value
            var = None
            if len(c.args) > 1:
                var = ctx.ce.try_eval(c.args[1], mod, default="<dynamic>")
            for k in c.keywords:
                if k.arg == "variant":
                    var = ctx.ce.try_eval(k.value, mod, default="<dynamic>")
            n9 += 1
            exp = expected_variant.get(name)
            r.check("C01.3", var == exp, "P9::%s::elementInScope(%r)" % (f.qual, name), "%s:%d" % (PARSER_REL, c.lineno),
                    "elementInScope(%r) uses scope variant %r; the standard prescribes %r here" % (name, var, exp),
                    {"name": name, "variant": var, "expected": exp}, detail={"name": name, "variant": var})
    if n9 < 15:
        raise AnalysisError("P9 matched %d constant-name scope tests (expected >= 15)" % n9)
    # endTagListItem: the computed variant
    f = repo.func(PARSER_REL, "InBodyPhase.endTagListItem")
    tabnames = sorted(k for k, g in en_tab.map.items() if g is f)
    interp = MiniInterp(ctx.ce, mod)
    okv = True
    for nm in tabnames:
        body = []
        for st in f.node.body:
            if isinstance(st, ast.If) and any(isinstance(x, ast.Name) and x.id == "variant" and isinstance(x.ctx, ast.Store)
                                              for x in ast.walk(st)):
                body = [st]
        if not body:
            raise AnalysisError("endTagListItem: variant computation not found")
        res = interp.run(body, {"token": {"name": nm}})
        okv = okv and res.env.get("variant") == expected_variant.get(nm)
    r.check("C01.3", okv and tabnames, "P9::endTagListItem::variant", f.where,
            "endTagListItem computes the wrong scope variant for %s" % tabnames, detail={"names": tabnames})

    # ---- P10: implied-end-tag exclusion equals the element being closed
    n10 = 0
    for f in mod.all_functions:
        for c in walk_no_nested(f.node):
            if not (isinstance(c, ast.Call) and isinstance(c.func, ast.Attribute) and c.func.attr == "generateImpliedEndTags"):
                continue
            arg = c.args[0] if c.args else next((k.value for k in c.keywords if k.arg == "exclude"), None)
            if arg is None:
                continue
            n10 += 1
            txt = norm(arg)
            ok = txt == "token['name']"
            if isinstance(arg, ast.Constant):
                closes = {norm(x.comparators[0]) for x in ast.walk(f.node) if isinstance(x, ast.Compare)
                          and norm(x.left).endswith(".name") and isinstance(x.ops[0], ast.NotEq)}
                ok = repr(arg.value) in closes
            r.check("C01.3", ok, "P10::%s" % f.qual, "%s:%d" % (PARSER_REL, c.lineno),
                    "generateImpliedEndTags excludes %s, which is not the element this handler closes" % txt,
                    detail={"exclude": txt})
    if n10 < 4:
        raise AnalysisError("P10 matched %d exclusions (expected >= 4)" % n10)


# ---------------------------------------------------------------------------- C01.6 frameset-ok
FRAMESET_NOT_OK_START_TAGS = {
    "pre", "listing", "li", "dd", "dt", "button", "applet", "marquee", "object", "table", "area", "br", "embed", "img",
    "keygen", "wbr", "input", "hr", "textarea", "xmp", "iframe", "select", "image", "body",
}
# `input` clears the flag unless type=hidden; `image` is re-dispatched as img; `body` (second body tag) clears it when it
# is not ignored -- their handlers clear it on some path, the others on every path that inserts the element.


def frameset_ok(ctx):
    """The standard sets the frameset-ok flag to "not ok" for an explicit list of start tags in the "in body" insertion
    mode.  Extract, from the dispatcher table, the names whose handler (transitively, same token) stores
    parser.framesetOK = False, and compare with the transcription."""
    r = ctx.r
    pm = model(ctx)
    inbody = pm.phases["inBody"]
    tab = pm.table_for(inbody, "startTagHandler")

    def clears(f, name, depth=0, seen=None):
        seen = seen or set()
        if f.fq in seen or depth > 3:
            return False
        seen.add(f.fq)
        for n in walk_no_nested(f.node):
            if isinstance(n, ast.Assign) and (attr_chain(n.targets[0]) or [""])[-1] == "framesetOK" and \
                    isinstance(n.value, ast.Constant) and n.value.value is False:
                return True
        lt = pm.local_types(f)
        for c in walk_no_nested(f.node):
            if isinstance(c, ast.Call):
                for g, gn in pm.resolve_call(f, c, name, lt):
                    if g is not None and g.cls is not None and g.cls.is_subclass_of(pm.Phase) and g.module is f.module \
                            and (gn == name or (name == "image" and gn == "img")):
                        if clears(g, gn, depth + 1, seen):
                            return True
        return False
    got = {k for k, f in tab.map.items() if clears(f, k)}
    for k in sorted(got | FRAMESET_NOT_OK_START_TAGS):
        r.check("C01.6", (k in got) == (k in FRAMESET_NOT_OK_START_TAGS), "frameset-ok:%s" % k, tab.where,
                "start tag <%s> in body %s the frameset-ok flag; the standard says it %s" % (
                    k, "clears" if k in got else "does not clear", "does" if k in FRAMESET_NOT_OK_START_TAGS else "does not"),
                {"name": k}, detail={"name": k, "clears": k in got})
    # characters: non-white-space text clears the flag, white space does not
    f = ctx.repo.func(PARSER_REL, "InBodyPhase.processCharacters")
    src = " ".join(norm(f.node).split())
    r.idiom("C01.6", "any((char not in spaceCharacters for char in token['data']))" in src and "self.parser.framesetOK = False" in src,
            "frameset-ok:characters", f.where, "non-white-space text in body no longer clears the frameset-ok flag",
            wrong=[("framesetOK" not in src, None)])
    g = ctx.repo.func(PARSER_REL, "InBodyPhase.processSpaceCharactersNonPre")
    r.check("C01.6", "framesetOK" not in norm(g.node), "frameset-ok:space", g.where, "white space in body touches the frameset-ok flag")


# ---------------------------------------------------------------------------- C01.7 reconstruct
RECONSTRUCT_START_TAGS = {
    "a", "b", "big", "code", "em", "font", "i", "s", "small", "strike", "strong", "tt", "u", "nobr", "button", "applet",
    "marquee", "object", "xmp", "area", "br", "embed", "img", "keygen", "wbr", "input", "select", "optgroup", "option",
    "math", "svg", "image", FRESH,
    "noscript",      # with scripting disabled it is "any other start tag" (reconstructs); with scripting enabled raw text
}


def reconstruct(ctx):
    """(i) the in-body start tags whose handler reconstructs the active formatting elements are the standard's list;
    (ii) where a handler inserts the token's element after reconstructing, no call that can change the stack of open
    elements / the list of active formatting elements (processEndTag, endTag*) lies between the last reconstruction
    and the insertion."""
    r = ctx.r
    pm = model(ctx)
    inbody = pm.phases["inBody"]
    tab = pm.table_for(inbody, "startTagHandler")

    def recon(f, name, depth=0, seen=None):
        seen = seen or set()
        if f.fq in seen or depth > 3:
            return False
        seen.add(f.fq)
        lt = pm.local_types(f)
        for c in walk_no_nested(f.node):
            if isinstance(c, ast.Call) and isinstance(c.func, ast.Attribute):
                if c.func.attr == "reconstructActiveFormattingElements":
                    return True
                for g, gn in pm.resolve_call(f, c, name, lt):
                    if g is not None and g.cls is not None and g.cls.is_subclass_of(pm.Phase) and g.module is f.module \
                            and (gn == name or (name == "image" and gn == "img")) and g.cls is inbody:
                        if recon(g, gn, depth + 1, seen):
                            return True
        return False
    names = dict(tab.map)
    got = {k for k, f in names.items() if recon(f, k)}
    if tab.default is not None and recon(tab.default, FRESH):
        got.add(FRESH)
    for k in sorted(got | RECONSTRUCT_START_TAGS | set(names), key=str):
        label = "<any other>" if k == FRESH else k
        r.check("C01.7", (k in got) == (k in RECONSTRUCT_START_TAGS), "reconstruct:%s" % label, tab.where,
                "start tag <%s> in body %s the active formatting elements; the standard %s" % (
                    label, "reconstructs" if k in got else "does not reconstruct",
                    "does" if k in RECONSTRUCT_START_TAGS else "does not"), {"name": label}, detail={"name": label})
    # (ii) freshness
    mod = ctx.repo.module(PARSER_REL)
    n = 0
    for f in mod.all_functions:
        if f.cls is None or not f.cls.is_subclass_of(pm.Phase):
            continue
        recs = [c for c in walk_no_nested(f.node) if isinstance(c, ast.Call) and isinstance(c.func, ast.Attribute)
                and c.func.attr == "reconstructActiveFormattingElements"]
        if not recs:
            continue
        cfg = CFG(f.node)
        inserts = [x for x in cfg.stmt_nodes() if any(
            isinstance(c.func, ast.Attribute) and c.func.attr in ("insertElement", "addFormattingElement", "insertText")
            for c in node_calls(x))]
        is_rec = lambda x: any(isinstance(c.func, ast.Attribute) and c.func.attr == "reconstructActiveFormattingElements" for c in node_calls(x))  # noqa: E731
        dirty = lambda x: any(isinstance(c.func, ast.Attribute) and (c.func.attr in ("processEndTag", "processStartTag") or  # noqa: E731
                                                                     c.func.attr.startswith("endTag")) for c in node_calls(x))
        for ins in inserts:
            # only insertions that some reconstruction can precede
            par_all = cfg.reach_backward([ins], lambda x: False)
            if not any(is_rec(cfg.nodes[i]) for i in par_all):
                continue
            n += 1
            par = cfg.reach_backward([ins], is_rec)
            stale = [cfg.nodes[i] for i in par if dirty(cfg.nodes[i])]
            r.check("C01.7", not stale, "fresh-reconstruct::%s@%s" % (f.qual, ins.text[:30]), "%s:%d" % (PARSER_REL, ins.lineno),
                    "%s inserts after `%s`, which can change the stack / formatting list, without reconstructing the active "
                    "formatting elements again" % (f.qual, stale[0].text[:60] if stale else ""), detail={"handler": f.qual})
    if n < 10:
        raise AnalysisError("C01.7 matched %d insertions after a reconstruction (expected >= 10)" % n)


# ---------------------------------------------------------------------------- C01.8 direction of stack searches
SEARCH_DIRECTION = {
    ("HTMLParser.resetInsertionMode", "openElements"): "reverse",
    ("InBodyPhase.addFormattingElement", "activeFormattingElements"): "reverse",
    ("InBodyPhase.processEOF", "openElements"): "either",           # only reports an error
    ("InBodyPhase.startTagListItem", "openElements"): "reverse",
    ("AfterHeadPhase.startTagFromHead", "openElements"): "reverse",
    ("InBodyPhase.endTagBody", "openElements"): "either",           # only reports an error
    ("InBodyPhase.endTagFormatting", "openElements"): "forward",     # furthest block: topmost special element below the formatting element
    ("InBodyPhase.endTagOther", "openElements"): "reverse",
    ("TreeBuilder.elementInScope", "openElements"): "reverse",
    ("TreeBuilder.elementInActiveFormattingElements", "activeFormattingElements"): "reverse",
    ("TreeBuilder.getTableMisnestedNodePosition", "openElements"): "reverse",   # the *last* table in the stack
    ("ActiveFormattingElements.append", "self"): "reverse",
}


def search_direction(ctx):
    """Every first-match search over the stack of open elements / the list of active formatting elements runs in the
    direction the standard prescribes (from the current node upwards, except the furthest-block search)."""
    r = ctx.r
    seen = set()
    for rel in (PARSER_REL, "treebuilders/base.py"):
        for f in ctx.repo.module(rel).all_functions:
            searches = []
            for lp in walk_no_nested(f.node):
                if isinstance(lp, ast.For):
                    searches.append((lp, lp.iter, any(isinstance(x, (ast.Break, ast.Return)) for s_ in lp.body for x in ast.walk(s_))))
                # next((x for x in SEQ if cond), default): a first-match search written as a generator
                elif isinstance(lp, ast.Call) and norm(lp.func) == "next" and lp.args and isinstance(lp.args[0], ast.GeneratorExp) and \
                        len(lp.args[0].generators) == 1:
                    searches.append((lp, lp.args[0].generators[0].iter, True))
            for lp, it, first_match in searches:
                direction = "forward"
                base = it
                if isinstance(it, ast.Call) and norm(it.func) == "reversed" and it.args:
                    direction, base = "reverse", it.args[0]
                elif isinstance(it, ast.Subscript) and isinstance(it.slice, ast.Slice) and it.slice.step is not None and \
                        norm(it.slice.step) == "-1" and it.slice.lower is None and it.slice.upper is None:
                    direction, base = "reverse", it.value
                elif isinstance(it, ast.Subscript) and isinstance(it.slice, ast.Slice):
                    base = it.value
                ch = attr_chain(base) or []
                which = ch[-1] if ch else None
                if which == "self" and not (f.cls is not None and f.cls.name == "ActiveFormattingElements"):
                    continue
                if which not in ("openElements", "activeFormattingElements", "self"):
                    continue
                if not first_match:
                    continue
                key = (f.qual, which)
                seen.add(key)
                exp = SEARCH_DIRECTION.get(key)
                if exp is None:
                    raise AnalysisError("first-match search over %s in %s is not in the direction table (classify it)" % (which, f.qual))
                r.check("C01.8", exp == "either" or exp == direction, "direction::%s::%s" % key, "%s:%d" % (rel, lp.lineno),
                        "%s searches %s %s; the standard's search runs %s (the first match must be the %s one)" % (
                            f.qual, which, direction, exp, "most recently opened" if exp == "reverse" else "topmost"),
                        {"function": f.qual, "direction": direction}, detail={"function": f.qual, "direction": direction})
    missing = set(SEARCH_DIRECTION) - seen
    # the Noah's Ark search is also decided by running addFormattingElement (C01.25): when it is written without a loop, that
    # evaluation is the verdict
    if ctx.shared("noahs_ark_evaluated", lambda: noahs_ark(ctx)):
        missing.discard(("InBodyPhase.addFormattingElement", "activeFormattingElements"))
    if ctx.shared("afe_append_evaluated", lambda: False):
        missing.discard(("ActiveFormattingElements.append", "self"))
    if missing:
        raise AnalysisError("stack searches vanished: %s" % sorted(missing))


def form_end_tag(ctx):
    """C01.27: "An end tag whose tag name is form" (no template on the stack): let node be the form element pointer; *set the
    pointer to null*; if node is null or not in scope, parse error and return; otherwise generate implied end tags, report a
    current node that is not node, and remove node (not the current node) from the stack.  InBodyPhase.endTagForm is run from
    its source (sa/classeval.py) on model trees: the pointer must be null afterwards in every case -- a pointer left behind by an
    ignored </form> makes the parser drop every later <form> start tag."""
    from ..classeval import ClassEval, Record
    r = ctx.r
    r.rule("C01.27", "</form>: the form element pointer is cleared whether or not the end tag is ignored; node, not the current node, leaves the stack", floor=4)
    cls = ctx.repo.cls(PARSER_REL, "InBodyPhase")
    f = cls.find_method("endTagForm")
    if f is None:
        r.idiom("C01.27", False, "form-end-tag", PARSER_REL, "InBodyPhase.endTagForm not found")
        return
    mod = ctx.repo.module(PARSER_REL)
    HTML = "http://www.w3.org/1999/xhtml"

    def el(name):
        return Record(tag=name, name=name, namespace=HTML, nameTuple=(HTML, name), attributes={})
    for label, has_ptr, in_scope, extra, want_stack, want_err in (
            ("no-pointer", False, True, [], ["html", "body", "form"], True),
            ("pointer-in-scope-current", True, True, [], ["html", "body"], False),
            ("pointer-out-of-scope", True, False, ["table"], ["html", "body", "form", "table"], True),
            ("pointer-in-scope-not-current", True, True, ["div"], ["html", "body", "div"], True)):
        form = el("form")
        stack = [el("html"), el("body"), form] + [el(x) for x in extra]
        errors, implied = [], []
        tree = Record(formPointer=form if has_ptr else None, openElements=stack, defaultNamespace=HTML,
                      elementInScope=lambda target, variant=None, in_scope=in_scope: in_scope,
                      generateImpliedEndTags=lambda *a, **k: implied.append(1))
        parser = Record(parseError=lambda *a, **k: errors.append(a[0] if a else None))
        key = "form-end-tag::%s" % label
        try:
            ClassEval(ctx.ce, mod, cls, {"tree": tree, "parser": parser}, repo=ctx.repo).call("endTagForm", [{"type": 4, "name": "form", "namespace": HTML, "data": {}}])
        except AnalysisError as e:
            r.idiom("C01.27", False, key, f.where, "endTagForm is not evaluable (%s)" % str(e)[:90])
            continue
        got_stack = [x.tag for x in stack]
        ptr = getattr(tree, "formPointer", None)
        problems = []
        if ptr is not None:
            problems.append("the form element pointer is still set afterwards (the standard clears it before the scope test, so an ignored "
                            "</form> still lets the next <form> start tag through: `<table><form><tr><td></form><form id=2>`)")
        if got_stack != want_stack:
            problems.append("the stack of open elements is %s, the standard leaves %s" % (got_stack, want_stack))
        if bool(errors) != want_err:
            problems.append("parse errors %s, the standard %s one" % (errors, "reports" if want_err else "does not report"))
        r.check("C01.27", not problems, key, f.where, "</form> with %s: %s" % (label.replace("-", " "), "; ".join(problems)),
                {"scenario": label}, detail={"scenario": label, "stack": got_stack, "errors": errors})


def select_option_handlers(ctx):
    """C01.28: the option / optgroup steps of "in select": a start tag option pops a current option; a start tag optgroup pops
    a current option and then a current optgroup; an end tag option pops a current option, otherwise parse error; an end tag
    optgroup pops a current option *only if the node before it is an optgroup*, then pops a current optgroup, otherwise parse
    error.  The four handlers are run from their source (sa/classeval.py) on model stacks."""
    from ..classeval import ClassEval, Record
    r = ctx.r
    r.rule("C01.28", "in select: the option / optgroup start and end tag handlers leave the standard's stack", floor=12)
    cls = ctx.repo.cls(PARSER_REL, "InSelectPhase")
    mod = ctx.repo.module(PARSER_REL)
    HTML = "http://www.w3.org/1999/xhtml"

    def el(name):
        return Record(tag=name, name=name, namespace=HTML, nameTuple=(HTML, name), attributes={})
    base = ["html", "body", "select"]
    cases = [
        ("startTagOption", 3, "option", ["option"], ["NEW"], None),
        ("startTagOption", 3, "option", ["optgroup", "option"], ["optgroup", "NEW"], None),
        ("startTagOption", 3, "option", ["optgroup"], ["optgroup", "NEW"], None),
        ("startTagOptgroup", 3, "optgroup", ["option"], ["NEW"], None),
        ("startTagOptgroup", 3, "optgroup", ["optgroup", "option"], ["NEW"], None),
        ("startTagOptgroup", 3, "optgroup", ["optgroup"], ["NEW"], None),
        ("startTagOptgroup", 3, "optgroup", [], ["NEW"], None),
        ("endTagOption", 4, "option", ["option"], [], False),
        ("endTagOption", 4, "option", ["optgroup", "option"], ["optgroup"], False),
        ("endTagOption", 4, "option", ["optgroup"], ["optgroup"], True),
        ("endTagOptgroup", 4, "optgroup", ["optgroup", "option"], [], False),
        ("endTagOptgroup", 4, "optgroup", ["optgroup"], [], False),
        ("endTagOptgroup", 4, "optgroup", ["option"], ["option"], True),
        ("endTagOptgroup", 4, "optgroup", [], [], True),
    ]
    for meth, ttype, tname, extra, want_extra, want_err in cases:
        f = cls.find_method(meth)
        key = "in-select::%s::%s" % (meth, "+".join(extra) or "select")
        if f is None:
            r.idiom("C01.28", False, key, PARSER_REL, "InSelectPhase.%s not found" % meth)
            continue
        stack = [el(x) for x in base + extra]
        errors = []

        def insert(tok, stack=stack):
            stack.append(Record(tag="NEW", name=tok["name"], namespace=HTML, nameTuple=(HTML, tok["name"]), attributes={}))
        tree = Record(openElements=stack, insertElement=insert, defaultNamespace=HTML)
        parser = Record(parseError=lambda *a, **k: errors.append(a[0] if a else None))
        try:
            ClassEval(ctx.ce, mod, cls, {"tree": tree, "parser": parser}, repo=ctx.repo).call(meth, [{"type": ttype, "name": tname, "namespace": HTML, "data": {}}])
        except AnalysisError as e:
            r.idiom("C01.28", False, key, f.where, "%s is not evaluable (%s)" % (meth, str(e)[:90]))
            continue
        got = [x.tag for x in stack]
        want = base + want_extra
        ok = got == want and (want_err is None or bool(errors) == want_err)
        r.check("C01.28", ok, key, f.where,
                "in select, %s with the stack %s leaves %s%s; the standard leaves %s%s (`<select><option>a</optgroup>b` keeps b in the option)" % (
                    meth, base + extra, got, " and reports %s" % errors if errors else "", want,
                    "" if want_err is None else (" and reports a parse error" if want_err else " without a parse error")),
                {"handler": meth, "stack": extra}, detail={"handler": meth, "stack": base + extra, "result": got, "errors": errors})


def frameset_text(ctx):
    """C01.26: "in frameset", "after frameset", "after after frameset": a white-space character is inserted (resp. handled by the
    in-body rules), any other character is a parse error and ignored -- *per character*.  The tokenizer hands over runs
    (`a b` is one Characters token; only leading white space is split off), so the handlers of these modes must keep the
    white space inside a run.  Each processCharacters is run (sa/classeval.py) on the token `a b` with a recording tree."""
    from ..classeval import ClassEval, Record
    r = ctx.r
    pm = model(ctx)
    r.rule("C01.26", "the frameset modes keep the white space inside a run of characters", floor=3)
    mod = ctx.repo.module(PARSER_REL)
    for key in ("inFrameset", "afterFrameset", "afterAfterFrameset"):
        cls = pm.phases.get(key)
        f = cls.find_method("processCharacters") if cls is not None else None
        if f is None or len(f.params()) < 2:
            r.idiom("C01.26", False, "frameset-text::%s" % key, PARSER_REL, "no processCharacters for %s" % key)
            continue
        inserted = []
        via_body = []
        tree = Record(insertText=lambda data, parent=None: inserted.append(data), openElements=[Record(name="html"), Record(name="frameset")],
                      reconstructActiveFormattingElements=lambda: via_body.append("reconstruct"))
        body_model = Record(processSpaceCharacters=lambda tok: (inserted.append(tok["data"]), via_body.append("in body"))[0],
                            processCharacters=lambda tok: (inserted.append(tok["data"]), via_body.append("in body"))[0])
        parser = Record(parseError=lambda *a: None, phases={"inBody": body_model})
        try:
            ClassEval(ctx.ce, mod, cls, {"tree": tree, "parser": parser}, repo=ctx.repo).call("processCharacters", [{"type": 1, "data": "a b"}])
        except AnalysisError as e:
            r.idiom("C01.26", False, "frameset-text::%s" % key, f.where, "%s.processCharacters is not evaluable (%s)" % (cls.name, str(e)[:80]))
            continue
        got = "".join(inserted)
        r.check("C01.26", got == " ", "frameset-text::%s" % key, f.where,
                "%s.processCharacters on the token `a b` inserts %r; the standard inserts the white-space character and drops the two letters "
                "(`<frameset>a b</frameset>` has the text ' ' in the frameset)" % (cls.name, got), {"mode": key}, detail={"mode": key, "inserted": got})
        if key != "afterAfterFrameset":
            # "in frameset" / "after frameset": *insert the character* -- not "process using the rules for in body", which would
            # reconstruct the active formatting elements (an open <b> before the frameset would be re-created under html)
            r.check("C01.26", not via_body, "frameset-space-inserted-directly::%s" % key, f.where,
                    "%s.processCharacters hands the white space to the in-body rules / reconstructs the active formatting elements (%s); the "
                    "standard inserts the character directly in this mode: `<b><frameset></frameset>x y` would get a second b element as a "
                    "child of html" % (cls.name, sorted(set(via_body))), {"mode": key}, detail={"mode": key})


def noahs_ark(ctx) -> bool:
    """C01.25: "push onto the list of active formatting elements": if, *after the last marker*, there are already three
    elements with the same name, namespace and attributes, the earliest of them is removed; then the element is appended.
    InBodyPhase.addFormattingElement is run from its source (sa/classeval.py) on models of the tree builder's two lists."""
    from ..classeval import ClassEval, Record
    r = ctx.r
    r.rule("C01.25", "Noah's Ark clause: the earliest of three matching entries after the last marker is dropped", floor=6)
    cls = ctx.repo.cls(PARSER_REL, "InBodyPhase")
    f = cls.find_method("addFormattingElement")
    if f is None:
        r.idiom("C01.25", False, "noahs-ark", PARSER_REL, "InBodyPhase.addFormattingElement not found")
        return False
    mod = ctx.repo.module(PARSER_REL)
    marker = ctx.ce.const("treebuilders/base.py", "Marker")
    HTML = "http://www.w3.org/1999/xhtml"

    def el(tag, name="b", ns=HTML, attrs=None):
        return Record(tag=tag, name=name, namespace=ns, nameTuple=(ns, name), attributes=dict(attrs or {}))
    b1, b2, b3, b4, bx, i1 = el("b1"), el("b2"), el("b3"), el("b4"), el("bx", attrs={"class": "x"}), el("i1", name="i")
    bs = el("bs", ns="http://www.w3.org/2000/svg")
    M = marker
    scenarios = [
        ("three-matching", [b1, b2, b3], ["b2", "b3", "NEW"]),
        ("three-before-a-marker", [b1, b2, b3, M], ["b1", "b2", "b3", "M", "NEW"]),
        ("two-after-a-marker", [b1, M, b2, b3], ["b1", "M", "b2", "b3", "NEW"]),
        ("three-after-a-marker", [b1, M, b2, b3, b4], ["b1", "M", "b3", "b4", "NEW"]),
        ("different-attributes", [b1, bx, b2], ["b1", "bx", "b2", "NEW"]),
        ("other-elements-between", [i1, b1, bx, b2, b3], ["i1", "bx", "b2", "b3", "NEW"]),
        ("different-namespace", [b1, bs, b2], ["b1", "bs", "b2", "NEW"]),
        ("empty-list", [], ["NEW"]),
    ]
    all_run = True
    for label, afe, want in scenarios:
        afe = list(afe)
        stack = [el("html", name="html"), el("body", name="body")]
        new = []

        def insert(tok, stack=stack, new=new):
            e = el("NEW", name=tok["name"], ns=tok.get("namespace", HTML), attrs=tok.get("data", {}))
            new.append(e)
            stack.append(e)
        tree = Record(openElements=stack, activeFormattingElements=afe, insertElement=insert)
        key = "noahs-ark::%s" % label
        try:
            ClassEval(ctx.ce, mod, cls, {"tree": tree, "parser": Record()}, repo=ctx.repo).call("addFormattingElement", [{"type": 3, "name": "b", "namespace": HTML, "data": {}}])
        except AnalysisError as e:
            r.idiom("C01.25", False, key, f.where, "addFormattingElement is not evaluable (%s)" % str(e)[:90])
            all_run = False
            continue
        got = ["M" if x is M else x.tag for x in afe]
        r.check("C01.25", got == want, key, f.where,
                "pushing a <b> onto the list of active formatting elements %s leaves %s; the standard leaves %s (only entries after the last "
                "marker count, and the earliest of three matching ones goes)" % (
                    ["M" if x is M else x for x in [("M" if y is M else y.tag) for y in scenarios[[s_[0] for s_ in scenarios].index(label)][1]]], got, want),
                {"scenario": label}, detail={"scenario": label, "result": got})
    # the tree builder's list class applies the clause once more when an element is appended to it
    acls = next((c for c in ctx.repo.module("treebuilders/base.py").all_classes if c.name == "ActiveFormattingElements"), None)
    af = acls.methods.get("append") if acls is not None else None
    afe_run = af is not None
    if af is not None:
        for label, afe, want in scenarios:
            lst = list(afe)
            new = el("NEW")
            key = "noahs-ark::list-append::%s" % label
            try:
                evl = ClassEval(ctx.ce, ctx.repo.module("treebuilders/base.py"), acls, {}, repo=ctx.repo)
                evl.self_value = lst
                evl.call("append", [new])
            except AnalysisError as e:
                r.idiom("C01.25", False, key, af.where, "ActiveFormattingElements.append is not evaluable (%s)" % str(e)[:90])
                afe_run = False
                continue
            got = ["M" if x is M else x.tag for x in lst]
            r.check("C01.25", got == want, key, af.where,
                    "appending a <b> to the list of active formatting elements %s leaves %s; the standard leaves %s (only entries after the last "
                    "marker count, and the earliest of three matching ones goes)" % (["M" if y is M else y.tag for y in afe], got, want),
                    {"scenario": label}, detail={"scenario": label, "result": got})
    ctx.shared("afe_append_evaluated", lambda: afe_run)
    return all_run


# ---------------------------------------------------------------------------- C01.9 tree construction dispatcher
def dispatcher(ctx):
    """The condition in mainLoop that chooses between the current insertion mode and the foreign-content rules is decided
    for every combination of (stack empty, namespace of the current node, MathML text integration point, HTML integration
    point, annotation-xml, token kind, token name class) and compared with the standard's "tree construction dispatcher"."""
    r = ctx.r
    ce = ctx.ce
    f = ctx.repo.func(PARSER_REL, "HTMLParser.mainLoop")
    env0 = ce.local_env(f.node, f.module)
    tt = ce.const("constants.py", "tokenTypes")
    ns_map = ce.const("constants.py", "namespaces")
    # the condition is found by what its arms do: one selects the current insertion mode, the other the foreign-content rules
    conds = [n for n in ast.walk(f.node) if isinstance(n, ast.If) and n.orelse and
             {tuple(norm(x) for x in n.body), tuple(norm(x) for x in n.orelse)} == {("phase = self.phase",), ("phase = self.phases['inForeignContent']",)}]
    if len(conds) != 1:
        conds = [n for n in ast.walk(f.node) if isinstance(n, ast.If) and "isMathMLTextIntegrationPoint" in norm(n.test)]
    if len(conds) != 1:
        raise AnalysisError("mainLoop: dispatcher condition not found")
    cond = conds[0]
    if [norm(x) for x in cond.body] != ["phase = self.phase"] and [norm(x) for x in cond.orelse] == ["phase = self.phase"]:
        # written the other way round: decide the negation
        cond = ast.If(test=ast.UnaryOp(op=ast.Not(), operand=cond.test), body=cond.orelse, orelse=cond.body, lineno=cond.lineno)
    then_ok = [norm(x) for x in cond.body] == ["phase = self.phase"]
    else_ok = [norm(x) for x in cond.orelse] == ["phase = self.phases['inForeignContent']"]
    r.check("C01.9", then_ok and else_ok, "dispatcher-arms", "%s:%d" % (PARSER_REL, cond.lineno),
            "the dispatcher's arms no longer select the current insertion mode / the foreign-content rules")
    kinds = ["Characters", "SpaceCharacters", "StartTag", "EndTag", "Comment", "Doctype"]
    for empty in (True, False):
        for ns in ("html", "mathml", "svg"):
            for mtip in (True, False):
                for hip in (True, False):
                    for annot in (True, False):
                        for kind in kinds:
                            for name in ("mglyph", "malignmark", "svg", FRESH):
                                if kind not in ("StartTag", "EndTag") and name != FRESH:
                                    continue
                                # consistency of the abstraction
                                if ns == "html" and (mtip or hip or annot):
                                    continue
                                if mtip and ns != "mathml" or annot and ns != "mathml" or (mtip and annot):
                                    continue
                                if empty and (ns != "html" or mtip or hip or annot):
                                    continue

                                def hook(node, local, empty=empty, ns=ns, mtip=mtip, hip=hip, annot=annot):
                                    t = norm(node)
                                    if t == "len(self.tree.openElements)":
                                        return 0 if empty else 3
                                    if t == "self.tree.defaultNamespace":
                                        return ns_map["html"]
                                    if t == "currentNodeNamespace":
                                        return None if empty else ns_map[ns]
                                    if t == "currentNodeName":
                                        return None if empty else ("annotation-xml" if annot else "x")
                                    # the predicates, asked about the current node under whatever name (a helper's parameter)
                                    if isinstance(node, ast.Call) and norm(node.func) == "self.isMathMLTextIntegrationPoint" and len(node.args) == 1:
                                        return mtip
                                    if isinstance(node, ast.Call) and norm(node.func) == "self.isHTMLIntegrationPoint" and len(node.args) == 1:
                                        return hip
                                    if isinstance(node, ast.Attribute) and node.attr in ("name", "namespace") and isinstance(node.value, ast.Name) and \
                                            isinstance((local or {}).get(node.value.id), Opaque) and local[node.value.id].text == "currentNode":
                                        if node.attr == "name":
                                            return None if empty else ("annotation-xml" if annot else "x")
                                        return None if empty else ns_map[ns]
                                    return NotImplemented
                                env = dict(env0)
                                tok = {"type": tt[kind], "name": name}
                                env.update({"type": tt[kind], "token": tok, "new_token": tok, "currentNode": Opaque("currentNode"), "self": Opaque("self")})
                                interp = MiniInterp(ce, f.module, expr_hook=hook)
                                got = interp.eval_guard(cond.test, env)
                                exp = (empty or ns == "html"
                                       or (mtip and ((kind == "StartTag" and name not in ("mglyph", "malignmark")) or kind in ("Characters", "SpaceCharacters")))
                                       or (annot and kind == "StartTag" and name == "svg")
                                       or (hip and kind in ("StartTag", "Characters", "SpaceCharacters")))
                                key = "dispatch[empty=%d ns=%s mtip=%d hip=%d annot=%d %s %s]" % (
                                    empty, ns, mtip, hip, annot, kind, "-" if name == FRESH else name)
                                r.check("C01.9", got == exp, key, "%s:%d" % (PARSER_REL, cond.lineno),
                                        "%s: html5lib uses %s; the standard's dispatcher uses %s" % (
                                            key, "the insertion mode" if got else "foreign-content rules",
                                            "the insertion mode" if exp else "foreign-content rules"), {"case": key})
    # the integration-point predicates
    g = ctx.repo.func(PARSER_REL, "HTMLParser.isHTMLIntegrationPoint")
    p = g.params()[1]
    gi = MiniInterp(ce, g.module)
    hips = ce.const("constants.py", "htmlIntegrationPointElements")
    for nsk, name in (("mathml", "annotation-xml"), ("svg", "foreignObject"), ("svg", "desc"), ("svg", "title"), ("svg", "g"),
                      ("mathml", "mi"), ("html", "div")):
        for enc in (None, "text/html", "TEXT/HTML", "application/xhtml+xml", "text/plain"):
            if enc is not None and name != "annotation-xml":
                continue
            attrs = {} if enc is None else {"encoding": enc}

            def hook(node, local, nsk=nsk, name=name, attrs=attrs):
                t = norm(node)
                if t == "%s.name" % p:
                    return name
                if t == "%s.namespace" % p:
                    return ns_map[nsk]
                if t == "%s.attributes" % p:
                    return attrs
                return NotImplemented
            saved = ce.hook
            ce.hook = hook
            try:
                res = gi.run(g.node.body, {"self": Opaque("self")})
            finally:
                ce.hook = saved
            got = bool(res.value)
            if nsk == "mathml" and name == "annotation-xml":
                exp = enc is not None and enc.lower() in ("text/html", "application/xhtml+xml")
            else:
                exp = (nsk, name) in (("svg", "foreignObject"), ("svg", "desc"), ("svg", "title"))
            r.check("C01.9", got == exp, "html-integration-point[%s %s enc=%s]" % (nsk, name, enc), g.where,
                    "isHTMLIntegrationPoint(%s %s, encoding=%r) is %s; the standard says %s" % (nsk, name, enc, got, exp))
    h = ctx.repo.func(PARSER_REL, "HTMLParser.isMathMLTextIntegrationPoint")
    r.check("C01.9", [norm(x) for x in h.node.body if not isinstance(x, ast.Expr)] ==
            ["return (%s.namespace, %s.name) in mathmlTextIntegrationPointElements" % (h.params()[1], h.params()[1])],
            "mathml-text-integration-point", h.where, "isMathMLTextIntegrationPoint no longer tests (namespace, name) membership")


# ---------------------------------------------------------------------------- C01.13 formatting list / breakout
def _is_marker_test(test, var):
    """`var == Marker` / `var is Marker` -> "eq"; `var != Marker` / `var is not Marker` -> "ne"; else None"""
    if isinstance(test, ast.Compare) and len(test.ops) == 1:
        a, b = norm(test.left), norm(test.comparators[0])
        if {a, b} == {var, "Marker"}:
            return "eq" if isinstance(test.ops[0], (ast.Eq, ast.Is)) else "ne" if isinstance(test.ops[0], (ast.NotEq, ast.IsNot)) else None
    return None


def formatting_rules(ctx):
    """C01.13:
    (a) every backward scan of the list of active formatting elements stops at the last marker;
    (b) after an adoption-agency run for an implied end tag, the stale element is removed from *both* the stack of open
        elements and the list of active formatting elements;
    (c) the start-tag "breakout" in foreign content pops until the current node is an HTML element, an HTML integration
        point or a MathML text integration point."""
    r = ctx.r
    ce = ctx.ce
    repo = ctx.repo
    # (a)
    n_scans = 0
    for rel in (PARSER_REL, "treebuilders/base.py"):
        for f in repo.module(rel).all_functions:
            in_afe_class = f.cls is not None and f.cls.name == "ActiveFormattingElements"
            for node in walk_no_nested(f.node):
                if isinstance(node, ast.For) and isinstance(node.target, ast.Name):
                    it = node.iter
                    seq = None
                    if isinstance(it, ast.Subscript) and norm(it.slice) == "::-1":
                        seq = it.value
                    elif isinstance(it, ast.Call) and norm(it.func) == "reversed" and len(it.args) == 1:
                        seq = it.args[0]
                    if seq is None:
                        continue
                    ch = attr_chain(seq) or []
                    if not ((ch and ch[-1] == "activeFormattingElements") or (in_afe_class and ch == ["self"])):
                        continue
                    n_scans += 1
                    var = node.target.id
                    key = "marker-stops-scan::%s::for-%s" % (f.qual, var)
                    where = "%s:%d" % (rel, node.lineno)
                    tests = [x for x in ast.walk(node) if isinstance(x, ast.If) and _is_marker_test(x.test, var) == "eq"]
                    first = node.body[0] if node.body else None
                    ok = bool(tests) and tests[0] is first and isinstance(tests[0].body[-1], (ast.Break, ast.Return))
                    r.idiom("C01.13", ok, key, where, "backward scan of the formatting list in %s: marker test not recognised" % f.qual,
                            wrong=[(bool(tests) and isinstance(tests[0].body[-1], (ast.Continue, ast.Pass)),
                                    "%s: the backward scan of the list of active formatting elements skips a marker instead of "
                                    "stopping at it (elements before the last marker are compared / returned)" % f.qual),
                                   (not tests and not any("Marker" in norm(x) for x in ast.walk(node) if isinstance(x, ast.Compare)),
                                    "%s: the backward scan of the list of active formatting elements never tests for a marker" % f.qual)],
                            detail={"function": f.qual, "loop": "for"})
                elif isinstance(node, ast.While):
                    # while-scans: `while <entry> != Marker and ...` over the formatting list
                    conj = node.test.values if isinstance(node.test, ast.BoolOp) and isinstance(node.test.op, ast.And) else [node.test]
                    body_txt = " ".join(norm(x) for x in node.body)
                    if "activeFormattingElements" not in body_txt and "activeFormattingElements" not in norm(node.test):
                        continue
                    vars_ = {t.id for st in node.body for t in ast.walk(st) if isinstance(t, ast.Name) and isinstance(t.ctx, ast.Store)}
                    scanned = [v for v in vars_ if any(isinstance(st, ast.Assign) and norm(st.targets[0]) == v and
                                                       "activeFormattingElements" in norm(st.value) for st in ast.walk(node))]
                    test_names = {x.id for x in ast.walk(node.test) if isinstance(x, ast.Name)}
                    popped = [v for v in scanned if any(isinstance(st, ast.Assign) and norm(st.targets[0]) == v and
                                                        norm(st.value).endswith("activeFormattingElements.pop()") for st in ast.walk(node))]
                    # a loop that pops entries off the list is a backward scan whatever its test says; an indexed walk is
                    # one only if the entry it reads takes part in the loop test
                    scanned = [v for v in scanned if v in test_names or v in popped]
                    if not scanned:
                        continue
                    n_scans += 1
                    var = scanned[0]
                    key = "marker-stops-scan::%s::while-%s" % (f.qual, var)
                    ok = any(_is_marker_test(c, var) == "ne" for c in conj)
                    r.idiom("C01.13", ok, key, "%s:%d" % (rel, node.lineno),
                            "%s: while-scan of the formatting list: marker conjunct not recognised" % f.qual,
                            wrong=[(not any("Marker" in norm(c) for c in conj) and not any("Marker" in norm(x) for x in ast.walk(node)),
                                    "%s: the loop over the list of active formatting elements does not stop at a marker" % f.qual)],
                            detail={"function": f.qual, "loop": "while"})
    if n_scans < 5:
        raise AnalysisError("C01.13: %d backward scans of the formatting list found (expected >= 5)" % n_scans)
    # (b)
    n_b = 0
    for f in repo.module(PARSER_REL).all_functions:
        locs = {}
        for st in walk_no_nested(f.node):
            if isinstance(st, ast.Assign) and isinstance(st.targets[0], ast.Name) and isinstance(st.value, ast.Call) and \
                    (attr_chain(st.value.func) or [""])[-1] == "elementInActiveFormattingElements":
                locs[st.targets[0].id] = st
        if not locs:
            continue
        calls = [c for c in walk_no_nested(f.node) if isinstance(c, ast.Call) and (attr_chain(c.func) or [""])[-1] in ("endTagFormatting",)
                 and c.args and isinstance(c.args[0], ast.Call) and norm(c.args[0].func) == "impliedTagToken"]
        if not calls:
            continue
        for v in locs:
            removed = set()
            for c in walk_no_nested(f.node):
                if isinstance(c, ast.Call) and isinstance(c.func, ast.Attribute) and c.func.attr == "remove" and c.args and norm(c.args[0]) == v \
                        and c.lineno > calls[0].lineno:
                    removed.add((attr_chain(c.func.value) or [""])[-1])
            n_b += 1
            key = "stale-formatting-element::%s::%s" % (f.qual, v)
            r.check("C01.13", {"openElements", "activeFormattingElements"} <= removed, key, f.where,
                    "%s: after running the adoption agency for the implied end tag, %s is removed only from %s; the standard removes it "
                    "from both the stack of open elements and the list of active formatting elements (it can survive the algorithm "
                    "when it is not in scope)" % (f.qual, v, sorted(removed) or "neither list"),
                    {"function": f.qual, "removed_from": sorted(removed)}, detail={"function": f.qual, "removed_from": sorted(removed)})
    if n_b < 1:
        raise AnalysisError("C01.13: no handler runs the adoption agency for an element found in the formatting list")
    # (c)
    f = repo.func(PARSER_REL, "InForeignContentPhase.processStartTag")
    loops = [n for n in walk_no_nested(f.node) if isinstance(n, ast.While) and
             any(isinstance(c, ast.Call) and norm(c.func).endswith("openElements.pop") for st in n.body for c in ast.walk(st))]
    if len(loops) != 1:
        raise AnalysisError("InForeignContentPhase.processStartTag: breakout pop loop not found")
    loop = loops[0]
    ns_map = ce.const("constants.py", "namespaces")
    # concrete current nodes (namespace, name, attributes): the breakout stops at an HTML element, at a MathML text integration
    # point and at an HTML integration point -- annotation-xml is one only with encoding text/html or application/xhtml+xml
    reps = [("html", "div", {}), ("svg", "g", {}), ("svg", "foreignObject", {}), ("svg", "desc", {}), ("svg", "title", {}), ("svg", "svg", {}),
            ("mathml", "math", {}), ("mathml", "mi", {}), ("mathml", "mo", {}), ("mathml", "mn", {}), ("mathml", "ms", {}), ("mathml", "mtext", {}),
            ("mathml", "mrow", {}), ("mathml", "annotation-xml", {}), ("mathml", "annotation-xml", {"encoding": "text/html"}),
            ("mathml", "annotation-xml", {"encoding": "APPLICATION/XHTML+XML"}), ("mathml", "annotation-xml", {"encoding": "text/plain"})]
    for ns, name, attrs in reps:
        hip = (ns == "svg" and name in ("foreignObject", "desc", "title")) or (
            ns == "mathml" and name == "annotation-xml" and attrs.get("encoding", "").lower() in ("text/html", "application/xhtml+xml"))
        mtip = ns == "mathml" and name in ("mi", "mo", "mn", "ms", "mtext")

        def hook(node, local, ns=ns, name=name, attrs=attrs, hip=hip, mtip=mtip):
            t = norm(node)
            if t == "self.tree.openElements[-1].namespace":
                return ns_map[ns]
            if t == "self.tree.openElements[-1].name":
                return name
            if t == "self.tree.openElements[-1].nameTuple":
                return (ns_map[ns], name)
            if t == "self.tree.openElements[-1].attributes":
                return attrs
            if t == "self.tree.defaultNamespace":
                return ns_map["html"]
            # the two predicates are the standard's (C01.9 decides that the methods implement them)
            if isinstance(node, ast.Call) and norm(node.func) in ("self.parser.isHTMLIntegrationPoint", "self.isHTMLIntegrationPoint") and \
                    [norm(a) for a in node.args] == ["self.tree.openElements[-1]"]:
                return hip
            if isinstance(node, ast.Call) and norm(node.func) in ("self.parser.isMathMLTextIntegrationPoint", "self.isMathMLTextIntegrationPoint") and \
                    [norm(a) for a in node.args] == ["self.tree.openElements[-1]"]:
                return mtip
            # a class-level table of the phase
            if isinstance(node, ast.Attribute) and norm(node.value) == "self" and isinstance(node.ctx, ast.Load) and f.cls is not None:
                c_, v_ = f.cls.find_assign(node.attr)
                if v_ is not None:
                    return ce.eval(v_, f.module, None)
            return NotImplemented
        interp = MiniInterp(ce, f.module, expr_hook=hook)
        try:
            got = interp.eval_guard(loop.test, {"self": Opaque("self")})
        except Exception:       # noqa: BLE001 -- unrecognised guard shape
            got = None
        exp = not (ns == "html" or hip or mtip)
        key = "breakout[%s %s%s]" % (ns, name, " encoding=%s" % attrs["encoding"] if attrs else "")
        if got is None:
            r.idiom("C01.13", False, key, "%s:%d" % (PARSER_REL, loop.lineno), "breakout loop guard not evaluable")
            continue
        r.check("C01.13", bool(got) == exp, key, "%s:%d" % (PARSER_REL, loop.lineno),
                "foreign-content breakout: with the current node <%s %s%s> (HTML integration point=%s, MathML text integration point=%s) the "
                "loop %s popping; the standard %s%s" % (
                    ns, name, " encoding=%s" % attrs["encoding"] if attrs else "", hip, mtip, "keeps" if got else "stops",
                    "keeps popping" if exp else "stops there",
                    "" if exp or got is False else " (an annotation-xml without a text/html encoding is not an integration point)"
                    if False else (": the start tag is then handed back to the foreign-content rules with the same current node -- the "
                                   "main loop never ends (`<math><annotation-xml><p>`)" if exp and not got else "")),
                {"case": key}, detail={"case": key, "pops": bool(got)})


# ---------------------------------------------------------------------------- C01.14 foster parenting applies to table-ish targets only
def foster_condition(ctx):
    """With foster parenting enabled, a node is foster-parented only when the target (the current node) is a table, tbody,
    tfoot, thead or tr element; otherwise it is inserted normally (text inside a fostered <b>, say, goes into that <b>).
    Decided for TreeBuilder.insertText and insertElementTable over flag x current-node name."""
    r = ctx.r
    ce = ctx.ce
    base = ctx.repo.module("treebuilders/base.py")
    tset = set(ce.const("constants.py", "tableInsertModeElements"))
    names = sorted(tset) + ["b", "td", "caption", "html", FRESH]
    for fname, flags in (("TreeBuilder.insertText", (True, False)), ("TreeBuilder.insertElementTable", (True,))):
        f = ctx.repo.func("treebuilders/base.py", fname)
        for flag in flags:
            for nm in names:
                def hook(node, local, flag=flag, nm=nm):
                    t = norm(node)
                    if t in ("self.insertFromTable", "self._insertFromTable"):
                        return flag
                    if t == "self.openElements[-1].name":
                        return nm
                    return NotImplemented
                seen = []

                def stmt_hook(st, out, interp, seen=seen):
                    if isinstance(st, ast.Assign) and "getTableMisnestedNodePosition" in norm(st.value):
                        seen.append(st)
                        for t in st.targets:
                            for e_ in (t.elts if isinstance(t, ast.Tuple) else [t]):
                                if isinstance(e_, ast.Name):
                                    out.env[e_.id] = Opaque(e_.id)
                        return False
                    return NotImplemented

                def guard_hook(node, env, interp):
                    if isinstance(node, ast.Compare) and isinstance(node.comparators[0], ast.Constant) and node.comparators[0].value is None \
                            and isinstance(env.get(norm(node.left)), Opaque):
                        return True          # which of the two foster positions is used does not matter here
                    return NotImplemented
                interp = MiniInterp(ce, base, expr_hook=hook, stmt_hook=stmt_hook, guard_hook=guard_hook)
                key = "foster[%s flag=%d current=%s]" % (fname.split(".")[1], flag, "-" if nm == FRESH else nm)
                try:
                    env = {p: Opaque(p) for p in f.params()}
                    if "parent" in env:
                        env["parent"] = Opaque("parent")
                    res = interp.run(f.node.body, env)
                except AnalysisError as e:
                    r.idiom("C01.14", False, key, f.where, "%s not decidable (%s)" % (fname, str(e)[:80]))
                    continue
                fostered = bool(seen)
                exp = flag and nm in tset
                r.check("C01.14", fostered == exp, key, f.where,
                        "%s with foster parenting %s and current node <%s>: the node is %s; the standard %s (only table, tbody, tfoot, "
                        "thead and tr targets are foster-parented)" % (fname, "on" if flag else "off", nm, "foster-parented" if fostered else
                                                                     "inserted normally", "foster-parents it" if exp else "inserts it normally"),
                        {"function": fname, "flag": flag, "current": nm}, detail={"function": fname, "flag": flag, "current": nm, "fostered": fostered})


# ---------------------------------------------------------------------------- C01.15 adoption agency loop bounds
def adoption_loops(ctx):
    """The adoption agency algorithm runs its outer loop at most 8 times; its inner loop is *not* bounded -- it walks down to
    the formatting element, and from the fourth node on removes the nodes it passes from the list of active formatting
    elements (and from the stack when they are not in the list)."""
    r = ctx.r
    f = ctx.repo.func(PARSER_REL, "InBodyPhase.endTagFormatting")
    whiles = [n for n in ast.walk(f.node) if isinstance(n, ast.While)]
    counters = {}
    for w in whiles:
        for c in ast.walk(w.test):
            if isinstance(c, ast.Compare) and isinstance(c.left, ast.Name) and "ounter" in c.left.id and isinstance(c.comparators[0], ast.Constant):
                counters[c.left.id] = (w, type(c.ops[0]).__name__, c.comparators[0].value)
    # the same loops written as `for <counter> in range(a, b)`: b - a iterations at most
    for lp in ast.walk(f.node):
        if isinstance(lp, ast.For) and isinstance(lp.target, ast.Name) and "ounter" in lp.target.id and isinstance(lp.iter, ast.Call) and \
                norm(lp.iter.func) == "range":
            vals = [ctx.ce.try_eval(a, f.module) for a in lp.iter.args]
            if all(isinstance(v, int) for v in vals) and 1 <= len(vals) <= 2:
                counters[lp.target.id] = (lp, "Lt", (vals[0] if len(vals) == 1 else vals[1] - vals[0]))
    outer = [(k, v) for k, v in counters.items() if "outer" in k.lower()]
    inner = [(k, v) for k, v in counters.items() if "inner" in k.lower()]
    r.idiom("C01.15", len(outer) == 1 and outer[0][1][1:] == ("Lt", 8), "adoption-outer-loop-8", f.where,
            "the adoption agency's outer loop bound was not recognised: %s" % outer,
            wrong=[(len(outer) == 1 and outer[0][1][1] == "Lt" and outer[0][1][2] != 8,
                    "the adoption agency's outer loop runs at most %s times; the standard says 8" % (outer[0][1][2] if outer else "?"))])
    r.check("C01.15", not inner, "adoption-inner-loop-unbounded", "%s:%d" % (PARSER_REL, inner[0][1][0].lineno if inner else f.node.lineno),
            "the adoption agency's inner loop stops after %s iterations (`while %s`); the standard's inner loop continues down to the "
            "formatting element and, from the fourth node on, removes the nodes it passes from the list of active formatting "
            "elements: with four or more formatting elements between the closed one and the furthest block the extra ones stay in "
            "the list and on the stack" % (inner[0][1][2] if inner else "?", norm(getattr(inner[0][1][0], "test", inner[0][1][0].iter if hasattr(inner[0][1][0], "iter") else inner[0][1][0])) if inner else ""),
            detail={"inner_loop_test": norm(getattr(inner[0][1][0], "test", None) or inner[0][1][0].iter) if inner else None})


# ---------------------------------------------------------------------------- C01.16 attribute adjustment keeps the order
def attribute_order(ctx):
    """Adjusting SVG / MathML / foreign attribute names renames attributes; it must not move them: the token's attributes are an
    ordered mapping and their order is the source order (it reaches the tree and the serializer).  Renaming by pop-and-reinsert
    sends every adjusted attribute to the end."""
    r = ctx.r
    f = ctx.repo.module(PARSER_REL).functions.get("adjust_attributes")
    if f is None:
        r.idiom("C01.16", False, "adjust-attributes-keeps-order", PARSER_REL, "adjust_attributes vanished")
        return
    rebuild = [s for s in ast.walk(f.node) if isinstance(s, ast.Assign) and norm(s.targets[0]).endswith("['data']") and
               any(isinstance(x, (ast.GeneratorExp, ast.ListComp, ast.DictComp)) and ".items()" in norm(x.generators[0].iter) for x in ast.walk(s.value))]
    pops = [c for c in ast.walk(f.node) if isinstance(c, ast.Call) and isinstance(c.func, ast.Attribute) and c.func.attr in ("pop", "popitem", "move_to_end")]
    dels = [d for d in ast.walk(f.node) if isinstance(d, ast.Delete)]
    r.idiom("C01.16", bool(rebuild) and not pops and not dels, "adjust-attributes-keeps-order", f.where,
            "adjust_attributes: the renaming idiom was not recognised",
            wrong=[(bool(pops or dels) and not rebuild,
                    "adjust_attributes renames attributes by removing and re-inserting them: every adjusted attribute moves to the end of "
                    "the element's attribute list (<svg viewbox=.. id=a> gets id before viewBox)")],
            detail={"rebuilds_in_order": bool(rebuild)})


# ---------------------------------------------------------------------------- C01.17 white space handled by the in-body rules
# insertion modes in which a white-space character token is "processed using the rules for the in body insertion mode" (which
# reconstruct the active formatting elements, honour the ignore-next-LF state of <pre>/<textarea> and then insert the character)
SPACE_VIA_IN_BODY = ("inCaption", "inCell", "afterBody", "afterAfterBody", "afterAfterFrameset")


def space_delegation(ctx):
    r = ctx.r
    pm = model(ctx)
    for key in SPACE_VIA_IN_BODY:
        cls = pm.phases[key]
        m = cls.find_method("processSpaceCharacters")
        body = [norm(s) for s in m.node.body if not (isinstance(s, ast.Expr) and isinstance(s.value, ast.Constant))] if m else []
        delegates = any("phases['inBody'].processSpaceCharacters(" in b or "phases['inBody'].processCharacters(" in b for b in body)
        inherited = m is not None and m.cls is pm.Phase
        r.idiom("C01.17", delegates, "space-via-in-body::%s" % key, (m.where if m else cls.where),
                "%s.processSpaceCharacters not recognised: %s" % (cls.name, body[:2]),
                wrong=[(inherited, "in the %s insertion mode white space is inserted by the generic Phase.processSpaceCharacters instead of being "
                                   "processed with the in-body rules: the newline after <pre> / <textarea> is kept (<table><tr><td><pre>\\nx) and the "
                                   "active formatting elements are not reconstructed first" % key)],
                detail={"phase": key, "handler": m.qual if m else None})


# ---------------------------------------------------------------------------- C01.18 "if the end tag was not ignored, reprocess"
def reprocess_condition(ctx):
    """Several start-tag handlers act as if an end tag had been seen and then reprocess the token *unless that end tag was
    ignored* (the element was not in scope: fragment case).  The condition has to be that scope test.  Approximating it by
    "we are not parsing a fragment" loses the token in every fragment parse in which the element *is* in scope
    (parseFragment('<table><table>x') drops the second table)."""
    r = ctx.r
    pm = model(ctx)
    n = 0
    for f in ctx.repo.module(PARSER_REL).all_functions:
        if f.cls is None or not f.cls.is_subclass_of(pm.Phase) or len(f.params()) < 2:
            continue
        tok = f.params()[1]
        implied = [c for c in walk_no_nested(f.node) if isinstance(c, ast.Call) and isinstance(c.func, ast.Attribute) and c.func.attr == "processEndTag"
                   and c.args and isinstance(c.args[0], ast.Call) and norm(c.args[0].func) == "impliedTagToken"]
        if not implied:
            continue
        # an unconditional hand-back after the implied end tag is judged by C03.9 (it must be able to make progress)
        for st in f.node.body:
            if isinstance(st, ast.Return) and st.value is not None and norm(st.value) == tok and st.lineno > implied[0].lineno:
                n += 1
                r.ok("C01.18", "reprocess-unless-ignored::%s" % f.qual, "%s:%d" % (PARSER_REL, st.lineno), detail={"handler": f.qual, "condition": "unconditional"})
        for iff in [x for x in walk_no_nested(f.node) if isinstance(x, ast.If)]:
            if not (len(iff.body) == 1 and isinstance(iff.body[0], ast.Return) and iff.body[0].value is not None and norm(iff.body[0].value) == tok and iff.lineno > implied[0].lineno):
                continue
            n += 1
            t = norm(iff.test)
            r.idiom("C01.18", "innerHTML" not in t and ("ignore" in t.lower() or "elementInScope" in t), "reprocess-unless-ignored::%s" % f.qual,
                    "%s:%d" % (PARSER_REL, iff.lineno), "%s: the condition `%s` of the hand-back was not recognised" % (f.qual, t),
                    wrong=[("innerHTML" in t,
                            "%s reprocesses the token only when no fragment is being parsed (`%s`) instead of when the implied end tag was "
                            "not ignored: in a fragment parse in which the element is in scope the token is dropped "
                            "(parseFragment('<table><table>x') yields one table)" % (f.qual, t))],
                    detail={"handler": f.qual, "condition": t})
    if n < 3:
        raise AnalysisError("C01.18 matched %d conditional hand-backs after an implied end tag (expected >= 3)" % n)


# ---------------------------------------------------------------------------- C01.19 "pop until an X element" means an HTML X element
def pop_until_html_element(ctx):
    """The standard's "pop elements until a tr / caption / table ... element has been popped" and "clear the stack back to a
    ... context" name *HTML* elements.  In the insertion modes in which the current node can be a foreign element (its start
    tag was handled by the in-body rules while a table mode was current, or the token arrived through an HTML integration
    point), a loop that pops while only the *name* of the current node differs stops at a foreign element of that name
    (<table><svg><html><desc><tr> builds the row inside the svg `html` element)."""
    from .c03 import model as _m
    r = ctx.r
    pm = _m(ctx)
    inbody = pm.phases["inBody"]
    inserters = {m.fq for n, m in inbody.methods.items() if n in ("startTagSvg", "startTagMath")}
    foreign_phases = set()
    for key, cls in pm.phases.items():
        h, how = pm.handler(cls, "StartTag", "svg")
        if h is None:
            continue
        nodes, edges, sites = pm.build_graph([(h, "svg")])
        if {f.fq for f, n in nodes.values()} & inserters:
            foreign_phases.add(key)
    n = 0
    for key in sorted(foreign_phases):
        cls = pm.phases[key]
        for m in cls.methods.values():
            for w in walk_no_nested(m.node):
                if not isinstance(w, ast.While):
                    continue
                t = norm(w.test)
                pops = any(isinstance(c, ast.Call) and norm(c.func).endswith("openElements.pop") for s in w.body for c in ast.walk(s))
                if not pops or "openElements[-1].name" not in t:
                    continue
                # a loop that is followed by popping the element it stopped at ("pop until an X has been popped") corrects itself:
                # the mode changes and the next clear-the-stack pops the rest.  Only "clear the stack back to a context" loops,
                # after which something is *inserted* under the node they stopped at, are judged.
                following = []
                for blk in ast.walk(m.node):
                    for fld in ("body", "orelse"):
                        seq = getattr(blk, fld, None)
                        if isinstance(seq, list) and w in seq:
                            following = seq[seq.index(w) + 1:]
                if any(isinstance(s, ast.Expr) and isinstance(s.value, ast.Call) and norm(s.value.func).endswith("openElements.pop") for s in following):
                    continue
                names = {c.value for c in ast.walk(w.test) if isinstance(c, ast.Constant) and isinstance(c.value, str)}
                breakout = set(ctx.ce.try_eval(ast.parse("breakoutElements", mode="eval").body, ctx.repo.module(PARSER_REL)) or ())
                if names and names <= breakout:
                    continue            # a start tag with such a name leaves foreign content: no foreign element is called that
                n += 1
                r.check("C01.19", "openElements[-1].namespace" in t or "nameTuple" in t, "pop-until-html::%s::%s" % (m.qual, t[:50]),
                        "%s:%d" % (PARSER_REL, w.lineno),
                        "%s pops while `%s`: in the %s insertion mode the current node can be a foreign element with one of these names, at "
                        "which the loop stops as if it were the HTML element" % (m.qual, t[:80], key), {"method": m.qual},
                        detail={"method": m.qual, "test": t[:80]})
    if n < 3:
        raise AnalysisError("C01.19 matched %d clear-the-stack loops in table modes (expected >= 3)" % n)


# ---------------------------------------------------------------------------- C01.10 quirks mode
QUIRKS_EXACT = {"-//w3o//dtd w3 html strict 3.0//en//", "-/w3c/dtd html 4.0 transitional/en", "html"}
QUIRKS_SYSTEM = "http://www.ibm.com/data/dtd/v11/ibmxhtml1-transitional.dtd"
QUIRKS_IF_NO_SYSTEM = ("-//w3c//dtd html 4.01 frameset//", "-//w3c//dtd html 4.01 transitional//")
LIMITED_QUIRKS = ("-//w3c//dtd xhtml 1.0 frameset//", "-//w3c//dtd xhtml 1.0 transitional//")
QUIRKS_PREFIX_SAMPLE = ("-//ietf//dtd html//", "-//w3c//dtd html 3.2//", "-//w3c//dtd html 4.0 transitional//",
                        "-//w3c//dtd html 4.0 frameset//", "-//netscape comm. corp.//dtd html//", "-//ietf//dtd html 2.0//",
                        "-//microsoft//dtd internet explorer 3.0 html//", "+//silmaril//dtd html pro v0r11 19970101//",
                        "-//webtechs//dtd mozilla html//", "-//w3c//dtd w3 html//")


QUIRKS_PREFIXES = [x.lower() for x in (
    "+//Silmaril//dtd html Pro v0r11 19970101//", "-//AS//DTD HTML 3.0 asWedit + extensions//",
    "-//AdvaSoft Ltd//DTD HTML 3.0 asWedit + extensions//", "-//IETF//DTD HTML 2.0 Level 1//", "-//IETF//DTD HTML 2.0 Level 2//",
    "-//IETF//DTD HTML 2.0 Strict Level 1//", "-//IETF//DTD HTML 2.0 Strict Level 2//", "-//IETF//DTD HTML 2.0 Strict//",
    "-//IETF//DTD HTML 2.0//", "-//IETF//DTD HTML 2.1E//", "-//IETF//DTD HTML 3.0//", "-//IETF//DTD HTML 3.2 Final//",
    "-//IETF//DTD HTML 3.2//", "-//IETF//DTD HTML 3//", "-//IETF//DTD HTML Level 0//", "-//IETF//DTD HTML Level 1//",
    "-//IETF//DTD HTML Level 2//", "-//IETF//DTD HTML Level 3//", "-//IETF//DTD HTML Strict Level 0//",
    "-//IETF//DTD HTML Strict Level 1//", "-//IETF//DTD HTML Strict Level 2//", "-//IETF//DTD HTML Strict Level 3//",
    "-//IETF//DTD HTML Strict//", "-//IETF//DTD HTML//", "-//Metrius//DTD Metrius Presentational//",
    "-//Microsoft//DTD Internet Explorer 2.0 HTML Strict//", "-//Microsoft//DTD Internet Explorer 2.0 HTML//",
    "-//Microsoft//DTD Internet Explorer 2.0 Tables//", "-//Microsoft//DTD Internet Explorer 3.0 HTML Strict//",
    "-//Microsoft//DTD Internet Explorer 3.0 HTML//", "-//Microsoft//DTD Internet Explorer 3.0 Tables//",
    "-//Netscape Comm. Corp.//DTD HTML//", "-//Netscape Comm. Corp.//DTD Strict HTML//", "-//O'Reilly and Associates//DTD HTML 2.0//",
    "-//O'Reilly and Associates//DTD HTML Extended 1.0//", "-//O'Reilly and Associates//DTD HTML Extended Relaxed 1.0//",
    "-//SQ//DTD HTML 2.0 HoTMetaL + extensions//", "-//SoftQuad Software//DTD HoTMetaL PRO 6.0::19990601::extensions to HTML 4.0//",
    "-//SoftQuad//DTD HoTMetaL PRO 4.0::19971010::extensions to HTML 4.0//", "-//Spyglass//DTD HTML 2.0 Extended//",
    "-//Sun Microsystems Corp.//DTD HotJava HTML//", "-//Sun Microsystems Corp.//DTD HotJava Strict HTML//",
    "-//W3C//DTD HTML 3 1995-03-24//", "-//W3C//DTD HTML 3.2 Draft//", "-//W3C//DTD HTML 3.2 Final//", "-//W3C//DTD HTML 3.2//",
    "-//W3C//DTD HTML 3.2S Draft//", "-//W3C//DTD HTML 4.0 Frameset//", "-//W3C//DTD HTML 4.0 Transitional//",
    "-//W3C//DTD HTML Experimental 19960712//", "-//W3C//DTD HTML Experimental 970421//", "-//W3C//DTD W3 HTML//",
    "-//W3O//DTD W3 HTML 3.0//", "-//WebTechs//DTD Mozilla HTML 2.0//", "-//WebTechs//DTD Mozilla HTML//")]


def quirks(ctx):
    """The quirks / limited-quirks decision of the initial insertion mode, decided over representative DOCTYPE tokens."""
    r = ctx.r
    ce = ctx.ce
    f = ctx.repo.func(PARSER_REL, "InitialPhase.processDoctype")
    # the long prefix tuple of the code is the domain for prefixes; the standard's structure is the oracle
    tuples = []
    for n in ast.walk(f.node):
        if isinstance(n, ast.Call) and isinstance(n.func, ast.Attribute) and n.func.attr == "startswith" and n.args:
            v = ce.try_eval(n.args[0], f.module)
            if isinstance(v, tuple):
                tuples.append(v)
    if not tuples:
        raise AnalysisError("processDoctype: prefix tables not found")
    big = max(tuples, key=len)
    for pfx in sorted(set(big) | set(QUIRKS_PREFIXES)):
        r.check("C01.10", pfx in big and pfx in QUIRKS_PREFIXES, "quirks-prefix:%s" % pfx, f.where,
                "public identifier prefix %r is %s" % (pfx, "missing from html5lib's quirks table" if pfx not in big else
                                                        "in html5lib's quirks table but not in the standard's"))
    pubs = [None, "", "HTML", "html", "-//W3O//DTD W3 HTML Strict 3.0//EN//", "-/W3C/DTD HTML 4.0 Transitional/EN",
            "-//W3C//DTD HTML 4.01 Frameset//EN", "-//W3C//DTD HTML 4.01 Transitional//EN", "-//W3C//DTD XHTML 1.0 Frameset//EN",
            "-//W3C//DTD XHTML 1.0 Transitional//EN", "-//W3C//DTD HTML 4.01//EN", "-//W3C//DTD XHTML 1.0 Strict//EN", "x"] + \
        [p.upper() + "EN" for p in big[:6]] + [big[-1] + "x", big[20]]
    syss = [None, "", "about:legacy-compat", QUIRKS_SYSTEM, QUIRKS_SYSTEM.upper(), "http://www.w3.org/TR/html4/loose.dtd"]
    interp = MiniInterp(ce, f.module)
    for name in ("html", "other"):
        for correct in (True, False):
            for pub in pubs:
                for sysid in syss:
                    tok = {"name": name, "publicId": pub, "systemId": sysid, "correct": correct}
                    res = interp.run(f.node.body, {f.params()[1]: tok, "self": Opaque("self")})
                    modes = [norm(e.node.value) for e in res.effects if isinstance(e.node, ast.Assign) and norm(e.node.targets[0]) == "self.parser.compatMode"]
                    got = modes[-1].strip("'") if modes else "no quirks"
                    lp = (pub or "").lower()
                    ls = (sysid or "").lower()
                    if (not correct or name != "html" or lp in QUIRKS_EXACT or (sysid is not None and ls == QUIRKS_SYSTEM)
                            or lp.startswith(tuple(big)) or (sysid is None and lp.startswith(QUIRKS_IF_NO_SYSTEM))):
                        exp = "quirks"
                    elif lp.startswith(LIMITED_QUIRKS) or (sysid is not None and lp.startswith(QUIRKS_IF_NO_SYSTEM)):
                        exp = "limited quirks"
                    else:
                        exp = "no quirks"
                    key = "quirks[name=%s correct=%s pub=%r sys=%r]" % (name, correct, (pub or "")[:34] if pub is not None else None,
                                                                          (sysid or "")[:24] if sysid is not None else None)
                    r.check("C01.10", got == exp, key, f.where, "%s -> %s; the standard says %s" % (key, got, exp), {"case": key})


# ---------------------------------------------------------------------------- C01.11 reprocess requests are not lost
def return_propagation(ctx):
    """A handler asks mainLoop to reprocess the token by returning it.  When a handler delegates its own token to another
    handler and discards the result, no callee reachable for the token names that can arrive here may return the token --
    otherwise the reprocess request is lost and the token disappears from the tree."""
    r = ctx.r
    pm = model(ctx)
    nodes, edges, sites, ents = graph(ctx)
    memo = {}

    def may_return_token(f, name, depth=0):
        key = (f.fq, name)
        if key in memo:
            return memo[key]
        memo[key] = False
        if depth > 6 or f.cls is None or not f.cls.is_subclass_of(pm.Phase) or len(f.params()) < 2:
            return False
        tok = f.params()[1]
        lt = pm.local_types(f)
        out = False
        for n in walk_no_nested(f.node):
            if isinstance(n, ast.Return) and n.value is not None:
                if isinstance(n.value, ast.Name) and n.value.id == tok:
                    out = True
                elif isinstance(n.value, ast.Call):
                    a0 = n.value.args[0] if n.value.args else None
                    if isinstance(a0, ast.Name) and a0.id == tok:
                        for g, gn in pm.resolve_call(f, n.value, name, lt, pm.phase_refinements(f)):
                            if g is not None and may_return_token(g, gn if gn not in (None,) else name, depth + 1):
                                out = True
        memo[key] = out
        return out
    n_sites = 0
    for (fq, name), (f, _) in sorted(nodes.items(), key=lambda kv: (kv[0][0], str(kv[0][1]))):
        if f.cls is None or not f.cls.is_subclass_of(pm.Phase) or len(f.params()) < 2 or name in (None, ANY):
            continue
        tok = f.params()[1]
        lt = pm.local_types(f)
        for st in walk_no_nested(f.node):
            call = None
            if isinstance(st, ast.Expr) and isinstance(st.value, ast.Call):
                call = st.value
            if call is None or not (call.args and isinstance(call.args[0], ast.Name) and call.args[0].id == tok):
                continue
            if not (isinstance(call.func, ast.Attribute) and (call.func.attr.startswith("process") or call.func.attr.startswith("startTag")
                                                              or call.func.attr.startswith("endTag"))):
                continue
            n_sites += 1
            losers = sorted({g.qual for g, gn in pm.resolve_call(f, call, name, lt, pm.phase_refinements(f))
                             if g is not None and may_return_token(g, gn if gn is not None else name)})
            label = "<any other>" if name == FRESH else name
            r.check("C01.11", not losers, "reprocess-lost::%s::%s" % (f.qual, label), "%s:%d" % (PARSER_REL, st.lineno),
                    "%s delegates the <%s> token with `%s` and discards the result, but %s can return the token for "
                    "reprocessing: the request is lost and the element never gets inserted" % (f.qual, label, norm(call)[:60], losers),
                    {"handler": f.qual, "name": label, "callees": losers}, detail={"handler": f.qual, "name": label})
    if n_sites < 50:
        raise AnalysisError("C01.11 matched %d discarded delegations" % n_sites)


# ---------------------------------------------------------------------------- C01.4 / C02.7
STANDARD_CONTENT_MODEL = {
    "title": {("rcdata", "always")}, "textarea": {("rcdata", "always")},
    "style": {("rawtext", "always")}, "xmp": {("rawtext", "always")}, "iframe": {("rawtext", "always")},
    "noembed": {("rawtext", "always")}, "noframes": {("rawtext", "always")},
    "script": {("scriptData", "always")}, "plaintext": {("plaintext", "always")},
    "noscript": {("rawtext", "scripting")},
}


def cmm(ctx):
    return ctx.shared("contentmodel", lambda: content_model_map(model(ctx), ctx.ce))


def content_model(ctx):
    r = ctx.r
    m = cmm(ctx)
    for name in sorted(set(m) | set(STANDARD_CONTENT_MODEL)):
        got, exp = m.get(name, set()), STANDARD_CONTENT_MODEL.get(name, set())
        r.check("C02.7", got == exp, "content-model::%s" % name, PARSER_REL,
                "start tag <%s> switches the tokenizer to %s; the standard prescribes %s" % (
                    name, sorted(got) or "nothing", sorted(exp) or "nothing"),
                {"got": sorted(got), "expected": sorted(exp)}, detail={"element": name, "state": sorted(got)})


def fragment_state(ctx):
    r = ctx.r
    ce = ctx.ce
    pm = model(ctx)
    m = cmm(ctx)
    f = ctx.repo.func(PARSER_REL, "HTMLParser.reset")
    # the innerHTML arm of reset()
    arm = None
    for st in f.node.body:
        if isinstance(st, ast.If) and norm(st.test) == "self.innerHTMLMode":
            arm = st.body
    if arm is None:
        raise AnalysisError("HTMLParser.reset: `if self.innerHTMLMode:` arm not found")
    chain = [s for s in arm if isinstance(s, ast.If)]
    if len(chain) != 1:
        raise AnalysisError("HTMLParser.reset: tokenizer-state chain not recognised")
    names = set(m) | {FRESH}
    for c in ast.walk(chain[0]):
        if isinstance(c, ast.Compare):
            for cc in c.comparators + [c.left]:
                v = ce.try_eval(cc, f.module)
                if isinstance(v, str):
                    names.add(v)
                elif isinstance(v, (set, frozenset, tuple, list)):
                    names |= {x for x in v if isinstance(x, str)}

    # what the chain compares: `self.innerHTML`, or a local the lower-cased container name was put in
    import collections as _c
    lefts = _c.Counter(norm(c.left) for t_ in ast.walk(chain[0]) if isinstance(t_, ast.If) for c in ast.walk(t_.test) if isinstance(c, ast.Compare))
    scrutinee = lefts.most_common(1)[0][0] if lefts else "self.innerHTML"

    def expr_hook(node, env):
        if norm(node) in ("self.innerHTML", scrutinee):
            return env["__ctx"]
        if isinstance(node, ast.Attribute) and norm(node).startswith("self.tokenizer."):
            return Opaque(norm(node))
        return NotImplemented
    interp = MiniInterp(ce, f.module, expr_hook=expr_hook)
    scripting_dependent = any("scripting" in norm(x) for x in ast.walk(chain[0]) if isinstance(x, (ast.Attribute, ast.Name)))
    for name in sorted(names):
        res = interp.run(chain, {"__ctx": name, "self": Opaque("self")})
        states = [state_store(e.node) for e in res.effects if state_store(e.node)]
        got = states[0] if states else None
        exp = m.get(name, set())
        key = "fragment-state::%s" % ("<other>" if name == FRESH else name)
        if name == "script":
            # exempt: no end tag can be "appropriate" in a fragment (no last start tag), so
            # RAWTEXT and script data emit identical tokens up to escapes that need </script>
            r.check("C01.4", got in ("rawtext", "scriptData"), key, f.where,
                    "fragment context <script> selects tokenizer state %s" % got, detail={"exempt": "script"})
            continue
        exp_states = {s for s, c in exp}
        conds = {c for s, c in exp}
        if not exp:
            r.check("C01.4", got is None, key, f.where,
                    "fragment context <%s> switches the tokenizer to %s although its start-tag handler does not" % (name, got),
                    {"context": name, "state": got})
            continue
        if got not in exp_states:
            r.bad("C01.4", key, f.where, "fragment context <%s> selects tokenizer state %s; its start-tag handler selects %s"
                  % (name, got, sorted(exp)), {"context": name, "state": got, "handler": sorted(exp)})
            continue
        if conds != {"always"} and not scripting_dependent:
            r.bad("C01.4", key, f.where,
                  "fragment context <%s> selects %s unconditionally, but the start-tag handler does so only when %s"
                  % (name, got, sorted(conds)), {"context": name, "state": got, "handler": sorted(exp)})
            continue
        r.ok("C01.4", key, f.where, detail={"context": name, "state": got})


# ---------------------------------------------------------------------------- C01.5
def _tuples(v):
    return {tuple(x) if isinstance(x, list) else x for x in v}


def standard_tables(ctx):
    r = ctx.r
    ce = ctx.ce
    pm = model(ctx)
    with open(DATA) as fh:
        data = json.load(fh)
    ns = ce.const("constants.py", "namespaces")
    inv = {v: k for k, v in ns.items()}

    def canon(x):
        if isinstance(x, tuple) and len(x) == 2:
            return "%s %s" % (inv.get(x[0], x[0]), x[1])
        return x

    def get_value(spec):
        kind = spec["source"]
        if kind == "const":
            return ce.const(spec["module"], spec["name"])
        if kind == "class-const":
            c = ctx.repo.cls(spec["module"], spec["class"])
            k, node = c.find_assign(spec["name"])
            if node is None:
                raise AnalysisError("%s.%s vanished" % (spec["class"], spec["name"]))
            return ce.eval(node, c.module)
        if kind == "local-const":
            if spec["name"] == "newModes":
                return pm.new_modes          # resolved by the parser model wherever the mapping lives
            f = ctx.repo.func(spec["module"], spec["function"])
            env = ce.local_env(f.node, f.module)
            if spec["name"] not in env:
                # a function-local table hoisted to module level keeps its role if the function still reads exactly one
                # constant mapping of that shape
                cands = []
                for n in ast.walk(f.node):
                    if isinstance(n, ast.Name) and isinstance(n.ctx, ast.Load):
                        try:
                            v = ce.lookup(n.id, f.module, env)
                        except NotConstant:
                            continue
                        if isinstance(v, dict) and len(v) > 5 and v not in cands:
                            cands.append(v)
                if len(cands) == 1:
                    return cands[0]
                raise AnalysisError("%s: local constant %s vanished" % (spec["function"], spec["name"]))
            return env[spec["name"]]
        if kind == "listElementsMap":
            lm = ce.const("treebuilders/base.py", "listElementsMap")
            if spec["variant"] not in lm:
                raise AnalysisError("listElementsMap[%r] vanished" % spec["variant"])
            s, invert = lm[spec["variant"]]
            if invert != spec.get("invert", False):
                return {"<invert flag is %s>" % invert}
            return s
        if kind == "dispatch-keys":
            tab = pm.table_for(pm.phases[spec["phase"]], spec["table"])
            return {k for k, f in tab.map.items() if f.name == spec["handler"]}
        if kind == "frozenset-in-function":
            f = ctx.repo.func(spec["module"], spec["function"])
            sets = []
            for n in ast.walk(f.node):
                if isinstance(n, ast.Compare) and isinstance(n.ops[0], (ast.In, ast.NotIn)):
                    v = ce.try_eval(n.comparators[0], f.module)
                    if isinstance(v, (set, frozenset, tuple)) and spec["marker"] in v:
                        sets.append(set(v))
            if len(sets) != 1:
                raise AnalysisError("%s: expected one constant set containing %r" % (spec["function"], spec["marker"]))
            return sets[0]
        raise AnalysisError("unknown source kind %s" % kind)

    n_entries = 0
    for tname, spec in data["tables"].items():
        val = get_value(spec)
        where = spec.get("module", "")
        if spec.get("type") == "map":
            got = dict(val)
            must = spec["must"]
            either = set(spec.get("either", []))
            for k, v in must.items():
                n_entries += 1
                gv = got.get(k)
                if isinstance(gv, tuple):
                    gv = list(gv)
                    if spec.get("nsvalues"):
                        gv = [inv.get(x, x) for x in gv]
                r.check("C01.5", gv == v, "%s[%s]" % (tname, k), where,
                        "%s[%r] is %r; the standard has %r" % (tname, k, gv, v), {"got": gv, "expected": v})
            for k in got:
                if k not in must and k not in either:
                    n_entries += 1
                    r.bad("C01.5", "%s[%s]" % (tname, k), where,
                          "%s has entry %r -> %r that the standard does not have" % (tname, k, got[k]))
            continue
        got = {canon(x) for x in val}
        must = set(spec["must"])
        either = set(spec.get("either", []))
        for e in sorted(must):
            n_entries += 1
            r.check("C01.5", e in got, "%s:+%s" % (tname, e), where,
                    "%s lacks %r, which the standard's set contains%s" % (
                        tname, e, ("; " + spec["witness"][e]) if e in spec.get("witness", {}) else ""),
                    {"table": tname, "missing": e})
        for e in sorted(got - must - either, key=str):
            n_entries += 1
            r.bad("C01.5", "%s:-%s" % (tname, e), where,
                  "%s contains %r, which the standard's set does not" % (tname, e), {"table": tname, "extra": e})
    r.extra["standard_table_entries"] = n_entries
    r.extra["either_way_entries"] = {t: s.get("either", []) for t, s in data["tables"].items() if s.get("either")}


def missing_steps(ctx):
    """Three steps of the standard whose presence is visible in the shape of the code:

    C01.20  "If the next token is a U+000A LINE FEED character token, then ignore that token" after a pre / listing / textarea
            start tag: *next token*.  html5lib arms a white-space handler that drops the newline; it has to be disarmed by every
            other token, or an ignored token in between (`<pre></b>\\nx`) leaves it armed and the newline is dropped although it is
            not the next token.
    C01.21  fragment parsing: "set the parser's form element pointer to the nearest node to the context element that is a form
            element": with the context element `form` the pointer is non-null, so a `<form>` start tag inside is ignored.
    C01.22  adoption agency, step 2: "if the current node is an HTML element whose tag name is subject, and the current node is
            not in the list of active formatting elements, then pop the current node off the stack of open elements and return"."""
    r = ctx.r
    repo = ctx.repo
    r.rule("C01.20", "the newline-dropping handler armed by pre / listing / textarea is disarmed by every other token", floor=1)
    r.rule("C01.21", "a fragment whose context element is form has a non-null form element pointer", floor=1)
    r.rule("C01.22", "adoption agency step 2: the current node with the token's name that is not in the formatting list is simply popped", floor=1)
    ib = repo.cls("html5parser.py", "InBodyPhase")
    drop = [m for m in ib.methods.values() if any(isinstance(a, ast.Assign) and norm(a.targets[0]) == "self.processSpaceCharacters" and
                                                    norm(a.value) != "self." + m.name for a in ast.walk(m.node)) and
            any("startswith" in norm(c) for c in ast.walk(m.node) if isinstance(c, ast.Call)) and m.name.startswith("processSpaceCharacters")]
    if len(drop) != 1:
        r.idiom("C01.20", False, "drop-newline-is-next-token-only", ib.where, "the newline-dropping white-space handler was not identified")
    else:
        h = drop[0]
        armers = [m.name for m in ib.methods.values() if any(isinstance(a, ast.Assign) and norm(a.targets[0]) == "self.processSpaceCharacters" and
                                                              norm(a.value) == "self." + h.name for a in ast.walk(m.node))]
        # token entry points of the phase other than white space: do they restore the default handler (or is the arming
        # tied to a token count that the handler checks)?
        entries = ["processStartTag", "processEndTag", "processCharacters", "processComment"]
        restoring = []
        for nm in entries:
            m = ib.find_method(nm)
            if m is not None and any(isinstance(a, ast.Assign) and norm(a.targets[0]) == "self.processSpaceCharacters" for a in ast.walk(m.node)):
                restoring.append(nm)
        counted = any("tokenCount" in norm(x) or "tokensSeen" in norm(x) or "lastToken" in norm(x) for x in ast.walk(h.node) if isinstance(x, (ast.Attribute, ast.Name)))
        r.idiom("C01.20", counted or len(restoring) == len(entries), "drop-newline-is-next-token-only", h.where,
                "how the newline-dropping handler is limited to the next token was not recognised",
                wrong=[(bool(armers) and not counted and not restoring,
                        "%s (armed by %s) stays armed until the next white-space token arrives, whatever tokens come in between: "
                        "`<pre></b>\\nx` (an ignored end tag between the start tag and the newline) loses the newline, which is not the "
                        "next token after <pre>; the handler only checks that the element is still empty" % (h.qual, ", ".join(sorted(armers))))],
                detail={"armed_by": sorted(armers), "restoring_entry_points": restoring})
    rs = repo.func("html5parser.py", "HTMLParser.reset")
    sets_form = any(isinstance(a, ast.Assign) and norm(a.targets[0]).endswith("formPointer") for a in ast.walk(rs.node)) or \
        any(isinstance(c, ast.Call) and "formPointer" in norm(c) for c in ast.walk(rs.node))
    frag = any(isinstance(t, ast.If) and "innerHTMLMode" in norm(t.test) for t in ast.walk(rs.node))
    r.idiom("C01.21", sets_form, "fragment-form-pointer", rs.where, "HTMLParser.reset: the fragment set-up was not recognised",
            wrong=[(frag and not sets_form,
                    "fragment set-up never sets the form element pointer: parseFragment('<form id=inner><input></form>x', container='form') "
                    "creates a nested form element; with a form context element the standard has a non-null pointer, so the inner "
                    "<form> start tag is ignored")])
    # C01.12 (conditional switch): "if the parser was not created as part of the HTML fragment parsing algorithm, and the current
    # node is no longer a frameset element, then switch the insertion mode to 'after frameset'" -- both conditions
    ff = repo.func("html5parser.py", "InFramesetPhase.endTagFrameset")
    fcfg = CFG(ff.node)
    sw = [n for n in fcfg.stmt_nodes() if n.kind == "stmt" and isinstance(n.ast, ast.Assign) and norm(n.ast.targets[0]) == "self.parser.phase"
          and "afterFrameset" in norm(n.ast.value)]
    if len(sw) != 1:
        r.idiom("C01.12", False, "conditional-switch[inFrameset </frameset> -> afterFrameset]", ff.where, "the switch to 'after frameset' was not found")
    else:
        def frag_guard(n, lab):
            if n.kind != "test":
                return False
            t = norm(n.ast)
            return "innerHTML" in t and ((t.startswith("not ") and lab is True) or (not t.startswith("not ") and lab is False))
        def node_guard(n, lab):
            return n.kind == "test" and "openElements[-1].name" in norm(n.ast) and "'frameset'" in norm(n.ast) and \
                (("!=" in norm(n.ast) and lab is True) or ("==" in norm(n.ast) and lab is False))
        g1, g2 = fcfg.dominated_by(sw[0], frag_guard), fcfg.dominated_by(sw[0], node_guard)
        r.check("C01.12", g1 and g2, "conditional-switch[inFrameset </frameset> -> afterFrameset]", "html5parser.py:%d" % sw[0].lineno,
                "after </frameset> the parser switches to 'after frameset' %s: in a fragment whose context element is frameset (or html) the "
                "root is the current node after a nested </frameset>, the switch happens and a following <frame> / <frameset> is dropped"
                % ("without the 'not the fragment case' condition" if not g1 else "without testing that the current node is no longer a frameset"),
                detail={"fragment_guard": g1, "current_node_guard": g2})
    ef = repo.func("html5parser.py", "InBodyPhase.endTagFormatting")
    first_loop = next((st for st in ef.node.body if isinstance(st, ast.While)), None)
    before = []
    for st in ef.node.body:
        if st is first_loop:
            break
        before.append(st)
    shortcut = any(isinstance(st, ast.If) and "activeFormattingElements" in norm(st.test) and "openElements[-1]" in norm(st) + " ".join(norm(b) for b in before) and
                   any(isinstance(x, ast.Return) for x in ast.walk(st)) and any("pop" in norm(c) for c in ast.walk(st) if isinstance(c, ast.Call))
                   for st in before)
    r.idiom("C01.22", shortcut, "aaa-current-node-shortcut", ef.where, "endTagFormatting: what precedes the outer loop was not recognised",
            wrong=[(first_loop is not None and not any(isinstance(st, ast.If) for st in before),
                    "the adoption agency starts its outer loop at once; the standard first pops a current node that has the token's name and is "
                    "not in the list of active formatting elements: `<b><p><b><b><b></p></b>x` (the first b was evicted by the Noah's Ark "
                    "clause) removes a list entry instead and leaves the outer b open")])


def reentrant_brackets(ctx):
    """C01.23: the in-table rules process many tokens "using the rules for in body, with foster parenting enabled".  html5lib
    brackets the delegation with `insertFromTable = True ... = False`.  The in-body handlers close elements through the *current*
    phase (`self.parser.phase.processEndTag(impliedTagToken(..))`), which is still "in table" -- whose end-tag fallback is
    itself such a bracket.  The inner bracket's closing `= False` switches foster parenting off for the rest of the outer step:
    `<table><li>a<li>b` appends the second li to the table.  A bracket that can be re-entered must restore the value it found."""
    r = ctx.r
    pm = model(ctx)
    r.rule("C01.23", "a foster-parenting bracket that can be re-entered restores the value it found", floor=2)
    mod = ctx.repo.module(PARSER_REL)
    brackets = []
    for f in mod.all_functions:
        on = [a for a in walk_no_nested(f.node) if isinstance(a, ast.Assign) and norm(a.targets[0]).endswith(".insertFromTable") and norm(a.value) == "True"]
        if on:
            brackets.append(f)
    if len(brackets) < 2:
        r.idiom("C01.23", False, "foster-bracket-reentrancy", PARSER_REL, "the foster-parenting brackets were not found")
        return
    bq = {f.fq: f for f in brackets}

    def restores(f):
        stores = [a for a in walk_no_nested(f.node) if isinstance(a, ast.Assign) and norm(a.targets[0]).endswith(".insertFromTable")]
        closes = [a for a in stores if norm(a.value) != "True"]
        return bool(closes) and all(isinstance(a.value, ast.Name) for a in closes) and any(
            isinstance(a, ast.Assign) and isinstance(a.targets[0], ast.Name) and norm(a.value).endswith(".insertFromTable") and
            a.targets[0].id in {c.value.id for c in closes if isinstance(c.value, ast.Name)} for a in walk_no_nested(f.node))
    entered_from = {}
    for f in brackets:
        # what the bracket delegates to, and what that can reach
        calls = [c for c in walk_no_nested(f.node) if isinstance(c, ast.Call) and "phases['inBody']" in norm(c.func)]
        for c in calls:
            meth = c.func.attr if isinstance(c.func, ast.Attribute) else None
            ib = pm.phases.get("inBody")
            g = ib.find_method(meth) if ib is not None and meth else None
            if g is None:
                continue
            for nm in (pm.domain if meth in ("processStartTag", "processEndTag") else [None]):
                roots = []
                if meth in ("processStartTag", "processEndTag"):
                    h, _how = pm.handler(ib, "StartTag" if meth == "processStartTag" else "EndTag", nm)
                    if h is not None:
                        roots.append((h, nm))
                else:
                    roots.append((g, None))
                nodes, edges, sites = pm.build_graph(roots)
                for k in nodes:
                    if k[0] in bq:
                        entered_from.setdefault(k[0], set()).add(f.qual)
    for fq, f in sorted(bq.items()):
        outer = sorted(entered_from.get(fq, ()))
        key = "foster-bracket-reentrancy::%s" % f.qual
        r.check("C01.23", restores(f) or not outer, key, f.where,
                "%s is a foster-parenting bracket (`insertFromTable = True ... = False`) that can be entered while another one is open: the "
                "in-body handlers that %s delegates to close elements through the current phase, which is still the table phase.  Its closing "
                "`= False` then switches foster parenting off in the middle of the outer step: `<table><li>a<li>b` puts the second li inside "
                "the table" % (f.qual, ", ".join(outer[:2])),
                {"bracket": f.qual, "entered_from": outer[:5]}, detail={"restores_previous_value": restores(f), "entered_from": outer[:5]})


TABLE_TEXT_CURRENT = ("table", "tbody", "tfoot", "thead", "tr")     # + template, which html5lib does not implement


def table_text_condition(ctx):
    """C01.24: "in table", a character token: *if the current node is a table, tbody, tfoot, thead or tr element* the pending
    table character tokens are collected (in table text); otherwise it is "anything else" -- the in-body rules with foster
    parenting (reconstruct the active formatting elements, drop the newline after <pre>, ...).  The two character handlers of the
    table phase are run on each current-node name: they enter the table-text mode exactly for the five names."""
    from ..partition import MiniInterp, Opaque
    r = ctx.r
    pm = model(ctx)
    r.rule("C01.24", "in table, characters are collected as table text only when the current node is table/tbody/tfoot/thead/tr", floor=16)
    it = pm.phases.get("inTable")
    mod = ctx.repo.module(PARSER_REL)
    for meth in ("processSpaceCharacters", "processCharacters"):
        f = it.find_method(meth) if it is not None else None
        if f is None or f.cls is not it:
            r.idiom("C01.24", False, "table-text::%s" % meth, PARSER_REL, "InTablePhase.%s not found" % meth)
            continue
        for name in TABLE_TEXT_CURRENT + ("div", "pre", "caption", "b"):
            entered, delegated = [], []

            def hook(node, local, name=name):
                if norm(node) in ("self.tree.openElements[-1].name", "self.parser.tree.openElements[-1].name"):
                    return name
                return NotImplemented

            def stmt_hook(st, out, interp, entered=entered, delegated=delegated):
                if isinstance(st, ast.Assign) and norm(st.targets[0]) in ("self.parser.phase",):
                    if "inTableText" in norm(st.value):
                        entered.append(st)
                    out.env["<phase>"] = norm(st.value)
                    return False
                if isinstance(st, ast.Assign) and norm(st.targets[0]).startswith(("self.parser.phase.", "self.tree.insertFromTable")):
                    return False
                if isinstance(st, ast.Expr) and isinstance(st.value, ast.Call):
                    t = norm(st.value.func)
                    if t.startswith("self.parser.phases['inBody'].process") or t == "self.insertText":
                        delegated.append(st)
                        return False
                    if t.startswith("self.parser.phase.process"):
                        return False
                    # a helper method of the phase, called for its effect: its statements are run in place
                    if isinstance(st.value.func, ast.Attribute) and norm(st.value.func.value) == "self" and not st.value.keywords:
                        h = it.find_method(st.value.func.attr)
                        if h is not None and len(h.params()) - 1 == len(st.value.args) and inl[0] < 2:
                            sub_env = dict(out.env)
                            for p_, a_ in zip(h.params()[1:], st.value.args):
                                sub_env[p_] = out.env.get(a_.id, Opaque(norm(a_))) if isinstance(a_, ast.Name) else Opaque(norm(a_))
                            saved = out.env
                            out.env = sub_env
                            inl[0] += 1
                            try:
                                interp._block(h.node.body, out)
                            finally:
                                inl[0] -= 1
                                out.env = saved
                            out.returned = False
                            return False
                return NotImplemented
            inl = [0]
            key = "table-text::%s::current-node-%s" % (meth, name)
            try:
                res = MiniInterp(ctx.ce, mod, expr_hook=hook, stmt_hook=stmt_hook).run(f.node.body, {"self": Opaque("self"), f.params()[1]: Opaque("token")})
            except AnalysisError as e:
                r.idiom("C01.24", False, key, f.where, "InTablePhase.%s not decidable (%s)" % (meth, str(e)[:80]))
                continue
            want = name in TABLE_TEXT_CURRENT
            unknown = [e for e in res.effects if isinstance(e.node, ast.Expr)]       # calls the rule did not follow
            r.idiom("C01.24", bool(entered) == want and (want or bool(delegated)), key, f.where,
                    "InTablePhase.%s with current node <%s>: neither table text nor an in-body delegation was recognised" % (meth, name),
                    wrong=[(bool(entered) and not want,
                            "in table, a character token with current node <%s> is collected as table text; for the standard it is \"anything "
                            "else\" (in-body rules, foster parenting): `<p><b></p><table><div> </div>` must reconstruct <b> inside the div, and "
                            "`<table><pre>\\nx` must drop the newline" % name),
                           (not entered and want and not unknown, "in table, a character token with current node <%s> is not collected as table text: "
                                                  "white space between rows would be foster-parented / reconstructed" % name)],
                    data={"handler": meth, "current_node": name}, detail={"handler": meth, "current_node": name, "table_text": bool(entered)})


def run(ctx):
    r = ctx.r
    r.explanation = (
        "Structural necessary conditions of WHATWG tree construction decided over all code paths of html5parser.py / "
        "treebuilders/base.py: ambient-source lint, dispatcher-table integrity, pairing rules on per-function CFGs with "
        "slots filled from the code, fragment-context/handler agreement of the tokenizer content model, and evaluated "
        "element tables against transcribed WHATWG sets (three-valued: must / must-not / either-way).")
    r.not_decided = NOT_DECIDED
    r.rule("C01.1", "no ambient source is read on the parse path; no set is iterated with an order-sensitive effect", floor=20)
    r.rule("C01.2", "dispatcher tables: every handler resolves, default present, no duplicate names, phase keys exist", floor=150)
    r.rule("C01.3", "pairing rules P1 (text mode), P3 (formatting lists), P4 (markers), P5 (foster bracket), P8 (pointers), "
                    "P9 (scope variants), P10 (implied-end exclusions)", floor=30)
    r.rule("C01.4", "fragment context selects the tokenizer state its start-tag handler selects, under the same condition", floor=10)
    r.rule("C02.7", "element -> tokenizer state map of the start-tag handlers equals the standard's", floor=10)
    r.rule("C01.6", "the start tags that clear the frameset-ok flag in body are the standard's list; text clears it, white space does not", floor=20)
    r.rule("C01.7", "active formatting elements are reconstructed for the standard's start tags, and freshly before each insertion", floor=60)
    r.rule("C01.8", "first-match searches over the stack / formatting list run in the standard's direction", floor=12)
    r.rule("C01.9", "tree construction dispatcher (insertion mode vs foreign content) and integration-point predicates equal the standard's", floor=120)
    r.rule("C01.10", "quirks / limited-quirks decision equals the standard's for representative DOCTYPE tokens", floor=500)
    r.rule("C01.11", "a delegation whose result is discarded cannot lose a reprocess request", floor=50)
    r.rule("C01.13", "formatting-list scans stop at markers; stale formatting element removed from both lists; foreign breakout pops to an HTML element or integration point", floor=10)
    r.rule("C01.19", "pop-until loops in modes with a possibly foreign current node test the namespace as well as the name", floor=3)
    r.rule("C01.18", "a token is reprocessed after an implied end tag exactly when that end tag was not ignored (scope test, not 'not a fragment')", floor=3)
    r.rule("C01.17", "white space is handed to the in-body rules in the modes where the standard says so", floor=5)
    r.rule("C01.16", "attribute-name adjustment rebuilds the mapping in source order", floor=1)
    r.rule("C01.15", "adoption agency: outer loop bounded by 8, inner loop not bounded by a counter", floor=2)
    r.rule("C01.14", "foster parenting is applied exactly when it is enabled and the current node is table/tbody/tfoot/thead/tr", floor=25)
    r.rule("C01.12", "insertion-mode transitions: each switch is one the standard's steps for that mode and token make; each required switch is reachable", floor=120)
    r.rule("C01.5", "evaluated element tables equal the transcribed WHATWG sets (entries marked either-way excepted)", floor=300)
    ambient(ctx)
    dispatch(ctx)
    pairing(ctx)
    content_model(ctx)
    fragment_state(ctx)
    frameset_ok(ctx)
    reconstruct(ctx)
    search_direction(ctx)
    dispatcher(ctx)
    quirks(ctx)
    return_propagation(ctx)
    formatting_rules(ctx)
    foster_condition(ctx)
    adoption_loops(ctx)
    attribute_order(ctx)
    space_delegation(ctx)
    reprocess_condition(ctx)
    pop_until_html_element(ctx)
    missing_steps(ctx)
    reentrant_brackets(ctx)
    table_text_condition(ctx)
    frameset_text(ctx)
    form_end_tag(ctx)
    select_option_handlers(ctx)
    from . import modes
    modes.run(ctx, "C01.12")
    standard_tables(ctx)


def thorough(ctx):
    from .. import selftest
    selftest.run(ctx, sys.modules[__name__])


def mutants():
    from ..selftest import TextMutant as T
    return [
        T("form-pointer-cleared-only-when-closed", "html5parser.py",
          "        node = self.tree.formPointer\n        self.tree.formPointer = None\n        if node is None or not self.tree.elementInScope(node):",
          "        node = self.tree.formPointer\n        if node is None or not self.tree.elementInScope(node):", "C01.27"),
        T("form-end-pops-current-node", "html5parser.py", "            self.tree.openElements.remove(node)\n\n    def endTagListItem", "            self.tree.openElements.pop()\n\n    def endTagListItem", "C01.27"),
        T("optgroup-end-pops-any-option", "html5parser.py",
          "        if (self.tree.openElements[-1].name == \"option\" and\n                self.tree.openElements[-2].name == \"optgroup\"):\n            self.tree.openElements.pop()",
          "        if self.tree.openElements[-1].name == \"option\":\n            self.tree.openElements.pop()", "C01.28"),
        T("table-text-any-current-node", "html5parser.py", '        return self.tree.openElements[-1].name in ("table", "tbody", "tfoot", "thead", "tr")',
          '        return True', "C01.24"),
        T("table-text-not-for-tr", "html5parser.py", '        return self.tree.openElements[-1].name in ("table", "tbody", "tfoot", "thead", "tr")',
          '        return self.tree.openElements[-1].name in ("table", "tbody", "tfoot", "thead")', "C01.24"),
        T("foster-bracket-closes-with-false", "html5parser.py", "        self.parser.phases[\"inBody\"].processEndTag(token)\n        self.tree.insertFromTable = fosterParenting", "        self.parser.phases[\"inBody\"].processEndTag(token)\n        self.tree.insertFromTable = False", "C01.23"),
        T("frameset-switch-in-fragment", "html5parser.py", "        if (not self.parser.innerHTML and\n                self.tree.openElements[-1].name != \"frameset\"):", "        if self.tree.openElements[-1].name != \"frameset\":", "C01.12"),
        T("aaa-step2-dropped", "html5parser.py", "        currentNode = self.tree.openElements[-1]\n        if (currentNode.name == token[\"name\"] and\n                currentNode.namespace == self.tree.defaultNamespace and\n                currentNode not in self.tree.activeFormattingElements):\n            self.tree.openElements.pop()\n            return\n", "", "C01.22"),
        T("frameset-pop-name-only", "html5parser.py", "            while (self.tree.openElements[-1].namespace != self.tree.defaultNamespace or\n                   self.tree.openElements[-1].name != \"html\"):\n                self.tree.openElements.pop()\n            self.tree.insertElement(token)",
          "            while self.tree.openElements[-1].name != \"html\":\n                self.tree.openElements.pop()\n            self.tree.insertElement(token)", "C01.19"),
        T("frameset-drops-inner-space", "html5parser.py", "        self.parser.parseError(\"unexpected-char-in-frameset\")\n        # the white space inside a run of characters is not ignored\n        data = \"\".join([c for c in token[\"data\"] if c in spaceCharacters])\n        if data:\n            self.tree.insertText(data)\n",
          "        self.parser.parseError(\"unexpected-char-in-frameset\")\n", "C01.26"),
        T("row-context-name-only", "html5parser.py", "        while (self.tree.openElements[-1].namespace != self.tree.defaultNamespace or\n               self.tree.openElements[-1].name not in (\"tr\", \"html\")):", "        while self.tree.openElements[-1].name not in (\"tr\", \"html\"):", "C01.19"),
        T("intable-table-reprocess-unless-fragment", "html5parser.py", "        ignoreEndTag = not self.tree.elementInScope(\"table\", variant=\"table\")\n        self.parser.phase.processEndTag(impliedTagToken(\"table\"))\n        if not ignoreEndTag:\n            return token",
          "        self.parser.phase.processEndTag(impliedTagToken(\"table\"))\n        if not self.parser.innerHTML:\n            return token", "C01.18"),
        T("cell-space-generic", "html5parser.py", "    def processSpaceCharacters(self, token):\n        return self.parser.phases[\"inBody\"].processSpaceCharacters(token)\n\n    def startTagTableOther(self, token):", "    def startTagTableOther(self, token):", "C01.17"),
        T("foster-any-node", "treebuilders/base.py", "        if (not self.insertFromTable or (self.insertFromTable and\n                                         self.openElements[-1].name\n                                         not in tableInsertModeElements)):", "        if not self.insertFromTable:", "C01.14"),
        T("foster-element-any-node", "treebuilders/base.py", "        if self.openElements[-1].name not in tableInsertModeElements:\n            return self.insertElementNormal(token)", "        if False:\n            return self.insertElementNormal(token)", "C01.14"),
        T("adoption-outer-loop-16", "html5parser.py", "while outerLoopCounter < 8:", "while outerLoopCounter < 16:", "C01.15"),
        T("afe-scan-crosses-marker", "treebuilders/base.py",
          "            if item == Marker:\n                break", "            if item == Marker:\n                continue", "C01.13"),
        T("clear-afe-ignores-marker", "treebuilders/base.py",
          "        while self.activeFormattingElements and entry != Marker:", "        while self.activeFormattingElements:", "C01.13"),
        T("a-stays-on-stack", "html5parser.py",
          "            if afeAElement in self.tree.openElements:\n                self.tree.openElements.remove(afeAElement)\n", "", "C01.13"),
        T("breakout-ignores-html-ip", "html5parser.py",
          "                   not self.parser.isHTMLIntegrationPoint(self.tree.openElements[-1]) and\n", "", "C01.13"),
        T("mode-tr-to-cell", "html5parser.py",
          "        self.tree.insertElement(token)\n        self.parser.phase = self.parser.phases[\"inRow\"]\n",
          "        self.tree.insertElement(token)\n        self.parser.phase = self.parser.phases[\"inCell\"]\n", "C01.12"),
        T("mode-afterbody-html-to-frameset", "html5parser.py",
          "            self.parser.phase = self.parser.phases[\"afterAfterBody\"]", "            self.parser.phase = self.parser.phases[\"afterAfterFrameset\"]", "C01.12"),
        T("mode-space-after-after-body", "html5parser.py",
          "    def processSpaceCharacters(self, token):\n        return self.parser.phases[\"inBody\"].processSpaceCharacters(token)\n\n    def processCharacters(self, token):\n        self.parser.parseError(\"expected-eof-but-got-char\")\n        self.parser.phase = self.parser.phases[\"inBody\"]",
          "    def processSpaceCharacters(self, token):\n        self.parser.phase = self.parser.phases[\"inBody\"]\n        return self.parser.phases[\"inBody\"].processSpaceCharacters(token)\n\n    def processCharacters(self, token):\n        self.parser.parseError(\"expected-eof-but-got-char\")\n        self.parser.phase = self.parser.phases[\"inBody\"]", "C01.12"),
        T("mode-frameset-end-dropped", "html5parser.py",
          "            self.parser.phase = self.parser.phases[\"afterFrameset\"]", "            pass", "C01.12"),
        T("random-import", "html5parser.py", "from . import _utils\n", "from . import _utils\nimport random\n", "C01.1"),
        T("set-order", "html5parser.py",
          "        for attr, value in token[\"data\"].items():\n            if attr not in self.tree.openElements[0].attributes:",
          "        for attr in set(token[\"data\"]):\n            value = token[\"data\"][attr]\n            self.parser.log.append(attr)\n            if attr not in self.tree.openElements[0].attributes:", "C01.1"),
        T("drop-marker", "html5parser.py",
          "        self.parser.phase = self.parser.phases[\"inCell\"]\n        self.tree.activeFormattingElements.append(Marker)\n",
          "        self.parser.phase = self.parser.phases[\"inCell\"]\n", "C01.3"),
        T("drop-formpointer", "html5parser.py",
          "            self.tree.insertElement(token)\n            self.tree.formPointer = self.tree.openElements[-1]\n            self.tree.openElements.pop()",
          "            self.tree.insertElement(token)\n            self.tree.openElements.pop()", "C01.3"),
        T("drop-end-formatting-name", "html5parser.py",
          '        (("a", "b", "big", "code", "em", "font", "i", "nobr", "s", "small",\n          "strike", "strong", "tt", "u"), endTagFormatting),',
          '        (("a", "b", "big", "code", "em", "font", "i", "nobr", "s",\n          "strike", "strong", "tt", "u"), endTagFormatting),', "C01.3"),
        T("wrong-variant", "html5parser.py",
          '    def startTagHr(self, token):\n        if self.tree.elementInScope("p", variant="button"):',
          '    def startTagHr(self, token):\n        if self.tree.elementInScope("p"):', "C01.3"),
        T("script-no-textmode", "html5parser.py",
          "        self.parser.tokenizer.state = self.parser.tokenizer.scriptDataState\n        self.parser.originalPhase = self.parser.phase\n",
          "        self.parser.tokenizer.state = self.parser.tokenizer.scriptDataState\n", "C01.3"),
        T("fosterbracket", "html5parser.py",
          "        self.tree.insertFromTable = True\n        self.parser.phases[\"inBody\"].processEndTag(token)\n        self.tree.insertFromTable = fosterParenting",
          "        self.tree.insertFromTable = True\n        self.parser.phases[\"inBody\"].processEndTag(token)", "C01.3"),
        T("exclude-wrong", "html5parser.py", '            self.tree.generateImpliedEndTags("p")\n', '            self.tree.generateImpliedEndTags("li")\n', "C01.3"),
        T("dup-key", "html5parser.py", '        ("hr", startTagHr),\n        ("image", startTagImage),',
          '        ("hr", startTagHr),\n        ("br", startTagHr),\n        ("image", startTagImage),', "C01.2"),
        T("no-default", "html5parser.py", "    endTagHandler = _utils.MethodDispatcher([\n        (\"frameset\", endTagFrameset)\n    ])\n    endTagHandler.default = endTagOther\n",
          "    endTagHandler = _utils.MethodDispatcher([\n        (\"frameset\", endTagFrameset)\n    ])\n", "C01.2"),
        T("xmp-rcdata", "html5parser.py", '        self.parser.framesetOK = False\n        self.parser.parseRCDataRawtext(token, "RAWTEXT")',
          '        self.parser.framesetOK = False\n        self.parser.parseRCDataRawtext(token, "RCDATA")', "C02.7"),
        T("fragment-title-rawtext", "html5parser.py",
          "            if self.innerHTML in cdataElements:\n                self.tokenizer.state = self.tokenizer.rcdataState",
          "            if self.innerHTML in cdataElements:\n                self.tokenizer.state = self.tokenizer.rawtextState", "C01.4"),
        T("frameset-ok-hr", "html5parser.py", "        token[\"selfClosingAcknowledged\"] = True\n        self.parser.framesetOK = False\n\n    def startTagImage",
          "        token[\"selfClosingAcknowledged\"] = True\n\n    def startTagImage", "C01.6"),
        T("frameset-ok-div", "html5parser.py", "    def startTagCloseP(self, token):\n        if self.tree.elementInScope(\"p\", variant=\"button\"):\n            self.endTagP(impliedTagToken(\"p\"))\n        self.tree.insertElement(token)",
          "    def startTagCloseP(self, token):\n        if self.tree.elementInScope(\"p\", variant=\"button\"):\n            self.endTagP(impliedTagToken(\"p\"))\n        self.tree.insertElement(token)\n        self.parser.framesetOK = False", "C01.6"),
        T("nobr-stale-reconstruct", "html5parser.py", "            self.processEndTag(impliedTagToken(\"nobr\"))\n            # XXX Need tests that trigger the following\n            self.tree.reconstructActiveFormattingElements()\n",
          "            self.processEndTag(impliedTagToken(\"nobr\"))\n", "C01.7"),
        T("hr-reconstructs", "html5parser.py", "    def startTagHr(self, token):\n        if self.tree.elementInScope(\"p\", variant=\"button\"):\n            self.endTagP(impliedTagToken(\"p\"))\n",
          "    def startTagHr(self, token):\n        if self.tree.elementInScope(\"p\", variant=\"button\"):\n            self.endTagP(impliedTagToken(\"p\"))\n        self.tree.reconstructActiveFormattingElements()\n", "C01.7"),
        T("scope-forward", "treebuilders/base.py", "        for node in reversed(self.openElements):\n            if exactNode and node == target:", "        for node in self.openElements:\n            if exactNode and node == target:", "C01.8"),
        T("dispatch-malignmark", "html5parser.py", 'token["name"] not in frozenset(["mglyph", "malignmark"])) or', 'token["name"] not in frozenset(["mglyph"])) or', "C01.9"),
        T("dispatch-hip-endtag", "html5parser.py", "                         type in (StartTagToken, CharactersToken, SpaceCharactersToken))):", "                         type in (StartTagToken, EndTagToken, CharactersToken, SpaceCharactersToken))):", "C01.9"),
        T("dispatch-annotation-svg", "html5parser.py", "                         token[\"name\"] == \"svg\") or", "                         token[\"name\"] == \"math\") or", "C01.9"),
        T("hip-case-sensitive", "html5parser.py", "                    element.attributes[\"encoding\"].translate(\n                        asciiUpper2Lower) in", "                    element.attributes[\"encoding\"] in", "C01.9"),
        T("quirks-system-missing", "html5parser.py", '                     "-//w3c//dtd html 4.01 transitional//")) and\n                systemId is None or', '                     "-//w3c//dtd html 4.01 transitional//")) and\n                systemId is not None or', "C01.10"),
        T("quirks-case-sensitive", "html5parser.py", "        if publicId != \"\":\n            publicId = publicId.translate(asciiUpper2Lower)\n", "", "C01.10"),
        T("quirks-prefix-typo", "html5parser.py", '"-//w3c//dtd html 3.2 final//",', '"-//w3c//dtd html 3.2 finale//",', "C01.10"),
        T("reprocess-dropped-in-table", "html5parser.py", "        new_token = self.parser.phases[\"inBody\"].processStartTag(token)\n        self.tree.insertFromTable = fosterParenting\n        return new_token",
          "        self.parser.phases[\"inBody\"].processStartTag(token)\n        self.tree.insertFromTable = fosterParenting", "C01.11"),
        T("scope-drop-td", "constants.py", '    (namespaces["html"], "td"),\n    (namespaces["html"], "th"),\n    (namespaces["mathml"], "mi"),',
          '    (namespaces["html"], "th"),\n    (namespaces["mathml"], "mi"),', "C01.5"),
        T("svg-attr-case", "constants.py", '"viewbox": "viewBox"', '"viewbox": "viewbox"', "C01.5"),
        T("breakout-drop", "html5parser.py", '"span", "strong", "strike", "sub", "sup",', '"strong", "strike", "sub", "sup",', "C01.5"),
        T("special-drop-button", "constants.py", '    (namespaces["html"], "button"),\n    (namespaces["html"], "caption"),\n    (namespaces["html"], "center"),',
          '    (namespaces["html"], "caption"),\n    (namespaces["html"], "center"),', "C01.5"),
        T("reset-mode-td", "html5parser.py", '"td": "inCell",', '"td": "inRow",', "C01.5"),
        T("closep-drop-section", "html5parser.py", '"section", "summary", "ul"),\n         startTagCloseP),', '"summary", "ul"),\n         startTagCloseP),', "C01.5"),
    ]


def preserving():
    from ..selftest import TextMutant as T
    return [
        T("form-end-guard-clauses", "html5parser.py",
          "        node = self.tree.formPointer\n        self.tree.formPointer = None\n        if node is None or not self.tree.elementInScope(node):\n            self.parser.parseError(\"unexpected-end-tag\",\n                                   {\"name\": \"form\"})\n        else:\n            self.tree.generateImpliedEndTags()\n            if self.tree.openElements[-1] != node:\n                self.parser.parseError(\"end-tag-too-early-ignored\",\n                                       {\"name\": \"form\"})\n            self.tree.openElements.remove(node)\n",
          "        node, self.tree.formPointer = self.tree.formPointer, None\n        if node is None or not self.tree.elementInScope(node):\n            self.parser.parseError(\"unexpected-end-tag\", {\"name\": \"form\"})\n            return\n        self.tree.generateImpliedEndTags()\n        if self.tree.openElements[-1] != node:\n            self.parser.parseError(\"end-tag-too-early-ignored\", {\"name\": \"form\"})\n        self.tree.openElements.remove(node)\n", None),
        T("scope-by-union", "treebuilders/base.py", '    "button": (frozenset(scopingElements | {(namespaces["html"], "button")}), False),',
          '    "button": (frozenset(set(scopingElements) | frozenset([(namespaces["html"], "button")])), False),', None),
        T("formatting-const-edit", "constants.py", '    (namespaces["html"], "tt"),\n    (namespaces["html"], "u")\n])',
          '    (namespaces["html"], "tt")\n])', None),
        T("reversed-call", "treebuilders/base.py", "        for elm in self.openElements[::-1]:\n            if elm.name == \"table\":", "        for elm in reversed(self.openElements):\n            if elm.name == \"table\":", None),
        T("swap-stores", "html5parser.py",
          "        self.originalPhase = self.phase\n\n        self.phase = self.phases[\"text\"]",
          "        saved = self.phase\n        self.phase = self.phases[\"text\"]\n        self.originalPhase = saved", None),
    ]
