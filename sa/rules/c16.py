"""C16 -- strict mode raises ParseError exactly when a parse error exists.

R16.1 CODE/VARIABLES  every error site names a code that is a key of constants.E and
                      supplies every named placeholder of the message template.
R16.2 SINGLE FUNNEL   only HTMLParser.parseError appends to the parser's error list, the
                      append precedes the strict raise, the raise is of ParseError, and
                      tokenizer / stream errors reach it through mainLoop.
R16.3 NOT SWALLOWED   no `except` on the parse path catches ParseError / Exception /
                      BaseException / bare around a call that can reach parseError.
"""
from __future__ import annotations

import ast
import re

from ..repo import AnalysisError, attr_chain, norm, walk_no_nested
from ..consteval import NotConstant

LEVEL = "other"
TECHNIQUE = ("AST enumeration of all parse-error sites checked against the evaluated message table; structural funnel and handler checks; table of handlers that record an error unconditionally vs the standard's parse-error cells; self-closing acknowledgement table over handler CFGs; source evaluation of consumeEntity's error tokens against the standard's")
CLAIM = ('Every one of the ~230 parse-error sites (whether or not any input reaches it) names a code with a '
         "message template in constants.E and supplies the template's variables, so strict mode can only raise "
         'ParseError at an error site; errors are recorded before the strict raise through a single funnel, '
         'and no handler on the parse path can swallow the exception. Holds for all sites, not for sampled '
         "inputs. The stream's position counters are re-initialised by reset(); errors of a pass abandoned for "
         'an encoding restart are treated alike in both modes (known finding: they are not).'
         " A handler that records a parse error on every call implements a cell of the standard's tables whose rule is a parse error (56 handlers, table transcribed by hand). The self-closing flag is acknowledged for the conforming void elements and for no non-void element. After `&` an error token appears exactly where the standard's tokenizer reports one (five known findings: AT&T, a &b c, ?y&z, &copy=2, &noti in attributes). The trailing-solidus error is decided after the token's last reprocessing, not inside the reprocessing loop.")
NOT_DECIDED = ("positions inside the input, 'conforming documents record no errors' beyond the unconditional-error clause (tokenizer error cells are not transcribed), other exception types raised by "
               "unrelated defects.")
MODULES = ["html5parser.py", "_tokenizer.py", "_inputstream.py", "constants.py",
           "treebuilders/base.py"]

_SPEC = re.compile(r"%(?:\((?P<name>[^)]*)\))?(?P<flags>[-#0 +]*)(?P<width>\*|\d+)?(?:\.(?:\*|\d+))?"
                   r"[hlL]?(?P<conv>.)?", re.S)


def parse_template(tmpl: str):
    """-> (named {name: conv}, problems[])"""
    named, problems = {}, []
    i = 0
    while True:
        i = tmpl.find("%", i)
        if i < 0:
            break
        m = _SPEC.match(tmpl, i)
        conv = m.group("conv")
        if conv == "%" and m.group("name") is None:
            i = m.end()
            continue
        if conv is None or conv not in "diouxXeEfFgGcrsa":
            problems.append("malformed conversion at offset %d" % i)
            i += 1
            continue
        if m.group("name") is None:
            if conv not in "rsa":
                problems.append("positional %%%s cannot format a mapping" % conv)
        else:
            named[m.group("name")] = conv
        i = m.end()
    return named, problems


def _is_parse_error_type(node, ctx, mod) -> bool:
    """tokenTypes["ParseError"] (or its evaluated value)"""
    try:
        v = ctx.ce.eval(node, mod)
    except NotConstant:
        return False
    tt = ctx.ce.const("constants.py", "tokenTypes")
    return v == tt.get("ParseError") and isinstance(v, int) and not isinstance(v, bool)


def numeric_expr(func, expr) -> bool:
    """is `expr` (a Name) assigned from int(...) / arithmetic in the function?"""
    if isinstance(expr, ast.Constant):
        return isinstance(expr.value, (int, float)) and not isinstance(expr.value, bool)
    if isinstance(expr, ast.Name):
        vals = [n.value for n in ast.walk(func.node) if isinstance(n, ast.Assign)
                and any(isinstance(t, ast.Name) and t.id == expr.id for t in n.targets)]
        return bool(vals) and all(
            (isinstance(v, ast.Call) and isinstance(v.func, ast.Name) and v.func.id in ("int", "ord", "len"))
            or isinstance(v, ast.BinOp) or numeric_expr(func, v) for v in vals)
    return False


def error_sites(ctx):
    """Enumerate (kind, func, node, code_node, vars_node) for all error sites."""
    repo = ctx.repo
    sites = []
    for f in repo.all_functions():
        mod = f.module
        for n in walk_no_nested(f.node):
            if isinstance(n, ast.Call) and isinstance(n.func, ast.Attribute) and n.func.attr == "parseError":
                code = n.args[0] if n.args else next((k.value for k in n.keywords if k.arg == "errorcode"), None)
                dv = n.args[1] if len(n.args) > 1 else next((k.value for k in n.keywords if k.arg == "datavars"), None)
                sites.append(("call", f, n, code, dv))
            elif isinstance(n, ast.Dict):
                keys = {k.value: v for k, v in zip(n.keys, n.values)
                        if isinstance(k, ast.Constant) and isinstance(k.value, str)}
                if "type" in keys and _is_parse_error_type(keys["type"], ctx, mod):
                    sites.append(("token", f, n, keys.get("data"), keys.get("datavars")))
            elif (isinstance(n, ast.Call) and isinstance(n.func, ast.Attribute) and n.func.attr == "append"
                  and attr_chain(n.func.value) == ["self", "errors"] and mod.rel == "_inputstream.py"):
                sites.append(("stream", f, n, n.args[0] if n.args else None, None))
    return sites


# Handlers whose *whole rule* in the standard is a parse error: the cell of the insertion-mode table they implement begins with
# "Parse error." (transcribed by hand from the tree-construction section; one line of reason where the cell is not obvious).
UNCONDITIONAL_ERROR_HANDLERS = {
    "Phase.processDoctype": "a DOCTYPE token in any mode after 'initial'",
    "InitialPhase.processCharacters": "initial: anything else (no quirks exemption for text)", "InitialPhase.processStartTag": "initial: anything else",
    "InitialPhase.processEndTag": "initial: anything else", "InitialPhase.processEOF": "initial: anything else",
    "BeforeHeadPhase.endTagOther": "before head: any other end tag", "InHeadPhase.startTagHead": "in head: head start tag",
    "InHeadPhase.endTagOther": "in head: any other end tag", "InHeadNoscriptPhase.processEOF": "in head noscript: anything else",
    "InHeadNoscriptPhase.processCharacters": "in head noscript: anything else", "InHeadNoscriptPhase.startTagHeadNoscript": "head / noscript start tag",
    "InHeadNoscriptPhase.startTagOther": "anything else", "InHeadNoscriptPhase.endTagBr": "anything else", "InHeadNoscriptPhase.endTagOther": "any other end tag",
    "AfterHeadPhase.startTagFromHead": "after head: base, link, meta, ... start tag", "AfterHeadPhase.startTagHead": "head start tag",
    "AfterHeadPhase.endTagOther": "any other end tag", "InBodyPhase.startTagBody": "in body: body start tag", "InBodyPhase.startTagFrameset": "frameset start tag",
    "InBodyPhase.startTagImage": "image start tag", "InBodyPhase.startTagIsIndex": "isindex (revision current at the release)",
    "InBodyPhase.startTagMisplaced": "caption, col, ... start tag", "InBodyPhase.endTagBr": "br end tag", "TextPhase.processEOF": "text: end-of-file",
    "InTablePhase.startTagTable": "in table: table start tag", "InTablePhase.startTagForm": "form start tag", "InTablePhase.startTagOther": "anything else",
    "InTablePhase.endTagIgnore": "body, caption, ... end tag", "InTablePhase.endTagOther": "anything else", "InCaptionPhase.endTagIgnore": "body, col, ... end tag",
    "InColumnGroupPhase.endTagCol": "col end tag", "InTableBodyPhase.startTagTableCell": "th, td start tag", "InTableBodyPhase.endTagIgnore": "body, caption, ... end tag",
    "InRowPhase.endTagIgnore": "body, caption, ... end tag", "InCellPhase.endTagIgnore": "body, caption, ... end tag",
    "InSelectPhase.startTagSelect": "select start tag", "InSelectPhase.startTagInput": "input, keygen, textarea start tag", "InSelectPhase.startTagOther": "anything else",
    "InSelectPhase.endTagOther": "anything else", "InSelectInTablePhase.startTagTable": "caption, table, ... start tag",
    "InSelectInTablePhase.endTagTable": "caption, table, ... end tag", "AfterBodyPhase.processCharacters": "after body: anything else",
    "AfterBodyPhase.startTagOther": "anything else", "AfterBodyPhase.endTagOther": "anything else", "InFramesetPhase.processCharacters": "in frameset: anything else",
    "InFramesetPhase.startTagOther": "anything else", "InFramesetPhase.endTagOther": "anything else", "AfterFramesetPhase.processCharacters": "anything else",
    "AfterFramesetPhase.startTagOther": "anything else", "AfterFramesetPhase.endTagOther": "anything else", "AfterAfterBodyPhase.processCharacters": "anything else",
    "AfterAfterBodyPhase.startTagOther": "anything else", "AfterAfterBodyPhase.processEndTag": "anything else",
    "AfterAfterFramesetPhase.processCharacters": "anything else", "AfterAfterFramesetPhase.startTagOther": "anything else",
    "AfterAfterFramesetPhase.processEndTag": "anything else",
}


def unconditional_errors(ctx):
    """R16.8: "conforming documents record no errors" has one clause visible in the shape of the code: a handler that records a
    parse error on *every* call (a parseError statement at the top level of its body) must implement a cell of the standard's
    insertion-mode tables whose rule is "Parse error." -- otherwise a token that the standard accepts silently (an omitted
    `</caption>` implied by the next table element, say) makes every such document, conforming ones included, record an error
    and strict mode reject it."""
    r = ctx.r
    r.rule("R16.8", "a tree-construction handler that always records an error implements a cell whose rule in the standard is a parse error", floor=50)
    mod = ctx.repo.module("html5parser.py")
    for f in mod.all_functions:
        if f.cls is None or not f.cls.name.endswith("Phase"):
            continue
        for i_, st in enumerate(f.node.body):
            # written with guard clauses (`if ok: ...; return` before the error) the statement is not reached on every call
            if any(isinstance(x, (ast.Return, ast.Raise)) for prev in f.node.body[:i_] for x in ast.walk(prev)):
                break
            if isinstance(st, ast.Expr) and isinstance(st.value, ast.Call) and norm(st.value.func) == "self.parser.parseError":
                code = ce_code(ctx, st.value, mod)
                r.check("R16.8", f.qual in UNCONDITIONAL_ERROR_HANDLERS, "always-an-error::%s" % f.qual, "html5parser.py:%d" % st.lineno,
                        "%s records the parse error %s on every call, but the standard's rule for the tokens it handles is not an error in itself"
                        "%s" % (f.qual, code, {
                            "InCaptionPhase.startTagTableElement": " (in caption, a caption / col / colgroup / tbody / td / tfoot / th / thead / tr start tag closes the "
                            "caption; it is an error only if no caption is in table scope or the current node is not the caption): the conforming "
                            "`<table><caption>c<tbody><tr><td>d</table>` records an error and strict mode raises",
                            "InCaptionPhase.endTagTable": " (in caption, `</table>` closes the caption silently): the conforming `<table><caption>c</table>` "
                            "records an error and strict mode raises"}.get(f.qual, "")),
                        {"handler": f.qual, "code": code}, detail={"handler": f.qual, "reason": UNCONDITIONAL_ERROR_HANDLERS.get(f.qual)})
                break


# insertion mode -> start tags for which the standard says "Acknowledge the token's self-closing flag, if it is set" and which
# are conforming void elements (frame, keygen, basefont, bgsound are left out: documents with them are not conforming anyway)
ACK_REQUIRED = {
    "inHead": ("base", "link", "meta"),
    "inBody": ("area", "br", "embed", "img", "wbr", "input", "param", "source", "track", "hr"),
    "inColumnGroup": ("col",),
}


def self_closing_acknowledged(ctx):
    """R16.9: `<br/>`, `<source src=x />`, `<col/>` are conforming; the tokenizer's self-closing flag must be acknowledged by
    the handler that inserts the void element, otherwise the main loop records non-void-element-with-trailing-solidus for a
    conforming document (and strict mode raises).  Per (mode, name) cell of the table above: on every path of the handler to
    its normal exit that does not hand the token to another handler, `token["selfClosingAcknowledged"] = True` is stored --
    directly or in a helper of the phase that stores it on all of its paths.  Conversely no handler acknowledges the flag for
    a name that is not a void element (`<div/>` is an error)."""
    from ..cfg import CFG, node_calls
    from ..parsermodel import ParserModel
    r = ctx.r
    r.rule("R16.9", "the self-closing flag is acknowledged for the conforming void elements and for no other element", floor=12)
    pm = ctx.shared("parsermodel", lambda: ParserModel(ctx.repo, ctx.ce))
    void = ctx.ce.const("constants.py", "voidElements")

    def stores_ack(n, tokname):
        return n.kind == "stmt" and isinstance(n.ast, ast.Assign) and any(
            isinstance(t, ast.Subscript) and norm(t.value) == tokname and ctx.ce.try_eval(t.slice, ctx.repo.module("html5parser.py")) == "selfClosingAcknowledged"
            for t in n.ast.targets) and ctx.ce.try_eval(n.ast.value, ctx.repo.module("html5parser.py")) is True
    summaries = {}

    def always_acks(f, depth=0):
        """every path entry -> exit of f stores the acknowledgement on its token parameter (or calls a helper that does)"""
        if f.fq in summaries:
            return summaries[f.fq]
        summaries[f.fq] = False
        if len(f.params()) < 2:
            return False
        tok = f.params()[1]
        cfg = CFG(f.node)

        def ack(n):
            if stores_ack(n, tok):
                return True
            if depth < 2:
                for c in node_calls(n):
                    if isinstance(c.func, ast.Attribute) and norm(c.func.value) == "self" and f.cls is not None and c.args and norm(c.args[0]) == tok:
                        h = f.cls.find_method(c.func.attr)
                        if h is not None and always_acks(h, depth + 1):
                            return True
            return False
        par = cfg.reach_forward([cfg.entry], ack)
        summaries[f.fq] = cfg.exit.id not in par
        return summaries[f.fq]

    def ack_or_delegate(f):
        tok = f.params()[1]
        cfg = CFG(f.node)

        def stop(n):
            if stores_ack(n, tok):
                return True
            for c in node_calls(n):
                fn = norm(c.func)
                if c.args and norm(c.args[0]) == tok and (fn.endswith(".processStartTag") or (fn.startswith("self.startTag") and not _helper_acks(f, c))):
                    return True          # handed to another handler (its own cell is checked)
                if _helper_acks(f, c):
                    return True
            return False

        def _noop():
            return None
        par = cfg.reach_forward([cfg.entry], stop)
        return cfg.exit.id not in par

    def _helper_acks(f, c):
        if isinstance(c.func, ast.Attribute) and norm(c.func.value) == "self" and f.cls is not None and c.args and norm(c.args[0]) == f.params()[1]:
            h = f.cls.find_method(c.func.attr)
            return h is not None and always_acks(h, 1)
        return False
    for mode, names in sorted(ACK_REQUIRED.items()):
        cls = pm.phases.get(mode)
        for nm in names:
            h, how = pm.handler(cls, "StartTag", nm) if cls is not None else (None, "no such phase")
            key = "acknowledged::%s::%s" % (mode, nm)
            if h is None or len(h.params()) < 2:
                r.idiom("R16.9", False, key, "html5parser.py", "no start-tag handler for <%s> in %s (%s)" % (nm, mode, how))
                continue
            r.check("R16.9", ack_or_delegate(h), key, h.where,
                    "%s (start tag <%s> in %s) can return without acknowledging the token's self-closing flag: the conforming `<%s/>` records "
                    "non-void-element-with-trailing-solidus and strict mode raises" % (h.qual, nm, mode, nm), {"mode": mode, "name": nm},
                    detail={"handler": h.qual})
    # converse: an acknowledging handler serves only void elements
    for mode, cls in sorted(pm.phases.items()):
        tab = pm.table_for(cls, "startTagHandler")
        if tab is None:
            continue
        for nm, h in sorted(tab.map.items()):
            # (elements the standard, in some revision, also inserts-and-pops with an acknowledgement)
            if len(h.params()) >= 2 and always_acks(h) and nm not in void and nm not in (
                    "image", "keygen", "basefont", "bgsound", "frame", "command", "menuitem", "isindex"):
                r.bad("R16.9", "acknowledged-only-void::%s::%s" % (mode, nm), h.where,
                      "%s acknowledges the self-closing flag for <%s>, which is not a void element: `<%s/>` is no longer reported" % (h.qual, nm, nm),
                      {"mode": mode, "name": nm})


def solidus_check_after_reprocessing(ctx):
    """R16.11: whether a start tag's self-closing flag was acknowledged is known only when the token has been handled by the
    *last* insertion mode it is handed to (`<meta charset=x/>` travels initial -> before html -> before head -> in head, each
    handing the token on).  The non-void-element-with-trailing-solidus test therefore stands after the reprocessing loop, not
    inside it: inside, every hand-over of a conforming void element records the error."""
    r = ctx.r
    r.rule("R16.11", "the trailing-solidus error is decided after the token's last reprocessing", floor=1)
    f = ctx.repo.func("html5parser.py", "HTMLParser.mainLoop")
    sites = [c for c in ast.walk(f.node) if isinstance(c, ast.Call) and norm(c.func).endswith("parseError") and c.args and
             ctx.ce.try_eval(c.args[0], f.module) == "non-void-element-with-trailing-solidus"]
    if not sites:
        r.idiom("R16.11", False, "solidus-check-position", f.where, "the trailing-solidus error site of mainLoop was not found")
        return
    whiles = [w for w in ast.walk(f.node) if isinstance(w, ast.While) and any(x is s_ for s_ in sites for x in ast.walk(w)) and "new_token" in norm(w.test)]
    r.check("R16.11", not whiles, "solidus-check-position", "html5parser.py:%d" % sites[0].lineno,
            "the non-void-element-with-trailing-solidus test stands inside the reprocessing loop (`while %s`): a self-closing void start tag that "
            "is handed on between insertion modes -- `<!DOCTYPE html><meta charset=\"utf-8\"/>` with html and head implied -- is reported before "
            "the mode that acknowledges the flag has seen it: a conforming document records errors and strict mode raises" % (
                norm(whiles[0].test)[:40] if whiles else ""))


def character_reference_errors(ctx):
    """R16.10: "conforming documents record no errors", for text after `&`.  The standard's tokenizer reports (a) a named
    reference that is decoded although its `;` is missing, (b) `&name;` whose name is unknown -- and nothing else: `AT&T`,
    `a &b c`, `href="x?y&z"` and the historical attribute case `href="?a=1&copy=2"` (left as text) are not errors and are
    conforming.  HTMLTokenizer.consumeEntity is run from its source (sa/classeval.py, entity trie modelled over
    constants.entities) and the presence of a ParseError token is compared per input."""
    from ..classeval import ClassEval, Record
    r, ce = ctx.r, ctx.ce
    r.rule("R16.10", "after `&`, a parse error is recorded exactly where the standard's tokenizer reports one", floor=10)
    REL_T = "_tokenizer.py"
    g = ctx.repo.func(REL_T, "HTMLTokenizer.consumeEntity")
    cls_ = ctx.repo.cls(REL_T, "HTMLTokenizer")
    ents = ce.const("constants.py", "entities")
    tt = ce.const("constants.py", "tokenTypes")
    prefixes = set()
    for k in ents:
        for i in range(1, len(k) + 1):
            prefixes.add(k[:i])

    def longest(p):
        for i in range(len(p), 0, -1):
            if p[:i] in ents:
                return p[:i]
        raise KeyError(p)
    trie = Record(has_keys_with_prefix=lambda p: p in prefixes, longest_prefix=longest)
    cases = [("T", False), ("b c", False), ("z\"", True), ("b; c", False), ("copy=2", True), ("copy 2", False), ("copy;", False), ("amp;", False),
             ("noti", True), ("not x", True), ("zzzz;", False), (" x", False), ("", False), ("lt", False), ("quot;", True), ("x1y2;", True)]
    for text, from_attr in cases:
        key = "entity-error[&%s,%s]" % (text, "attribute" if from_attr else "text")
        evl = ClassEval(ce, g.module, cls_, {"currentToken": {"type": tt["StartTag"], "name": "a", "data": [["href", ""]]}}, repo=ctx.repo,
                        globals_override={"entitiesTrie": trie})
        evl.stream = list(text)
        try:
            evl.call("consumeEntity", [], {"allowedChar": '"' if from_attr else None, "fromAttribute": from_attr})
        except AnalysisError as e:
            r.idiom("R16.10", False, key, g.where, "consumeEntity is not evaluable on `&%s` (%s)" % (text, str(e)[:80]))
            continue
        got = [t.get("data") for t in evl.emitted if isinstance(t, dict) and t.get("type") == tt["ParseError"]]
        # the standard
        m = next((text[:i] for i in range(len(text), 0, -1) if text[:i] in ents), None)
        if text == "" or text[0] in "\t\n\x0c\r <&" or (from_attr and text[0] == '"'):
            exp = False
        elif m is not None:
            nxt = text[len(m):len(m) + 1]
            historical = not m.endswith(";") and from_attr and nxt != "" and (nxt == "=" or (nxt.isascii() and nxt.isalnum()))
            exp = (not m.endswith(";")) and not historical
        else:
            k = 0
            while k < len(text) and text[k].isascii() and text[k].isalnum():
                k += 1
            exp = k > 0 and text[k:k + 1] == ";"
        r.check("R16.10", bool(got) == exp, key, g.where,
                "after `&%s` in %s html5lib records %s; the standard's tokenizer reports %s: %s" % (
                    text, "an attribute value" if from_attr else "text", got or "no error", "an error" if exp else "none",
                    "the input is conforming (an ampersand that starts no reference and is not followed by `name;` is plain text), yet the "
                    "document has an error and strict mode raises" if got and not exp else "an error is lost"),
                {"input": "&" + text, "attribute": from_attr}, detail={"input": "&" + text, "errors": got})


def ce_code(ctx, call, mod):
    if not call.args:
        return "XXX-undefined-error (no code given)"
    v = ctx.ce.try_eval(call.args[0], mod)
    return repr(v) if v is not None else norm(call.args[0])


def run(ctx):
    r = ctx.r
    repo, ce = ctx.repo, ctx.ce
    r.explanation = (
        "Every parse-error site of the package (parseError calls, tokenizer ParseError token literals, "
        "input-stream error appends) is enumerated from the AST and its code/variables are checked "
        "against the evaluated message table constants.E; the error funnel (record, then raise ParseError "
        "when strict) and the absence of swallowing handlers are checked structurally.")
    r.not_decided = ("positions inside the input; 'conforming documents record no errors'; exception types "
                     "raised by unrelated defects (C03 covers some).")
    r.rule("R16.1", "error site names a code in constants.E and supplies every placeholder of its template", floor=200)
    r.rule("R16.1t", "every template of constants.E is a well-formed %-format usable with a mapping", floor=100)
    r.rule("R16.2", "single funnel: append to parser.errors only in parseError, append precedes strict raise of ParseError; "
                    "mainLoop forwards ParseError tokens; tokenizer drains stream.errors", floor=5)
    r.rule("R16.3", "no except clause on the parse path can swallow ParseError around a call reaching parseError", floor=1)
    unconditional_errors(ctx)
    self_closing_acknowledged(ctx)
    character_reference_errors(ctx)
    solidus_check_after_reprocessing(ctx)

    # strict <=> non-strict across an encoding restart: the restart (except _ReparseException: reset(); mainLoop()) forgets
    # the errors of the abandoned pass; strict mode must then not have raised for them (or the restart must keep them)
    r.rule("R16.7", "errors of a pass that is abandoned for an encoding restart count the same in both modes", floor=1)
    pf = repo.func("html5parser.py", "HTMLParser._parse")
    handlers = [h for t in ast.walk(pf.node) if isinstance(t, ast.Try) for h in t.handlers if h.type is not None and "_ReparseException" in norm(h.type)]
    rs = repo.func("html5parser.py", "HTMLParser.reset")
    clears = any(isinstance(s, ast.Assign) and norm(s.targets[0]) == "self.errors" and norm(s.value) == "[]" for s in walk_no_nested(rs.node))
    restarts_with_reset = any(any(isinstance(c, ast.Call) and norm(c.func) == "self.reset" for c in ast.walk(s)) for h in handlers for s in h.body)
    pe = repo.func("html5parser.py", "HTMLParser.parseError")
    raises = [n for n in ast.walk(pe.node) if isinstance(n, ast.Raise)]
    defers = any(isinstance(t, ast.If) and ("tentative" in norm(t.test) or "charEncoding" in norm(t.test)) for t in ast.walk(pe.node))
    if not handlers or not raises:
        r.idiom("R16.7", False, "restart-forgets-what-strict-raised", pf.where, "the restart handler / the strict raise were not found")
    else:
        r.check("R16.7", not (restarts_with_reset and clears) or defers, "restart-forgets-what-strict-raised", pf.where,
                "when a late <meta charset> restarts the parse, reset() discards the errors recorded so far, but in strict mode parseError "
                "has already raised for the first of them: bytes that are erroneous only under the tentative encoding (ESC of an "
                "ISO-2022-JP title read as windows-1252) make strict parsing raise although the non-strict parse records no error",
                detail={"reset_clears_errors": clears, "restart_calls_reset": restarts_with_reset, "strict_raise_deferred_while_tentative": defers})
    # positions: the stream's line/column counters are re-initialised when the stream is restarted within a parse
    from .c05 import stream_reset
    stream_reset(ctx, "R16.6")
    E = ce.const("constants.py", "E")
    if not isinstance(E, dict) or len(E) < 100:
        raise AnalysisError("constants.E is not a dict of >=100 templates")

    # ---- R16.1t templates
    templ = {}
    for code, t in E.items():
        named, problems = parse_template(t)
        templ[code] = named
        r.check("R16.1t", not problems, "E[%s]" % code, ce.provenance(repo.module("constants.py"), "E"),
                "message template %r is not formattable with a mapping: %s" % (t, problems))

    # ---- R16.1 sites
    used = set()
    forwarders = []
    for kind, f, node, code_node, vars_node in error_sites(ctx):
        where = "%s:%d" % (f.module.rel, node.lineno)
        if kind == "call" and code_node is None:
            code = None
            fn = repo.func("html5parser.py", "HTMLParser.parseError")
            # default of the errorcode parameter
            a = fn.node.args
            defaults = dict(zip([x.arg for x in a.args][-len(a.defaults):], a.defaults)) if a.defaults else {}
            d = defaults.get("errorcode")
            if isinstance(d, ast.Constant) and isinstance(d.value, str):
                code = d.value
            else:
                raise AnalysisError("parseError() called without a code at %s and no constant default" % where)
        elif isinstance(code_node, ast.Constant) and isinstance(code_node.value, str):
            code = code_node.value
        else:
            # a forwarding site: the code is data from another site
            forwarders.append((kind, f, node, code_node))
            continue
        used.add(code)
        key = "%s::%s::%s" % (f.module.rel, f.qual, code)
        if code not in E:
            r.bad("R16.1", key, where, "error code %r is not a key of constants.E: strict mode raises KeyError "
                  "instead of ParseError" % code, {"code": code, "site": norm(node)[:200]})
            continue
        supplied = {}
        if vars_node is None:
            pass
        elif isinstance(vars_node, ast.Dict) and all(isinstance(k, ast.Constant) for k in vars_node.keys):
            supplied = {k.value: v for k, v in zip(vars_node.keys, vars_node.values)}
        else:
            raise AnalysisError("datavars at %s is not a dict literal with constant keys" % where)
        missing = sorted(set(templ[code]) - set(supplied))
        bad_num = sorted(n for n, c in templ[code].items() if c in "diouxXeEfFgGc" and n in supplied
                         and not numeric_expr(f, supplied[n]))
        r.check("R16.1", not missing and not bad_num, key, where,
                "template of %r needs %s; site supplies %s%s" % (
                    code, sorted(templ[code]), sorted(supplied),
                    ("; non-numeric value for numeric conversion: %s" % bad_num) if bad_num else ""),
                {"code": code, "missing": missing},
                detail={"code": code, "template_vars": sorted(templ[code]), "supplied": sorted(supplied)})
    r.extra["error_sites"] = r.rules["R16.1"]["instances"]
    r.extra["unused_messages"] = sorted(set(E) - used)

    # ---- R16.2 funnel
    # forwarding sites must be exactly: mainLoop -> parseError(new_token["data"], ...) and
    # HTMLTokenizer.__iter__ yielding stream.errors.pop(0)
    fw = sorted("%s::%s" % (f.module.rel, f.qual) for _, f, _, _ in forwarders)
    r.check("R16.2", fw == ["_tokenizer.py::HTMLTokenizer.__iter__", "html5parser.py::HTMLParser.mainLoop"],
            "forwarders", "html5parser.py", "error-forwarding sites changed: %s" % fw, {"forwarders": fw},
            detail={"forwarders": fw})
    # the parser's error list: stores/appends
    pe = repo.func("html5parser.py", "HTMLParser.parseError")
    appenders = []
    for f in repo.all_functions():
        if f.module.rel not in ("html5parser.py", "_tokenizer.py", "treebuilders/base.py"):
            continue
        for n in walk_no_nested(f.node):
            if isinstance(n, ast.Call) and isinstance(n.func, ast.Attribute) and \
                    n.func.attr in ("append", "extend", "insert") :
                ch = attr_chain(n.func.value)
                if ch and ch[-1] == "errors" and ch[:-1] in (["self"], ["self", "parser"], ["parser"]) \
                        and not (f.module.rel == "_tokenizer.py"):
                    appenders.append(f)
    r.check("R16.2", [a.fq for a in appenders] == [pe.fq], "appenders", pe.where,
            "parser.errors is appended to outside HTMLParser.parseError: %s" % [a.fq for a in appenders])
    # inside parseError: append precedes `if self.strict: raise ParseError(E[errorcode] % datavars)`
    body = pe.node.body
    idx_append = idx_raise = None
    raise_ok = False
    for i, st in enumerate(body):
        for n in ast.walk(st):
            if isinstance(n, ast.Call) and isinstance(n.func, ast.Attribute) and n.func.attr == "append" \
                    and attr_chain(n.func.value) == ["self", "errors"] and idx_append is None:
                idx_append = i
                # the recorded tuple carries the code and the variables
                tup = n.args[0] if n.args else None
                names = {x.id for x in ast.walk(tup) if isinstance(x, ast.Name)} if tup is not None else set()
                params = pe.params()
                if not (len(params) >= 3 and {params[1], params[2]} <= names):
                    r.bad("R16.2", "record-shape", pe.where, "recorded error does not carry code and variables")
        if isinstance(st, ast.If) and attr_chain(st.test) == ["self", "strict"]:
            for n in st.body:
                if isinstance(n, ast.Raise) and isinstance(n.exc, ast.Call) and \
                        isinstance(n.exc.func, ast.Name) and n.exc.func.id == "ParseError":
                    idx_raise = i
                    arg = n.exc.args[0] if n.exc.args else None
                    raise_ok = (isinstance(arg, ast.BinOp) and isinstance(arg.op, ast.Mod)
                                and isinstance(arg.left, ast.Subscript)
                                and isinstance(arg.left.value, ast.Name) and arg.left.value.id == "E")
    r.idiom("R16.2", idx_append is not None and idx_raise is not None and idx_append < idx_raise and raise_ok,
            "record-then-raise", pe.where, wrong=[(idx_append is not None and idx_raise is not None and idx_append > idx_raise, None),
                                                 (idx_append is None and idx_raise is not None, "parseError raises without recording the error")], msg=
            "parseError must append to self.errors before `if self.strict: raise ParseError(E[code] %% vars)` "
            "(append@%s raise@%s formatted=%s)" % (idx_append, idx_raise, raise_ok))
    # ParseError is an Exception subclass defined in html5parser and E is constants.E
    pcls = repo.cls("html5parser.py", "ParseError")
    r.check("R16.2", pcls.base_exprs == ["Exception"], "ParseError-class", pcls.where,
            "ParseError must derive from Exception directly: %s" % pcls.base_exprs)
    imp = repo.module("html5parser.py").imports.get("E")
    r.check("R16.2", imp == ("html5lib.constants", "E"), "E-import", "html5parser.py",
            "html5parser.E is not constants.E: %s" % (imp,))
    # mainLoop: `if type == ParseErrorToken: self.parseError(new_token["data"], new_token.get("datavars", {}))`
    ml = repo.func("html5parser.py", "HTMLParser.mainLoop")
    found = False
    for n in ast.walk(ml.node):
        if isinstance(n, ast.If) and isinstance(n.test, ast.Compare) and len(n.test.ops) == 1 \
                and isinstance(n.test.ops[0], ast.Eq):
            names = {x.id for x in ast.walk(n.test) if isinstance(x, ast.Name)}
            if "ParseErrorToken" in names:
                for c in ast.walk(ast.Module(body=n.body, type_ignores=[])):
                    if isinstance(c, ast.Call) and isinstance(c.func, ast.Attribute) and c.func.attr == "parseError" \
                            and len(c.args) == 2 and norm(c.args[0]).endswith("['data']") \
                            and "datavars" in norm(c.args[1]):
                        found = True
    env = ce.local_env(ml.node, ml.module)
    tt = ce.const("constants.py", "tokenTypes")
    fwd_calls = [c for n in ast.walk(ml.node) if isinstance(n, ast.If) and "ParseErrorToken" in norm(n.test)
                 for c in ast.walk(ast.Module(body=n.body, type_ignores=[])) if isinstance(c, ast.Call) and norm(c.func).endswith("parseError")]
    r.idiom("R16.2", found and env.get("ParseErrorToken") == tt["ParseError"], "mainLoop-forward", ml.where,
            "mainLoop no longer forwards ParseError tokens (data, datavars) to parseError",
            wrong=[(len(fwd_calls) == 1 and len(fwd_calls[0].args) < 2 and not fwd_calls[0].keywords,
                    "ParseError tokens are forwarded without their datavars: templates with placeholders raise KeyError in strict mode")])
    # tokenizer __iter__: drains stream.errors before queued tokens of each step
    it = repo.func("_tokenizer.py", "HTMLTokenizer.__iter__")
    whiles = [n for n in ast.walk(it.node) if isinstance(n, ast.While)]
    order = []
    for w in whiles:
        ch = attr_chain(w.test)
        if ch == ["self", "stream", "errors"]:
            order.append("errors")
        elif ch == ["self", "tokenQueue"]:
            order.append("queue")
    order = [o for o in order]
    # ast.walk is breadth-first; compare by line
    pos = {}
    for w in whiles:
        ch = attr_chain(w.test)
        if ch == ["self", "stream", "errors"]:
            pos["errors"] = w.lineno
        elif ch == ["self", "tokenQueue"]:
            pos["queue"] = w.lineno
    r.idiom("R16.2", "errors" in pos and "queue" in pos and pos["errors"] < pos["queue"], "tokenizer-drain",
            it.where, "HTMLTokenizer.__iter__ must yield stream errors (then queued tokens) after each state step")

    # ---- R16.3 swallowing handlers
    parse_path = ("html5parser.py", "_tokenizer.py", "_inputstream.py", "treebuilders/base.py",
                  "treebuilders/etree.py", "treebuilders/dom.py", "_utils.py", "_trie/py.py", "_trie/_base.py")
    n_handlers = 0
    for f in repo.all_functions():
        if f.module.rel not in parse_path:
            continue
        for n in walk_no_nested(f.node):
            if not isinstance(n, ast.Try):
                continue
            for h in n.handlers:
                n_handlers += 1
                types = []
                if h.type is None:
                    types = ["<bare>"]
                elif isinstance(h.type, ast.Tuple):
                    types = [norm(e) for e in h.type.elts]
                else:
                    types = [norm(h.type)]
                broad = [t for t in types if t in ("<bare>", "Exception", "BaseException", "ParseError")]
                key = "%s::%s::except %s" % (f.module.rel, f.qual, ",".join(types))
                where = "%s:%d" % (f.module.rel, h.lineno)
                if not broad:
                    r.ok("R16.3", key, where)
                    continue
                # does the guarded body contain a call that can reach parseError?  Conservative
                # syntactic closure: any call on self/parser/phase/tree/tokenizer objects or a
                # for-loop over the tokenizer counts as "can reach"; calls on foreign objects
                # (stream.seek/tell, eval, imports) do not.
                risky = []
                for b in n.body:
                    for c in ast.walk(b):
                        if isinstance(c, ast.Call):
                            ch = attr_chain(c.func) or []
                            if ch and ch[0] == "self" and not (
                                    len(ch) >= 2 and ch[1] in ("rawStream", "dataStream", "stream") and
                                    f.module.rel == "_inputstream.py"):
                                risky.append(norm(c)[:80])
                            elif ch and ch[-1] in ("parseError", "mainLoop", "_parse", "parse", "parseFragment",
                                                   "processStartTag", "processEndTag", "processCharacters"):
                                risky.append(norm(c)[:80])
                r.check("R16.3", not risky, key, where,
                        "`except %s` encloses calls that can reach parseError: %s" % (",".join(types), risky[:3]),
                        {"calls": risky}, detail={"types": types, "guarded_calls_reaching_parseError": 0})
    r.extra["except_handlers_on_parse_path"] = n_handlers


# ------------------------------------------------------------------ self-test variants
def mutants():
    from ..selftest import TextMutant as T, AstMutant as A
    return [
        T("solidus-check-in-reprocessing-loop", "html5parser.py", "                    elif type == StartTagToken:\n                        new_token = phase.processStartTag(new_token)\n",
          "                    elif type == StartTagToken:\n                        new_token = phase.processStartTag(new_token)\n                        if (prev_token[\"selfClosing\"] and\n                                not prev_token[\"selfClosingAcknowledged\"]):\n                            self.parseError(\"non-void-element-with-trailing-solidus\",\n                                            {\"name\": prev_token[\"name\"]})\n", "R16.11"),
        T("param-source-no-ack", "html5parser.py", "    def startTagParamSource(self, token):\n        self.tree.insertElement(token)\n        self.tree.openElements.pop()\n        token[\"selfClosingAcknowledged\"] = True\n",
          "    def startTagParamSource(self, token):\n        self.tree.insertElement(token)\n        self.tree.openElements.pop()\n", "R16.9"),
        T("div-acknowledged", "html5parser.py", "    def startTagCloseP(self, token):\n", "    def startTagCloseP(self, token):\n        token[\"selfClosingAcknowledged\"] = True\n", "R16.9"),
        T("caption-implied-end-is-an-error", "html5parser.py", "    def endTagTable(self, token):\n        ignoreEndTag = self.ignoreEndTagCaption()", "    def endTagTable(self, token):\n        self.parser.parseError()\n        ignoreEndTag = self.ignoreEndTagCaption()", "R16.8"),
        T("option-start-in-select-is-an-error", "html5parser.py", "    def startTagOption(self, token):\n        # We need to imply </option> if <option> is the current node.", "    def startTagOption(self, token):\n        self.parser.parseError(\"unexpected-start-tag\", {\"name\": \"option\"})\n        # We need to imply </option> if <option> is the current node.", "R16.8"),
        T("drop-E-key", "constants.py", '"eof-in-tag-name":', '"eof-in-tag-name-x":', "R16.1"),
        T("missing-var", "html5parser.py",
          'self.parser.parseError("unexpected-end-tag-before-html",\n                                   {"name": token["name"]})',
          'self.parser.parseError("unexpected-end-tag-before-html",\n                                   {"nam": token["name"]})',
          "R16.1"),
        T("typo-code", "_tokenizer.py", '"eof-in-comment-double-dash"', '"eof-in-comment-double-dashes"', "R16.1"),
        T("raise-before-append", "html5parser.py",
          '        self.errors.append((self.tokenizer.stream.position(), errorcode, datavars))\n        if self.strict:\n            raise ParseError(E[errorcode] % datavars)',
          '        if self.strict:\n            raise ParseError(E[errorcode] % datavars)\n        self.errors.append((self.tokenizer.stream.position(), errorcode, datavars))',
          "R16.2"),
        T("swallow", "html5parser.py",
          '        try:\n            self.mainLoop()\n        except _ReparseException:',
          '        try:\n            self.mainLoop()\n        except ParseError:\n            pass\n        except _ReparseException:',
          "R16.3"),
        T("second-appender", "html5parser.py",
          '    def processDoctype(self, token):\n        self.parser.parseError("unexpected-doctype")',
          '    def processDoctype(self, token):\n        self.parser.errors.append(((0, 0), "unexpected-doctype", {}))',
          "R16.2"),
        T("bad-template", "constants.py", '"Unexpected end tag (%(name)s). Ignored."', '"Unexpected end tag (%(name)). Ignored."', "R16.1t"),
    ]


def preserving():
    from ..selftest import TextMutant as T
    return [
        T("kw-call", "html5parser.py", 'self.parser.parseError("unexpected-doctype")',
          'self.parser.parseError(errorcode="unexpected-doctype")', None),
        T("extra-var", "html5parser.py", 'self.parser.parseError("two-heads-are-not-better-than-one")',
          'self.parser.parseError("two-heads-are-not-better-than-one", {"name": token["name"]})', None),
        # the acknowledgement moved into a helper that the handler always calls
        T("ack-in-helper", "html5parser.py", "    def startTagParamSource(self, token):\n        self.tree.insertElement(token)\n        self.tree.openElements.pop()\n        token[\"selfClosingAcknowledged\"] = True\n",
          "    def insertVoid(self, token):\n        self.tree.insertElement(token)\n        self.tree.openElements.pop()\n        token[\"selfClosingAcknowledged\"] = True\n\n    def startTagParamSource(self, token):\n        self.insertVoid(token)\n", None),
    ]


def thorough(ctx):
    from .. import selftest
    import sys
    selftest.run(ctx, sys.modules[__name__])
